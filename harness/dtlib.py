"""Shared helpers of the C03 / C17 checks: dtype names of the Lean model M7, exception classes, driver batches."""
from __future__ import annotations

import numpy as np

from .leanbuild import run_driver

REAL = ["bool", "i8", "i16", "i32", "i64", "u8", "u16", "u32", "u64", "f16", "f32", "f64"]
NONREAL = ["c64", "c128", "obj"]
NP = {
    "bool": np.bool_, "i8": np.int8, "i16": np.int16, "i32": np.int32, "i64": np.int64,
    "u8": np.uint8, "u16": np.uint16, "u32": np.uint32, "u64": np.uint64,
    "f16": np.float16, "f32": np.float32, "f64": np.float64,
    "c64": np.complex64, "c128": np.complex128, "obj": np.object_,
}
_NAME = {np.dtype(v): k for k, v in NP.items()}
FLOATS = ["f16", "f32", "f64"]


def dname(dt) -> str:
    """model name of a NumPy dtype (anything outside the model: its NumPy string, e.g. `<U8`)"""
    dt = np.dtype(dt)
    return _NAME.get(dt, dt.str)


def is_float(n: str) -> bool:
    return n in FLOATS


def exc_class(e: BaseException) -> str:
    """small enum of exception classes (UFuncTypeError etc. are TypeErrors)"""
    for c in (OverflowError, TypeError, ValueError, IndexError, ZeroDivisionError, NotImplementedError):
        if isinstance(e, c):
            return c.__name__
    return "Other:" + type(e).__name__


def ask(lines):
    """pipe `dtype …` queries to the Lean driver"""
    return run_driver(["dtype " + l for l in lines])


def bits(a) -> bytes:
    a = np.ascontiguousarray(a)
    return a.tobytes()


def same_array(a, b) -> bool:
    """bitwise-equal values (NaNs equal), same shape and dtype"""
    a, b = np.asarray(a), np.asarray(b)
    if a.shape != b.shape or a.dtype != b.dtype:
        return False
    if a.dtype == object:
        return all(x == y or (x != x and y != y) for x, y in zip(a.ravel().tolist(), b.ravel().tolist()))
    try:
        return bool(np.array_equal(a, b, equal_nan=True))
    except TypeError:
        return bool(np.array_equal(a, b))
