#!/usr/bin/env python3
"""High-precision oracle for C02 (scalar stratum).  Runs under `python3-vt` (mpmath), NOT under /venv.

stdin : JSON {"dps": 50, "procs": 8, "jobs": [{"id", "fwd": core-IR | null, "bwd": core-IR | null, "wrt": var,
                                               "points": [{var: repr-of-float64, ...}, ...]}, ...]}
stdout: JSON {"results": {id: [per point {"ok":1, "d": derivative of fwd w.r.t. `wrt` (float64-rounded),
                                           "exp": g*d rounded, "hp_rel": |bwd_hp - g*d| / max(|g*d|, tiny),
                                           "bwd_hp": bwd formula at `dps` digits rounded,
                                           "bound": a-priori bound on the float64 rounding error of the formula,
                                           "fwd": forward value rounded}
                                 | {"ok":0, "err": text}]}}

The derivative is obtained by numerical differentiation (`mpmath.diff`, working precision ≈ 3×dps bits, step 2^-(prec+10))
of the *forward* function only; it shares no code with MyGrad's backward formulas nor with the Lean side.  The a-priori
bound is a first-order running error analysis of the backward formula (unit round-off 2^-53; `ULPS` ulps per
elementary function call), used to decide how closely a correct float64 implementation must match.
"""
import json
import sys

import mpmath as mp

ULPS_ARITH = 1.0
ULPS_FUN = 4.0
U = mp.mpf(2) ** -53


def _cbrt(a):
    return mp.sign(a) * mp.power(abs(a), mp.mpf(1) / 3)


def _real(v):
    if isinstance(v, mp.mpc):
        if v.imag != 0:
            raise ValueError("complex value (outside the real domain)")
        return v.real
    return v


def _arccosh(a):
    if a < 1:
        raise ValueError("arccosh domain")
    return mp.acosh(a)


def _arctanh(a):
    if not (-1 < a < 1):
        raise ValueError("arctanh domain")
    return mp.atanh(a)


def _asin(a):
    if not (-1 <= a <= 1):
        raise ValueError("arcsin domain")
    return mp.asin(a)


def _acos(a):
    if not (-1 <= a <= 1):
        raise ValueError("arccos domain")
    return mp.acos(a)


def _log(a):
    if a <= 0:
        raise ValueError("log domain")
    return mp.log(a)


def _sqrt(a):
    if a < 0:
        raise ValueError("sqrt domain")
    return mp.sqrt(a)


UN = {
    "negative": lambda a: -a,
    "positive": lambda a: +a,
    "exp": mp.exp,
    "exp2": lambda a: mp.power(2, a),
    "expm1": mp.expm1,
    "log": _log,
    "log2": lambda a: _log(a) / mp.log(2),
    "log10": lambda a: _log(a) / mp.log(10),
    "log1p": lambda a: _log(1 + a),
    "sin": mp.sin,
    "cos": mp.cos,
    "tan": mp.tan,
    "arcsin": _asin,
    "arccos": _acos,
    "arctan": mp.atan,
    "sinh": mp.sinh,
    "cosh": mp.cosh,
    "tanh": mp.tanh,
    "arcsinh": mp.asinh,
    "arccosh": _arccosh,
    "arctanh": _arctanh,
    "sqrt": _sqrt,
    "cbrt": _cbrt,
    "absolute": abs,
    "reciprocal": lambda a: 1 / a,
    "square": lambda a: a * a,
    "sinc": mp.sincpi,
}
EXACT_UN = {"negative", "positive", "absolute"}


def _power(a, b):
    if a == 0 and b < 0:
        raise ZeroDivisionError("0 ** negative")
    if a < 0 and b != mp.floor(b):
        raise ValueError("negative base, non-integer exponent")
    return _real(mp.power(a, b))


BIN = {
    "add": lambda a, b: a + b,
    "subtract": lambda a, b: a - b,
    "multiply": lambda a, b: a * b,
    "divide": lambda a, b: a / b,
    "power": _power,
    "maximum": lambda a, b: a if a >= b else b,
    "minimum": lambda a, b: a if a <= b else b,
    "logaddexp": lambda a, b: max(a, b) + mp.log1p(mp.exp(-abs(a - b))),
    "logaddexp2": lambda a, b: max(a, b) + mp.log1p(mp.power(2, -abs(a - b))) / mp.log(2),
    "arctan2": lambda a, b: mp.atan2(a, b),
}
CMPF = {"lt": lambda a, b: a < b, "gt": lambda a, b: a > b, "le": lambda a, b: a <= b, "ge": lambda a, b: a >= b,
        "eq": lambda a, b: a == b, "ne": lambda a, b: a != b}


def sym(name):
    return {"log2": mp.log(2), "log10": mp.log(10), "pi": mp.pi, "halfpi": mp.pi / 2, "nan": mp.nan}[name]


def val(c, env):
    """plain high-precision value of a core-IR term"""
    k = c[0]
    if k == "var":
        return env[c[1]]
    if k == "num":
        return mp.mpf(c[1])
    if k == "sym":
        return +sym(c[1])
    if k == "un":
        return _real(UN[c[1]](val(c[2], env)))
    if k == "bin":
        return _real(BIN[c[1]](val(c[2], env), val(c[3], env)))
    if k == "pown":
        return val(c[1], env) ** int(c[2])
    if k == "ite":
        return val(c[2], env) if cond(c[1], env) else val(c[3], env)
    if k == "b2r":
        return mp.mpf(1 if cond(c[1], env) else 0)
    raise ValueError("not a real term: " + str(k))


def cond(c, env):
    k = c[0]
    if k == "cmp":
        return CMPF[c[1]](val(c[2], env), val(c[3], env))
    if k == "not":
        return not cond(c[1], env)
    if k == "and":
        return cond(c[1], env) and cond(c[2], env)
    if k == "or":
        return cond(c[1], env) or cond(c[2], env)
    if k == "bite":
        return cond(c[2], env) if cond(c[1], env) else cond(c[3], env)
    if k == "nz":
        return val(c[1], env) != 0
    if k == "bool":
        return bool(c[1])
    raise ValueError("not a boolean term: " + str(k))


def _absderiv(f, a):
    try:
        return abs(mp.diff(f, a))
    except Exception:
        h = abs(a) * mp.mpf(2) ** -60 + mp.mpf(2) ** -200
        return abs((f(a + h) - f(a)) / h)


def verr(c, env):
    """(value, bound on the absolute error of a float64 evaluation with exact inputs) — first order"""
    k = c[0]
    if k == "var":
        return env[c[1]], mp.mpf(0)
    if k == "num":
        v = mp.mpf(c[1])
        return v, mp.mpf(0)
    if k == "sym":
        v = +sym(c[1])
        return v, abs(v) * U
    if k == "un":
        a, ea = verr(c[2], env)
        f = UN[c[1]]
        v = _real(f(a))
        if c[1] in EXACT_UN:
            return v, ea
        e = abs(v) * U * (ULPS_ARITH if c[1] in ("reciprocal", "square", "sqrt") else ULPS_FUN)
        if ea:
            e += _absderiv(lambda t: _real(f(t)), a) * ea
        return v, e
    if k == "bin":
        a, ea = verr(c[2], env)
        b, eb = verr(c[3], env)
        f = BIN[c[1]]
        v = _real(f(a, b))
        n = c[1]
        if n in ("add", "subtract"):
            return v, ea + eb + abs(v) * U * ULPS_ARITH
        if n == "multiply":
            return v, abs(a) * eb + abs(b) * ea + abs(v) * U * ULPS_ARITH
        if n == "divide":
            return v, ea / abs(b) + abs(a) * eb / (b * b) + abs(v) * U * ULPS_ARITH
        if n in ("maximum", "minimum"):
            return v, max(ea, eb)
        e = abs(v) * U * ULPS_FUN
        if ea:
            e += _absderiv(lambda t: _real(f(t, b)), a) * ea
        if eb and not (n == "power" and a <= 0):  # non-positive base: the exponent is an exact integer
            e += _absderiv(lambda t: _real(f(a, t)), b) * eb
        return v, e
    if k == "pown":
        a, ea = verr(c[1], env)
        n = int(c[2])
        v = a ** n
        e = abs(v) * U * ULPS_ARITH * max(1, n - 1)
        if ea and n:
            e += abs(n * a ** (n - 1)) * ea
        return v, e
    if k == "ite":
        return verr(c[2], env) if cond(c[1], env) else verr(c[3], env)
    if k == "b2r":
        return mp.mpf(1 if cond(c[1], env) else 0), mp.mpf(0)
    raise ValueError("not a real term: " + str(k))


def fl(v):
    return float(v)


class Unstable(Exception):
    pass


def robust_diff(f, x0, dps):
    """numerical derivative, accepted only when two precisions agree to 25 digits (central differences with step
    2^-(prec+10): rounding error ~ 2^-(prec+30)|f|, truncation error ~ h^2 |f3|; both vanish with the precision, so a
    derivative that is tiny relative to f, or exactly 0, needs more digits)"""
    tiny = mp.mpf(10) ** -320
    prev = None
    for lvl, k in enumerate((dps, 2 * dps, 8 * dps, 16 * dps)):
        with mp.workdps(k):
            d = +mp.diff(f, x0)
        if prev is not None:
            if d != 0 and abs(d - prev) <= mp.mpf(10) ** -25 * abs(d):
                return d
            if lvl >= 3 and abs(d) < tiny and abs(prev) < tiny:  # below anything a float64 can hold: zero
                return mp.mpf(0)
        prev = d
    raise Unstable("numerical derivative does not settle (point too close to a singularity)")


def do_job(job):
    mp.mp.dps = job["dps"]
    out = []
    fwd, bwd, wrt = job.get("fwd"), job.get("bwd"), job["wrt"]
    for p in job["points"]:
        try:
            env = {k: mp.mpf(float(v)) for k, v in p.items()}  # JSON number -> the exact float64
            r = {"ok": 1}
            gd = None
            if fwd is not None:
                x0 = env[wrt]

                def f(t, env=env):
                    e2 = dict(env)
                    e2[wrt] = t
                    return val(fwd, e2)

                r["fwd"] = fl(f(x0))
                d = robust_diff(f, x0, job["dps"])
                gd = env.get("g", mp.mpf(1)) * d
                r["d"] = fl(d)
                r["exp"] = fl(gd)
            if bwd is not None:
                b, e = verr(bwd, env)
                r["bwd_hp"] = fl(b)
                r["bound"] = fl(e)
                if gd is not None:
                    r["hp_rel"] = fl(abs(b - gd) / max(abs(gd), mp.mpf(10) ** -300))
                    r["hp_abs"] = fl(abs(b - gd))
            out.append(r)
        except Exception as ex:  # out of the real domain, overflow, ...
            out.append({"ok": 0, "err": f"{type(ex).__name__}: {ex}"[:200]})
    return job["id"], out


def main():
    req = json.load(sys.stdin)
    jobs = req["jobs"]
    for j in jobs:
        j["dps"] = req.get("dps", 50)
    procs = min(int(req.get("procs", 8)), max(1, len(jobs)))
    if procs > 1:
        import multiprocessing as mpc

        with mpc.get_context("fork").Pool(procs) as pool:
            res = pool.map(do_job, jobs, chunksize=1)
    else:
        res = [do_job(j) for j in jobs]
    json.dump({"results": {k: v for k, v in res}}, sys.stdout)


if __name__ == "__main__":
    main()
