"""Graph programs: a JSON-able statement IR, a type-directed generator, and four executors:

  RealExec  – real MyGrad, in-process (the implementation under test)
  NumpyExec – the same statements on plain ndarrays (reference for C04)
  DualExec  – the same statements on dtype=object arrays of sparse dual numbers over Fraction
              (exact forward-mode derivatives: the direct oracle for C01/C05/C10/C14)
  to_lines  – serialisation to the Lean driver's line protocol (tag `eng`)

Values are small integers held in float64, so IEEE arithmetic is exact and the Lean side computes in Int.
"""
from __future__ import annotations

import gc
from fractions import Fraction
from typing import Any, Dict, List, Optional, Tuple

import numpy as np

import mygrad as mg
from mygrad.errors import InvalidBackprop

BOUND = 2 ** 40

SHAPES = [(), (1,), (2,), (3,), (4,), (2,3), (3,2), (1,3), (2,1), (2,2), (3,1), (2,1,3), (2,3,2), (1,2,1), (0,), (2,0)]

# ------------------------------------------------------------------ index helpers


def ix_to_py(ix):
    out = []
    for it in ix:
        if it == "n":
            out.append(None)
        elif it == "e":
            out.append(Ellipsis)
        elif it[0] == "i":
            out.append(it[1])
        else:
            out.append(slice(it[1], it[2], it[3]))
    return tuple(out)


def ix_to_tok(ix):
    if not ix:
        return "_"
    toks = []
    for it in ix:
        if it == "n" or it == "e":
            toks.append(it)
        elif it[0] == "i":
            toks.append(f"i{it[1]}")
        else:
            f = lambda v: "N" if v is None else str(v)
            toks.append(f"s{f(it[1])}:{f(it[2])}:{f(it[3])}")
    return ";".join(toks)


def key_to_py(key, real=False):
    """`real`: for the implementation, an index array tagged "T:<dtype>" is given as a MyGrad tensor and one tagged "L" as
    a Python list (the NumPy / dual-number twins index with the plain array)"""
    if key[0] == "b":
        return ix_to_py(key[1])
    if key[0] == "a":
        dt = key[2]
        if dt == "L":
            return list(key[1]) if real else np.array(key[1], dtype="int64")
        if dt.startswith("T:"):
            a = np.array(key[1], dtype=dt[2:])
            return mg.tensor(a) if real else a
        return np.array(key[1], dtype=dt)
    if key[0] == "m":
        return np.array(key[1], dtype=bool).reshape(key[2])
    raise ValueError(key)


def shp(s):
    return ",".join(map(str, s)) if len(s) else "-"


def ints(v):
    v = list(v)
    return ",".join(str(int(x)) for x in v) if v else "-"


def operand_tok(o):
    if o[0] == "t":
        return f"t{o[1]}"
    if o[0] == "py":
        return f"l:-:{int(o[1])}"
    return f"l:{shp(o[1])}:{ints(o[2])}"


def vf_tok(vf):
    k = vf[0]
    if k == "gi":
        return "gi:" + ix_to_tok(vf[1])
    if k == "rs":
        return "rs:" + ints(vf[1])
    if k == "tr":
        return "tr:" + ints(vf[1])
    if k == "T":
        return "T"
    if k in ("ex", "sq"):
        return f"{k}:{vf[1]}"
    if k == "bt":
        return "bt:" + shp(vf[1])
    raise ValueError(vf)


def leaf_array(st, dtype=float):
    """the ndarray of a `leaf` statement (values in logical C order; memory layout C or, with st[5]=='F', Fortran)"""
    a = np.array(st[3], dtype=dtype).reshape(st[2])
    return np.asfortranarray(a) if len(st) > 5 and st[5] == "F" else a


def c_tok(c):
    return "N" if c is None else str(int(c))


def where_tok(w):
    return "N" if w is None else shp(w[0]) + ":" + "".join(str(int(b)) for b in w[1])


def key_tok(key):
    if key[0] == "b":
        return "b=" + ix_to_tok(key[1])
    if key[0] == "a":
        return "a=" + ints(key[1])
    return "m=" + "".join(str(int(b)) for b in key[1])


def to_line(st) -> str:
    k = st[0]
    if k == "leaf":
        return f"eng leaf {st[1]} {shp(st[2])} {ints(st[3])} {int(st[4])}" + (" " + st[5] if len(st) > 5 and st[5] in ("F", "RO") else "")
    if k == "bin":
        return f"eng bin {st[1]} {st[2]} {operand_tok(st[3])} {operand_tok(st[4])} {c_tok(st[5])}"
    if k == "un":
        return f"eng un {st[1]} {st[2]} {operand_tok(st[3])} {c_tok(st[4])}"
    if k == "sum":
        return f"eng sum {st[1]} {operand_tok(st[2])} {'N' if st[3] is None else st[3]} {int(st[4])} {c_tok(st[5])}"
    if k == "view":
        return f"eng view {st[1]} {vf_tok(st[2])} {operand_tok(st[3])} {c_tok(st[4])}"
    if k == "take":
        return f"eng take {st[1]} {operand_tok(st[2])} {ints(st[3])} {c_tok(st[5])}"
    if k == "set":
        return f"eng set {st[1]} {key_tok(st[2])} {operand_tok(st[3])}"
    if k == "aug":
        return f"eng aug {st[1]} {st[2]} {operand_tok(st[3])}"
    if k == "outb":
        return f"eng outb {st[1]} {st[2]} {operand_tok(st[3])} {operand_tok(st[4])} {where_tok(st[5])}" + (f" {c_tok(st[6])}" if len(st) > 6 else "")
    if k == "outu":
        return f"eng outu {st[1]} {st[2]} {operand_tok(st[3])} {where_tok(st[4])}" + (f" {c_tok(st[5])}" if len(st) > 5 else "")
    if k == "back":
        return f"eng back {st[1]} " + ("N" if st[2] is None else f"l:{shp(st[2][1])}:{ints(st[2][2])}")
    if k in ("clear", "null", "del"):
        return f"eng {k} {st[1]}"
    raise ValueError(st)


def to_lines(prog, obs_every=True) -> List[str]:
    lines = ["eng reset"]
    for st in prog:
        lines.append(to_line(st))
        if obs_every:
            lines.append("eng obs")
    if not obs_every:
        lines.append("eng obs")
    return lines


# ------------------------------------------------------------------ generic executor


BIN = {"add": np.add, "sub": np.subtract, "mul": np.multiply}
UN = {"neg": np.negative, "pos": np.positive, "square": np.square}
MG_BIN = {"add": mg.add, "sub": mg.subtract, "mul": mg.multiply}
MG_UN = {"neg": mg.negative, "pos": mg.positive, "square": mg.square}


def exc_class(e: BaseException) -> str:
    if isinstance(e, InvalidBackprop):
        return "InvalidBackprop"
    if isinstance(e, RecursionError):
        return "RecursionError"
    return "Err"


MODEL_EXC = {"ValueError": "Err", "IndexError": "Err", "TypeError": "Err", "InvalidBackprop": "InvalidBackprop",
             "AssertionError": "Err", "Other": "Err", "RecursionError": "RecursionError"}


class RealExec:
    """Executes statements on real MyGrad tensors."""

    def __init__(self):
        self.v: Dict[int, mg.Tensor] = {}

    def operand(self, o):
        if o[0] == "t":
            return self.v[o[1]]
        if o[0] == "py":
            return float(o[1])
        return np.array(o[2], dtype=float).reshape(o[1])

    def view(self, vf, x):
        k = vf[0]
        if k == "gi":
            return lambda c: mg_getitem(x, ix_to_py(vf[1]), c)
        if k == "rs":
            return lambda c: mg.reshape(x, tuple(vf[1]), constant=c)
        if k == "tr":
            return lambda c: mg.transpose(x, tuple(vf[1]), constant=c)
        if k == "T":
            return lambda c: x.T if c is None else None
        if k == "ex":
            return lambda c: mg.expand_dims(x, vf[1], constant=c)
        if k == "sq":
            return lambda c: mg.squeeze(x, vf[1], constant=c)
        if k == "bt":
            return lambda c: mg.broadcast_to(x, tuple(vf[1]), constant=c)
        raise ValueError(vf)

    def step(self, st) -> str:
        try:
            self._step(st)
            return "ok"
        except BaseException as e:  # noqa
            if isinstance(e, (KeyboardInterrupt, SystemExit)):
                raise
            return exc_class(e)

    def _step(self, st):
        k = st[0]
        v = self.v
        if k == "leaf":
            if len(st) > 5 and st[5] == "RO":
                # a tensor over natively read-only memory (the caller's array, not copied)
                a = np.array(leaf_array(st))  # an *owning* array (a read-only view of a writeable owner is C08's D1)
                a.flags.writeable = False
                v[st[1]] = mg.tensor(a, constant=bool(st[4]), copy=False)
            else:
                v[st[1]] = mg.tensor(leaf_array(st), constant=bool(st[4]))
        elif k == "bin":
            v[st[1]] = MG_BIN[st[2]](self.operand(st[3]), self.operand(st[4]), constant=st[5])
        elif k == "un":
            v[st[1]] = MG_UN[st[2]](self.operand(st[3]), constant=st[4])
        elif k == "sum":
            v[st[1]] = mg.sum(self.operand(st[2]), axis=st[3], keepdims=bool(st[4]), constant=st[5])
        elif k == "view":
            v[st[1]] = self.view(st[2], self.operand(st[3]))(st[4])
        elif k == "take":
            v[st[1]] = mg_getitem(self.operand(st[2]), np.array(st[3], dtype=st[4]), st[5])
        elif k == "set":
            v[st[1]][key_to_py(st[2], real=True)] = self.operand(st[3])
        elif k == "aug":
            t = v[st[1]]
            o = self.operand(st[3])
            if st[2] == "add":
                t += o
            elif st[2] == "sub":
                t -= o
            else:
                t *= o
            assert t is v[st[1]]
        elif k == "outb":
            kw = {} if st[5] is None else {"where": np.array(st[5][1], dtype=bool).reshape(st[5][0])}
            if len(st) > 6:  # an explicit `constant=` next to `out=` (ignored by an in-place operation)
                kw["constant"] = st[6]
            r = (MG_BIN if len(st) > 6 else BIN)[st[2]](self.operand(st[3]), self.operand(st[4]), out=v[st[1]], **kw)
            assert r is v[st[1]]
        elif k == "outu":
            kw = {} if st[4] is None else {"where": np.array(st[4][1], dtype=bool).reshape(st[4][0])}
            if len(st) > 5:
                kw["constant"] = st[5]
            r = (MG_UN if len(st) > 5 else UN)[st[2]](self.operand(st[3]), out=v[st[1]], **kw)
            assert r is v[st[1]]
        elif k == "back":
            # an *owning* array: MyGrad stores the caller's seed array itself as L.grad (known finding F8)
            seed = None if st[2] is None else np.array(st[2][2], dtype=float).reshape(st[2][1]).copy()
            v[st[1]].backward(seed)
        elif k == "clear":
            v[st[1]].clear_graph()
        elif k == "null":
            v[st[1]].null_grad()
        elif k == "del":
            del v[st[1]]
        else:
            raise ValueError(st)

    # ---- observation (public observables only)
    def name_of(self, t):
        for n, x in self.v.items():
            if x is t:
                return str(n)
        return "anon"

    def observe(self) -> Optional[str]:
        parts = []
        names = sorted(self.v)
        for n in names:
            t = self.v[n]
            d = t.data
            if d.size and (not np.all(np.isfinite(d)) or np.any(np.abs(d) > BOUND) or np.any(d != np.round(d))):
                return None
            g = t.grad
            if g is not None and g.size and (np.any(np.abs(g) > BOUND) or np.any(g != np.round(g))):
                return None
            gs = "N" if g is None else shp(g.shape) + "/" + ints(np.asarray(g).ravel())
            b = t.base
            parts.append(f"v{n}:sh={shp(t.shape)}:c={int(t.constant)}:b={'-' if b is None else self.name_of(b)}"
                         f":cn={int(t.creator is None)}:d={ints(np.asarray(d).ravel())}:g={gs}")
        pairs = []
        for i, n in enumerate(names):
            for m in names[i + 1:]:
                if np.shares_memory(self.v[n].data, self.v[m].data):
                    pairs.append(f"{n}-{m}")
        return " ".join(parts) + " S=" + ",".join(pairs)


def mg_getitem(x, idx, c):
    if c is None:
        return x[idx] if isinstance(x, mg.Tensor) else mg.astensor(x)[idx]
    from mygrad._tensor_core_ops.indexing import GetItem

    return mg.Tensor._op(GetItem, x, op_args=(idx,), constant=c)


def run_real(prog, obs_every=True) -> Tuple[List[str], "RealExec"]:
    """-> observation stream in the driver's format (one line per input line of to_lines)"""
    ex = RealExec()
    out = ["ok"]
    for st in prog:
        out.append(ex.step(st))
        if obs_every:
            o = ex.observe()
            out.append("GUARD" if o is None else o)
    if not obs_every:
        o = ex.observe()
        out.append("GUARD" if o is None else o)
    return out, ex


def canon_model_line(line: str) -> str:
    return MODEL_EXC.get(line, line)


# ------------------------------------------------------------------ NumPy twin (reference memory semantics)


class NumpyExec:
    """The same statements on plain float ndarrays — NumPy *is* the reference for C04."""

    def __init__(self):
        self.v: Dict[int, np.ndarray] = {}

    def operand(self, o):
        if o[0] == "t":
            return self.v[o[1]]
        if o[0] == "py":
            return float(o[1])
        return np.array(o[2], dtype=float).reshape(o[1])

    def step(self, st) -> str:
        try:
            self._step(st)
            return "ok"
        except Exception as e:
            return exc_class(e)

    def _step(self, st):
        k, v = st[0], self.v
        if k == "leaf":
            v[st[1]] = np.copy(leaf_array(st), order="K")
            if len(st) > 5 and st[5] == "RO":
                v[st[1]].flags.writeable = False
        elif k == "bin":
            v[st[1]] = np.asarray(BIN[st[2]](self.operand(st[3]), self.operand(st[4])))
        elif k == "un":
            v[st[1]] = np.asarray(UN[st[2]](self.operand(st[3])))
        elif k == "sum":
            v[st[1]] = np.asarray(np.sum(self.operand(st[2]), axis=st[3], keepdims=bool(st[4])))
        elif k == "view":
            x, vf = np.asarray(self.operand(st[3])), st[2]
            v[st[1]] = {"gi": lambda: x[ix_to_py(vf[1])], "rs": lambda: np.reshape(x, tuple(vf[1])),
                        "tr": lambda: np.transpose(x, tuple(vf[1])), "T": lambda: x.T,
                        "ex": lambda: np.expand_dims(x, vf[1]), "sq": lambda: np.squeeze(x, vf[1]),
                        "bt": lambda: np.broadcast_to(x, tuple(vf[1]))}[vf[0]]()
            v[st[1]] = np.asarray(v[st[1]])
        elif k == "take":
            v[st[1]] = np.asarray(self.operand(st[2]))[np.array(st[3], dtype=st[4])]
        elif k == "set":
            v[st[1]][key_to_py(st[2])] = self.operand(st[3])
        elif k == "aug":
            t, o = v[st[1]], self.operand(st[3])
            if st[2] == "add":
                t += o
            elif st[2] == "sub":
                t -= o
            else:
                t *= o
        elif k == "outb":
            kw = {} if st[5] is None else {"where": np.array(st[5][1], dtype=bool).reshape(st[5][0])}
            BIN[st[2]](self.operand(st[3]), self.operand(st[4]), out=v[st[1]], **kw)
        elif k == "outu":
            kw = {} if st[4] is None else {"where": np.array(st[4][1], dtype=bool).reshape(st[4][0])}
            UN[st[2]](self.operand(st[3]), out=v[st[1]], **kw)
        elif k in ("back", "clear", "null"):
            pass
        elif k == "del":
            del v[st[1]]
        else:
            raise ValueError(st)


# ------------------------------------------------------------------ dual numbers (exact forward mode)


class D:
    """sparse dual number: Fraction value + {label: Fraction partial}; keys are kept even when the
    coefficient is 0 so that structural dependence is visible"""

    __slots__ = ("v", "g")

    def __init__(self, v, g=None):
        self.v = Fraction(v)
        self.g = g if g is not None else {}

    @staticmethod
    def lift(o):
        return o if isinstance(o, D) else D(Fraction(o))

    def __add__(self, o):
        o = D.lift(o)
        g = dict(self.g)
        for k, x in o.g.items():
            g[k] = g.get(k, 0) + x
        return D(self.v + o.v, g)

    __radd__ = __add__

    def __neg__(self):
        return D(-self.v, {k: -x for k, x in self.g.items()})

    def __pos__(self):
        return self

    def __sub__(self, o):
        return self + (-D.lift(o))

    def __rsub__(self, o):
        return D.lift(o) + (-self)

    def __mul__(self, o):
        o = D.lift(o)
        g = {k: x * o.v for k, x in self.g.items()}
        for k, x in o.g.items():
            g[k] = g.get(k, 0) + x * self.v
        return D(self.v * o.v, g)

    __rmul__ = __mul__

    def const(self):
        return D(self.v)

    def __float__(self):
        return float(self.v)

    def __repr__(self):
        return f"D({self.v})"


def _obj(a):
    """ensure ndarray(dtype=object) (0-d results of numpy object ops come back as bare D)"""
    if isinstance(a, np.ndarray) and a.dtype == object:
        return a
    out = np.empty((), dtype=object)
    out[()] = a
    return out


def d_vals(o) -> np.ndarray:
    o = _obj(o)
    return np.array([float(x.v) if isinstance(x, D) else float(x) for x in o.ravel()], dtype=float).reshape(o.shape)


class DualExec:
    """Plain NumPy on object arrays of duals.  Every owner tensor carries a fresh seed per element
    (label = (name, version, flat index)); a mutation re-seeds the whole family's buffer, so `.grad` of a
    mutated tensor is the derivative w.r.t. its current value.  Constant tensors carry no partials."""

    def __init__(self):
        self.v: Dict[int, np.ndarray] = {}
        self.const: Dict[int, bool] = {}
        self.base: Dict[int, Optional[int]] = {}  # owner name of a view (None for owners)
        self.blocked: Dict[int, bool] = {}  # views whose chain of view ops passes through a constant view
        self.ver: Dict[int, int] = {}
        self.viewfn: Dict[int, Any] = {}  # for views: function mapping the owner's array to this view
        self.sd: Dict[int, set] = {}  # owner -> set of (owner', version) it structurally depends on (non-constant paths)

    def sd_full(self, name):
        """structural dependencies of tensor `name`, including its own current version"""
        if self.const.get(name, True) or self.blocked.get(name, False):
            return set()
        o = self.owner(name)
        return set(self.sd.get(o, ())) | {(o, self.ver.get(o, 0))}

    def opdeps(self, *operands):
        d = set()
        for o in operands:
            if o[0] == "t":
                d |= self.sd_full(o[1])
        return d

    def seed(self, name):
        """attach fresh seeds to every element of owner `name` (in place in its buffer)"""
        a = self.v[name]
        self.ver[name] = self.ver.get(name, -1) + 1
        ver = self.ver[name]
        flat = a.reshape(-1) if a.flags.c_contiguous else None
        idxs = list(np.ndindex(a.shape))
        for k, idx in enumerate(idxs):
            cur = D.lift(a[idx])
            a[idx] = D(cur.v, {**cur.g, (name, ver, k): Fraction(1)})

    def operand(self, o):
        if o[0] == "t":
            a = self.v[o[1]]
            if self.const[o[1]] or self.blocked.get(o[1], False):
                # a constant tensor transmits no gradient, even when it is a (forced-constant) view that shares
                # memory with a non-constant tensor — and neither does a view taken *through* such a constant view
                # (its chain of view ops passes a constant tensor): read values only
                c = np.empty(a.shape, dtype=object)
                for idx in np.ndindex(a.shape):
                    c[idx] = D.lift(a[idx]).const()
                # (the *flag rule* goes by the operand's own flag: a view forced non-constant on a constant chain is a
                # non-constant operand although nothing flows through it)
                return c, bool(self.const[o[1]])
            return a, False
        if o[0] == "py":
            return _obj(D(o[1])), True
        a = np.empty(len(o[2]), dtype=object)
        for i, x in enumerate(o[2]):
            a[i] = D(x)
        return a.reshape(o[1]), True

    def new(self, name, arr, const, seed=True, deps=()):
        self.sd[name] = set() if const else set(deps)
        arr = _obj(arr)
        if arr.base is not None or not arr.flags.owndata:
            arr = np.copy(arr, order="K") if arr.flags.f_contiguous and not arr.flags.c_contiguous else arr.copy()
        if const:
            arr = np.copy(arr, order="K")
            for idx in np.ndindex(arr.shape):
                arr[idx] = D.lift(arr[idx]).const()
        self.v[name] = arr
        self.const[name] = const
        self.base[name] = None
        if seed and not const:
            self.seed(name)

    def infer(self, c, consts):
        return all(consts) if c is None else bool(c)

    def owner(self, name):
        b = self.base.get(name)
        return name if b is None else b

    def step(self, st):
        k, v = st[0], self.v
        if k == "leaf":
            a = np.empty(len(st[3]), dtype=object)
            for i, x in enumerate(st[3]):
                a[i] = D(x)
            a = a.reshape(st[2])
            self.new(st[1], np.asfortranarray(a) if len(st) > 5 and st[5] == "F" else a, bool(st[4]))
        elif k == "bin":
            (a, ca), (b, cb) = self.operand(st[3]), self.operand(st[4])
            self.new(st[1], BIN[st[2]](a, b), self.infer(st[5], [ca, cb]), deps=self.opdeps(st[3], st[4]))
        elif k == "un":
            a, ca = self.operand(st[3])
            r = a * a if st[2] == "square" else UN[st[2]](a)
            self.new(st[1], r, self.infer(st[4], [ca]), deps=self.opdeps(st[3]))
        elif k == "sum":
            a, ca = self.operand(st[2])
            if a.size == 0:
                r = np.zeros(np.sum(np.zeros(a.shape), axis=st[3], keepdims=bool(st[4])).shape, dtype=object)
                r = _obj(r)
                for idx in np.ndindex(r.shape):
                    r[idx] = D(0)
            else:
                r = np.sum(a, axis=st[3], keepdims=bool(st[4]))
            self.new(st[1], r, self.infer(st[5], [ca]), deps=self.opdeps(st[2]))
        elif k == "view":
            if st[3][0] == "t":
                a, ca = self.v[st[3][1]], self.const[st[3][1]]  # the raw array: a view must share its memory
            else:
                a, ca = self.operand(st[3])
            vf = st[2]
            fn = {"gi": lambda x: x[ix_to_py(vf[1])], "rs": lambda x: np.reshape(x, tuple(vf[1])),
                  "tr": lambda x: np.transpose(x, tuple(vf[1])), "T": lambda x: x.T,
                  "ex": lambda x: np.expand_dims(x, vf[1]), "sq": lambda x: np.squeeze(x, vf[1]),
                  "bt": lambda x: np.broadcast_to(x, tuple(vf[1]))}[vf[0]]
            r = _obj(fn(a))
            src = st[3][1] if st[3][0] == "t" else None
            is_view = src is not None and isinstance(r, np.ndarray) and r.base is not None and (r.base is a or r.base is a.base)
            c = self.infer(st[4], [ca])
            if is_view:
                v[st[1]] = r
                self.const[st[1]] = c
                self.base[st[1]] = self.owner(src)
                self.blocked[st[1]] = self.blocked.get(src, False) or (self.const[src] and self.base.get(src) is not None)
            else:
                self.new(st[1], r, c, deps=self.opdeps(st[3]))
        elif k == "take":
            a, ca = self.operand(st[2])
            self.new(st[1], a[np.array(st[3], dtype=st[4])], self.infer(st[5], [ca]), deps=self.opdeps(st[2]))
        elif k in ("set", "aug", "outb", "outu"):
            name = st[1]
            t = v[name]
            if k == "set":
                val, _ = self.operand(st[3])
                val = val.copy() if isinstance(val, np.ndarray) else val
                if isinstance(val, np.ndarray) and val.ndim == 0:
                    val = val[()]
                t[key_to_py(st[2])] = val
            elif k == "aug":
                o, _ = self.operand(st[3])
                o = o.copy()
                t[...] = BIN[st[2]](t, o)
            else:
                w = st[5] if k == "outb" else st[4]
                if k == "outb":
                    (a, _), (b, _) = self.operand(st[3]), self.operand(st[4])
                    r = BIN[st[2]](a, b)
                else:
                    a, _ = self.operand(st[3])
                    r = a * a if st[2] == "square" else UN[st[2]](a)
                r = np.broadcast_to(_obj(r), t.shape)
                if w is None:
                    t[...] = r.copy()
                else:
                    m = np.broadcast_to(np.array(w[1], dtype=bool).reshape(w[0]), t.shape)
                    t[m] = r[m]
            own = self.owner(name)
            # the mutated family depends on its previous version and on the operands
            ops_ = [x for x in st[2:] if isinstance(x, list) and len(x) == 2 and x[0] == "t"]
            # (set/aug read the old contents; a plain out= target is overwritten, unless a where-mask keeps part
            #  of it or the target is a view, in which case the rest of the base persists)
            w_ = (st[5] if k == "outb" else st[4]) if k in ("outb", "outu") else None
            keeps_old = k in ("set", "aug") or w_ is not None or own != name
            if not self.const[own]:
                self.sd[own] = (self.sd_full(own) if keeps_old else set()) | self.opdeps(*ops_)
            if self.const[own]:
                # constants carry no partials
                a = v[own]
                for idx in np.ndindex(a.shape):
                    a[idx] = D.lift(a[idx]).const()
            else:
                self.seed(own)
        elif k == "del":
            for d in (self.v, self.const, self.base):
                d.pop(st[1], None)
        elif k in ("null", "clear"):
            pass
        else:
            raise ValueError(st)

    def expected_grads(self, L, seed) -> Dict[int, Optional[np.ndarray]]:
        """after `back L seed`: name -> expected .grad (None = no contribution) for every *owner* tensor"""
        Lo = self.v[L]
        if seed is None:
            w = np.ones(Lo.shape)
        else:
            w = np.broadcast_to(np.array(seed[2], dtype=float).reshape(seed[1]), Lo.shape)
        tot = D(0)
        if not self.blocked.get(L, False):
            for idx in np.ndindex(Lo.shape):
                tot = tot + D.lift(Lo[idx]) * Fraction(int(w[idx]))
        out = {}
        for name, a in self.v.items():
            if self.base.get(name) is not None:
                continue
            if self.const[name]:
                out[name] = None
                continue
            ver = self.ver.get(name)
            keys = [(name, ver, k) for k in range(a.size)]
            if (name, ver) not in self.sd_full(L):
                out[name] = None
            else:
                out[name] = np.array([float(tot.g.get(kk, 0)) for kk in keys]).reshape(a.shape)
        return out


# ------------------------------------------------------------------ generator


def rand_data(rng, shape):
    return [rng.randint(-3, 3) for _ in range(int(np.prod(shape)))]


def rand_ix(rng, shape):
    """a random valid basic index for `shape`"""
    ix = []
    used_e = False
    for n in shape:
        r = rng.random()
        if r < 0.1 and not used_e:
            ix.append("e")
            used_e = True
            break
        if r < 0.2:
            ix.append("n")
        r = rng.random()
        if r < 0.3 and n > 0:
            ix.append(["i", rng.randint(-n, n - 1)])
        elif r < 0.85:
            step = rng.choice([None, 1, 1, 2, -1, -2])
            a = rng.choice([None, None, rng.randint(-n - 1, n + 1)])
            b = rng.choice([None, None, rng.randint(-n - 1, n + 1)])
            ix.append(["s", a, b, step])
        else:
            break
    if rng.random() < 0.1:
        ix.append("n")
    return ix


def result_shape_ix(shape, ix):
    return np.empty(shape)[ix_to_py(ix)].shape


def rand_reshape(rng, shape):
    n = int(np.prod(shape))
    cands = [s for s in SHAPES if int(np.prod(s)) == n] + [(n,)]
    tgt = list(rng.choice(cands))
    if tgt and rng.random() < 0.3:
        i = rng.randrange(len(tgt))
        if n != 0:
            tgt[i] = -1
    return tgt


def bshape_for(rng, shape):
    """a shape broadcastable (with) `shape`"""
    s = list(shape)
    r = rng.random()
    if r < 0.4:
        return tuple(s)
    if r < 0.6:
        return ()
    s = [1 if rng.random() < 0.4 else n for n in s]
    k = rng.randint(0, len(s))
    return tuple(s[k:])


class Gen:
    def __init__(self, rng, n_stmts=8, p_inplace=0.3, p_view=0.25, p_fail=0.03, p_const=0.15, inplace=True,
                 final_back=True, multi_back=False, allow_empty=True, f_order=True, ro_leaves=False, p_del=0.0):
        self.p_del = p_del
        self.f_order = f_order
        self.ro_leaves = ro_leaves
        self.rng = rng
        self.prog = []
        self.shape: Dict[int, Tuple[int, ...]] = {}
        # layout bookkeeping: NumPy's element-wise kernels allocate their result in 'K' order (following the
        # operands' memory layout), which the Lean model does not reproduce (it allocates C order).  The only
        # statement whose outcome depends on that is `reshape` (view or copy), so it is generated only on tensors
        # whose exact strides the model knows: leaves, results computed from C-contiguous operands, views of those.
        self.known: Dict[int, bool] = {}
        self.contig: Dict[int, bool] = {}
        self.next = 0
        self.n_stmts, self.p_inplace, self.p_view, self.p_fail, self.p_const = n_stmts, p_inplace, p_view, p_fail, p_const
        self.inplace, self.final_back, self.multi_back, self.allow_empty = inplace, final_back, multi_back, allow_empty

    def fresh(self):
        n = self.next
        self.next += 1
        return n

    def pick(self, pred=lambda s: True):
        c = [n for n, s in self.shape.items() if pred(s)]
        return self.rng.choice(c) if c else None

    def c(self):
        r = self.rng.random()
        return None if r > self.p_const else self.rng.choice([True, False])

    def operand_like(self, shape, allow_var=True):
        """an operand broadcastable to `shape`"""
        rng = self.rng
        r = rng.random()
        if allow_var and r < 0.55:
            c = [n for n, s in self.shape.items() if _bcastable(s, shape)]
            if c:
                return ["t", rng.choice(c)]
        if r < 0.75:
            return ["py", rng.randint(-3, 3)]
        s = bshape_for(rng, shape)
        return ["l", list(s), rand_data(rng, s)]

    def add_leaf(self):
        rng = self.rng
        shapes = SHAPES if self.allow_empty else [s for s in SHAPES if 0 not in s]
        s = rng.choice(shapes[:13] if rng.random() < 0.93 else shapes)
        n = self.fresh()
        st = ["leaf", n, list(s), rand_data(rng, s), int(rng.random() < self.p_const)]
        # a Fortran-ordered owner (only distinguishable from C order with >= 2 axes of length > 1)
        fort = self.f_order and len([d for d in s if d > 1]) >= 2 and rng.random() < 0.3
        if fort:
            st.append("F")
        elif self.ro_leaves and rng.random() < 0.12:
            st.append("RO")
        self.prog.append(st)
        self.shape[n] = tuple(s)
        self.known[n] = True
        self.contig[n] = not fort

    def add_stmt(self):
        rng = self.rng
        r = rng.random()
        if r < self.p_fail:
            return self.add_fail()
        if self.inplace and r < self.p_fail + self.p_inplace:
            return self.add_inplace()
        if r < self.p_fail + self.p_inplace + self.p_view:
            return self.add_view()
        k = rng.choice(["bin", "bin", "bin", "un", "sum", "take"])
        a = self.pick()
        sa = self.shape[a]
        n = self.fresh()
        if k == "bin":
            op = rng.choice(["add", "sub", "mul", "mul"])
            if rng.random() < 0.15:
                b = ["t", a]  # repeated operand
            else:
                # any broadcast-compatible partner (either may be the bigger one)
                c = [m for m, s in self.shape.items() if _bshape(s, sa) is not None]
                b = ["t", rng.choice(c)] if c and rng.random() < 0.6 else self.operand_like(sa, allow_var=False)
            ops = [["t", a], b]
            if rng.random() < 0.5:
                ops.reverse()
            self.prog.append(["bin", n, op, ops[0], ops[1], self.c()])
            sb = self.shape[b[1]] if b[0] == "t" else (() if b[0] == "py" else tuple(b[1]))
            self.shape[n] = _bshape(sa, sb)
        elif k == "un":
            self.prog.append(["un", n, rng.choice(["neg", "pos", "square"]), ["t", a], self.c()])
            self.shape[n] = sa
        elif k == "sum":
            if sa and rng.random() < 0.7:
                ax = rng.randint(-len(sa), len(sa) - 1)
            else:
                ax = None
            kd = rng.random() < 0.3
            self.prog.append(["sum", n, ["t", a], ax, int(kd), self.c()])
            self.shape[n] = np.sum(np.empty(sa), axis=ax, keepdims=kd).shape
        elif k == "take":
            a = self.pick(lambda s: len(s) >= 1 and s[0] > 0)
            if a is None:
                self.next -= 1
                return
            sa = self.shape[a]
            idx = [rng.randint(-sa[0], sa[0] - 1) for _ in range(rng.randint(1, 4))]
            self.prog.append(["take", n, ["t", a], idx, rng.choice(["int64", "int32", "int8", "uint8"]) if all(i >= 0 for i in idx) else rng.choice(["int64", "int32", "int16"]), None])
            self.shape[n] = (len(idx),) + sa[1:]
        st = self.prog[-1]
        ok = all(self.contig.get(x[1], False) for x in st[1:] if isinstance(x, list) and len(x) == 2 and x[0] == "t")
        self.known[n] = self.contig[n] = ok

    def add_view(self):
        rng = self.rng
        a = self.pick()
        sa = self.shape[a]
        n = self.fresh()
        kinds = ["gi", "gi", "gi", "T", "ex"] + (["rs", "rs"] if self.known[a] else [])
        if len(sa) >= 2:
            kinds += ["tr", "tr"]
        if 1 in sa:
            kinds.append("sq")
        kinds.append("bt")
        k = rng.choice(kinds)
        if k == "gi":
            ix = rand_ix(rng, sa)
            vf = ["gi", ix]
            s = result_shape_ix(sa, ix)
        elif k == "rs":
            tgt = rand_reshape(rng, sa)
            vf = ["rs", tgt]
            s = np.empty(sa).reshape(tgt).shape
        elif k == "tr":
            p = list(range(len(sa)))
            rng.shuffle(p)
            vf = ["tr", p]
            s = tuple(sa[i] for i in p)
        elif k == "T":
            vf, s = ["T"], tuple(reversed(sa))
        elif k == "ex":
            ax = rng.randint(0, len(sa))
            vf, s = ["ex", ax], sa[:ax] + (1,) + sa[ax:]
        elif k == "sq":
            ax = rng.choice([i for i, d in enumerate(sa) if d == 1])
            vf, s = ["sq", ax], sa[:ax] + sa[ax + 1:]
        else:
            tgt = tuple(rng.choice([2, 3]) if d == 1 else d for d in sa)
            if rng.random() < 0.5:
                tgt = (2,) + tgt
            vf, s = ["bt", list(tgt)], tgt
        cc = None if rng.random() < 0.95 else rng.choice([True, False])
        if k in ("T", "gi"):
            cc = None  # indexing and .T have no public `constant=` spelling
        self.prog.append(["view", n, vf, ["t", a], cc])
        self.shape[n] = tuple(s)
        self.known[n] = self.known[a]
        self.contig[n] = self.contig[a] and k in ("rs", "ex", "sq")

    def add_inplace(self):
        rng = self.rng
        t = self.pick()
        st = self.shape[t]
        # (the mutated copy of the base is allocated in NumPy's 'K' order — modelled by Heap.copyArrK)
        k = rng.choice(["set", "set", "set", "aug", "aug", "outb", "outu"])
        if k == "set":
            r = rng.random()
            if r < 0.55 or not st:
                ix = rand_ix(rng, st)
                key = ["b", ix]
                sel = result_shape_ix(st, ix)
            elif r < 0.8 and st[0] > 0:
                idx = [rng.randint(-st[0], st[0] - 1) for _ in range(rng.randint(1, 4))]
                if rng.random() < 0.5 and len(idx) > 1:
                    idx[-1] = idx[0]  # force a repeat
                dt = rng.choice(["int64", "int32", "int16"]) if any(i < 0 for i in idx) else rng.choice(["int64", "int32", "int8", "uint8"])
                if rng.random() < 0.3:
                    dt = rng.choice(["T:int64", "T:int32", "L"])  # the index array as a MyGrad tensor / a Python list
                key = ["a", idx, dt]
                sel = (len(idx),) + st[1:]
            else:
                n = int(np.prod(st))
                bits = [int(rng.random() < 0.5) for _ in range(n)]
                key = ["m", bits, list(st)]
                sel = (sum(bits),)
            val = self.operand_like(sel)
            if val[0] == "t" and val[1] == t and rng.random() < 0.7:
                val = ["py", rng.randint(-3, 3)]
            self.prog.append(["set", t, key, val])
        elif k == "aug":
            self.prog.append(["aug", t, rng.choice(["add", "sub", "mul"]), self.operand_like(st)])
        elif k == "outb":
            w = None
            if rng.random() < 0.5:
                ws = bshape_for(rng, st)
                w = [list(ws), [int(rng.random() < 0.5) for _ in range(int(np.prod(ws)))]]
            self.prog.append(["outb", t, rng.choice(["add", "sub", "mul"]), self.operand_like(st), self.operand_like(st), w])
            if rng.random() < 0.3:
                self.prog[-1].append(rng.choice([True, False]))
        else:
            w = None
            if rng.random() < 0.4:
                ws = bshape_for(rng, st)
                w = [list(ws), [int(rng.random() < 0.5) for _ in range(int(np.prod(ws)))]]
            self.prog.append(["outu", t, rng.choice(["neg", "square", "pos"]), self.operand_like(st), w])
            if rng.random() < 0.3:
                self.prog[-1].append(rng.choice([True, False]))

    def add_fail(self):
        """a statement built to raise"""
        rng = self.rng
        t = self.pick()
        st = self.shape[t]
        k = rng.choice(["bin", "view", "set_shape", "set_idx", "aug", "reshape", "out"])
        n = self.fresh()
        if k == "bin":
            self.prog.append(["bin", n, "mul", ["t", t], ["l", [7, 5], [1] * 35], None])
        elif k == "view":
            self.prog.append(["view", n, ["gi", [["i", 9]] * (len(st) + 1)], ["t", t], None])
        elif k == "reshape":
            self.prog.append(["view", n, ["rs", [7, 7]], ["t", t], None])
        elif k == "set_shape":
            self.prog.append(["set", t, ["b", ["e"]], ["l", [7, 5], [1] * 35]])
        elif k == "set_idx":
            self.prog.append(["set", t, ["b", [["i", 9]] * (len(st) + 1)], ["py", 1]])
        elif k == "aug":
            self.prog.append(["aug", t, "add", ["l", [5, 4, 3, 2], [1] * 120]])
        else:
            self.prog.append(["outb", t, "add", ["t", t], ["l", [7, 5], [1] * 35], None])
        # (the name is not re-used: on a 0-d target some of these statements broadcast and succeed after all)

    def add_back(self, final=False):
        rng = self.rng
        names = sorted(self.shape)
        L = names[-1] if (final and rng.random() < 0.7) else rng.choice(names)
        s = self.shape[L]
        seed = None
        r = rng.random()
        if r < 0.35:
            ss = s if rng.random() < 0.6 else bshape_for(rng, s)
            seed = ["l", list(ss), [rng.randint(-2, 3) for _ in range(int(np.prod(ss)))]]
        self.prog.append(["back", L, seed])

    def build(self):
        rng = self.rng
        for _ in range(rng.choice([1, 2, 2, 3])):
            self.add_leaf()
        for _ in range(self.n_stmts):
            if self.multi_back and rng.random() < 0.12:
                k = rng.choice(["back", "back", "clear", "null", "del"])
                if k == "back":
                    self.add_back()
                elif k == "del":
                    if len(self.shape) > 1:
                        n = self.pick()
                        self.prog.append(["del", n])
                        del self.shape[n]
                else:
                    self.prog.append([k, self.pick()])
            elif self.p_del and rng.random() < self.p_del and len(self.shape) > 1:
                n = self.pick()  # the caller drops a handle (e.g. the middle view of a view of a view)
                self.prog.append(["del", n])
                del self.shape[n]
            else:
                self.add_stmt()
        if self.final_back:
            self.add_back(final=True)
        return self.prog


def _bshape(a, b):
    try:
        return np.broadcast_shapes(tuple(a), tuple(b))
    except ValueError:
        return None


def _bcastable(src, dst):
    r = _bshape(src, dst)
    return r is not None and tuple(r) == tuple(dst)


def gen_program(rng, **kw):
    return Gen(rng, **kw).build()


def features(prog) -> Dict[str, int]:
    f: Dict[str, int] = {}
    for st in prog:
        k = st[0]
        if k == "view":
            k = "view:" + st[2][0]
        if k == "set":
            k = "set:" + st[2][0]
        f[k] = f.get(k, 0) + 1
    return f
