"""C01 — backward() yields the exact total derivative of the recorded computation."""
from __future__ import annotations

import copy

import numpy as np

import mygrad as mg

from .. import engcheck, progs
from ..core import Ctx, Outcome, Violation

ID = "C01"
LEVEL = "proof"
EXTRA_TARGETS = ["MG.DriverEng"]
THEOREMS = {
    "MG.Proofs.C01": [
        "MG.C01.collect_consumers_first",
        "MG.C01.backward_sound",
        "MG.C01.backward_order_independent",
        "MG.C01.dag_programs_acyclic",
        "MG.C01.backward_sound_for_programs",
        "MG.Eng.acyclic_opStep",
        "MG.Adj.run_isAdj",
        "MG.Adj.isAdj_unique_rank",
        "MG.Adj.isAdj_perm",
        "MG.Eng.backLoop_run",
        "MG.Eng.collect_post",
    ],
    "MG.Proofs.Lemmas.Transpose": ["MG.Adj.reverse_eq_transpose_forward"],
    "MG.Proofs.Lemmas.Analytic": [
        "MG.Analytic.backward_is_total_derivative",
        "MG.Analytic.tangent_is_derivative",
        "MG.Analytic.tanOf_isTan",
    ],
}

GEN = dict(inplace=False, p_fail=0.0, p_view=0.25, p_const=0.2, n_stmts=9)


def commuted(prog):
    """twin program: operands of every commutative binary op swapped"""
    q = copy.deepcopy(prog)
    for st in q:
        if st[0] == "bin" and st[2] in ("add", "mul"):
            st[3], st[4] = st[4], st[3]
    return q


def final_grads(prog):
    ex = progs.RealExec()
    for st in prog:
        ex.step(st)
    return {n: (None if t.grad is None else np.array(t.grad)) for n, t in ex.v.items()}


def oracle(prog, idx):
    fails = engcheck.dual_oracle(prog)
    if not fails and prog and prog[-1][0] == "back":
        # ... and the views: every non-constant view that L's owners feed reports the corresponding view of its base's
        # (exactly checked) gradient — value and availability (C06's predicate on this program)
        from .c06 import check_views

        ex, res = engcheck.run_all(prog)
        if res[-1] == "ok":
            fails += [(c, m) for c, m in check_views(ex.v) if c in ("view-grad-none", "view-grad-value")]
    # order-independence: commuted operands give bit-identical gradients
    a, b = final_grads(prog), final_grads(commuted(prog))
    for n in a:
        ga, gb = a[n], b.get(n)
        if (ga is None) != (gb is None) or (ga is not None and not np.array_equal(ga, gb)):
            fails.append(("order-dependent", f"t{n}.grad changes when commutative operands are swapped"))
            break
    return fails


# ------------------------------------------------------------------ sums over paths through every op / layer family


def _builders():
    from . import c05, c14

    bs = [("layer:" + n, (lambda rng, f=f: f(rng, np.float64))) for n, f in c14.layer_cases()]
    bs += [("op:" + n, f) for n, f in c05.op_cases()]
    return bs


def paths_case(args):
    """`x.grad` is the sum over *every* path from x to L, whatever order the independent terms of L were written in —
    also where an operation stores gradients itself instead of going through the engine (layers with their own
    backward): L = <op/layer term> + sum_i <penalty on input i>, in both orders, and with the op's output used twice;
    expected: the gradients of the terms back-propagated separately, added."""
    seed, bi = args
    name, build = _builders()[bi]
    fails = []
    prec = []

    def run(order):
        rng = np.random.default_rng([seed, bi])
        ins, out = build(rng)
        wr = np.random.default_rng([seed, bi, 1])
        c = wr.uniform(-1.0, 1.0, size=out.shape)
        ds = [wr.uniform(-1.0, 1.0, size=t.shape) for t in ins]
        term_a = lambda: (out * c).sum()
        term_b = lambda: sum((t * t * d).sum() for t, d in zip(ins, ds) if not t.constant and t.dtype.kind == "f")
        if order == "a":
            L = term_a()
        elif order == "b":
            L = term_b()
        elif order == "ab":
            L = term_a() + term_b()
        elif order == "ba":
            L = term_b() + term_a()
        else:  # "aa": the op's output reaches L twice
            L = term_a() + term_a()
        if not isinstance(L, mg.Tensor) or L.constant:
            return None
        L.backward()
        prec.extend(t.dtype for t in ins)
        return [None if t.grad is None else np.array(t.grad, dtype=np.float64) for t in ins]

    try:
        ga, gb = run("a"), run("b")
        if ga is None:
            return {"name": name, "fails": [], "args": list(args), "skipped": True}
        res = {k: run(k) for k in ("ab", "ba", "aa")}
    except Exception as e:  # noqa: BLE001
        return {"name": name, "fails": [("raised", f"{type(e).__name__}: {str(e)[:100]}")], "args": list(args)}

    def add(x, y):
        if x is None:
            return y
        if y is None:
            return x
        return x + y

    exp = {"ab": [add(x, y) for x, y in zip(ga, gb or [None] * len(ga))], "aa": [None if x is None else 2 * x for x in ga]}
    exp["ba"] = exp["ab"]
    for k in ("ab", "ba", "aa"):
        for j, (g, e) in enumerate(zip(res[k], exp[k])):
            lowp = prec[j] != np.float64  # (a case that fixes its own, lower, precision: sums are rounded per term)
            if (g is None) != (e is None) or (g is not None and not np.allclose(g, e, rtol=1e-2 if lowp else 1e-9,
                                                                                 atol=1e-2 if lowp else 1e-11, equal_nan=True)):
                what = {"ab": "L = op-term + penalties", "ba": "L = penalties + op-term", "aa": "L = op-term + op-term"}[k]
                fails.append(("paths-not-summed", f"{what}: gradient of input {j} is {None if g is None else np.round(g, 6).tolist()}, "
                              f"the separately back-propagated terms add up to {None if e is None else np.round(e, 6).tolist()}"))
                break
        if fails:
            break
    return {"name": name, "fails": fails, "args": list(args)}


def order_layout_cases(only=None):
    """L = A + B and L = B + A, where A uses a leaf directly (times a C-ordered constant) and B uses it through a view chain:
    every tensor involved — leaf and views — gets the exact gradient in both orders, for C- and Fortran-ordered leaves
    (the memory layout of whichever contribution arrives first must not matter).  -> [(name, message)]"""
    out = []
    chains = [
        ("T.reshape(-1)", lambda x: [x.T, x.T.reshape(-1)], lambda g: [g.T, g.T.reshape(-1)]),
        ("reshape(-1)", lambda x: [x.reshape(-1)], lambda g: [g.reshape(-1)]),
        ("[1:].T", lambda x: [x[1:], x[1:].T], lambda g: [g[1:], g[1:].T]),
        ("T[::2]", lambda x: [x.T, x.T[::2]], lambda g: [g.T, g.T[::2]]),
    ]
    for lay in ("C", "F"):
        for cname, chain, gchain in chains:
            if cname == "T.reshape(-1)" and lay == "C" or cname == "reshape(-1)" and lay == "F":
                continue  # (that reshape copies on this layout: not a view chain)
            grads = {}
            for order in ("A+B", "B+A"):
                name = f"{lay}-leaf|{cname}|{order}"
                a = np.arange(12.0).reshape(3, 4) + 1.0
                x = mg.tensor(np.asfortranarray(a) if lay == "F" else a)
                c = np.arange(12.0).reshape(3, 4) * 0.5 + 1.0
                vs = []
                t = x
                views = chain(x)
                # rebuild the chain as one tensor per link (each link a view of the previous one)
                vs = views
                w = np.arange(float(vs[-1].size)).reshape(vs[-1].shape) + 2.0
                A = (x * c).sum()
                B = (vs[-1] * w).sum()
                L = A + B if order == "A+B" else B + A
                try:
                    L.backward()
                except Exception as e:  # noqa: BLE001
                    out.append((name, f"raised {type(e).__name__}: {str(e)[:80]}"))
                    continue
                # exact expectation: dL/dx = c + scatter of w through the chain
                gx = np.array(c, order="F" if lay == "F" else "C")  # laid out like the leaf: the chain is a view chain of it
                gv = gchain(gx)  # views of gx
                gv[-1][...] += w
                exp = [gx] + [np.array(g) for g in gchain(gx)]
                got = [x.grad] + [v.grad for v in vs]
                for k, (g, e) in enumerate(zip(got, exp)):
                    if g is None or g.shape != e.shape or not np.array_equal(g, e):
                        which = "the leaf" if k == 0 else f"link {k} of the chain"
                        if only is None or name == only:
                            out.append((name, f"{which}: gradient {None if g is None else np.asarray(g).tolist()}, exact {e.tolist()}"))
                        break
    return out


def nontrivial(prog):
    f = progs.features(prog)
    # at least two ops, and a tensor used at least twice (fan-out / repeated operand)
    uses = {}
    for st in prog:
        for x in st[1:]:
            if isinstance(x, list) and len(x) == 2 and x[0] == "t":
                uses[x[1]] = uses.get(x[1], 0) + 1
    return sum(v for k, v in f.items() if k in ("bin", "un", "sum", "take") or k.startswith("view")) >= 3 and max(uses.values(), default=0) >= 2


def _fails_pred(cls):
    def pred(p):
        if p[-1][0] != "back":
            return False
        return any(c == cls for c, _ in oracle(p, 0))
    return pred


def run(ctx: Ctx) -> Outcome:
    n = ctx.n(1500, 8000)
    out, results = engcheck.run_programs(ctx, n, dict(GEN, n_stmts=ctx.n(9, 16)), "oracle", nontrivial)
    out.rule = ("random DAG programs over add/sub/mul/neg/pos/square/sum/getitem/take/reshape/transposes/expand/squeeze/"
                "broadcast_to with constant and non-constant leaves, ndarray and Python-scalar operands, broadcasting, "
                "repeated operands, one final backward (seed None/array/broadcastable array); non-trivial = >=3 ops and a "
                "tensor with fan-out >=2; distinct by program hash.  Plus, for every op / layer family of the C05 and C14 case lists "
                "(~40, incl. layers that store gradients themselves): L = op-term + penalties on its inputs, in both orders, and "
                "op-term + op-term, against the separately back-propagated terms added")
    seen = engcheck.report(out, results, "C01", oracle)
    from ..core import pmap, stable_hash

    nb = len(_builders())
    pres = pmap(paths_case, [(ctx.seed + r, bi) for bi in range(nb) for r in range(ctx.n(1, 3))])
    hist = {}
    for r in pres:
        out.evaluations += 1
        hist[r["name"]] = hist.get(r["name"], 0) + 1
        if not r.get("skipped"):
            out.nontrivial.add(stable_hash(["paths", r["args"]]))
        for cls, msg in r["fails"]:
            sig = f"C01|{cls}|{r['name']}"
            if sig not in seen:
                seen.add(sig)
                out.violations.append(Violation(sig, f"{r['name']}: {msg}", {"kind": "paths", "args": r["args"]}))
    out.stats["paths_cases"] = hist
    for name, msg in order_layout_cases():
        sig = f"C01|order-layout|{name.rsplit('|', 1)[0]}"
        if sig not in seen:
            seen.add(sig)
            out.violations.append(Violation(sig, f"{name}: {msg}", {"kind": "order-layout", "name": name}))
    out.evaluations += 12
    out.assumptions = ["exact-integer fragment (float64 holding small integers); float rounding order is not claimed",
                       "each op's VJP being the transpose of its derivative is C02"]
    return out


def replay(data) -> bool:
    if data["replay"].get("kind") == "order-layout":
        res = order_layout_cases(only=data["replay"]["name"])
        print(res)
        return bool(res)
    if data["replay"].get("kind") == "paths":
        res = paths_case(tuple(data["replay"]["args"]))
        print(res)
        return bool(res["fails"])
    p = data["replay"]["program"]
    for st in p:
        print(progs.to_line(st))
    f = oracle(p, 0)
    print("oracle:", f)
    return bool(f)


MANIFEST = {
    "category": "proof",
    "design_ref": "DESIGN.md §5 C01",
    "technique": "Lean 4: DFS-order lemma by induction on fuel, reverse-accumulation invariant by induction over the order, "
                 "refinement of the executable Int-array engine model to the abstract edge-list engine, uniqueness of the adjoint "
                 "solution on acyclic graphs; model/implementation correspondence on random graph programs; exact dual-number oracle",
    "text": "backward_sound: for every acyclic heap of the engine model, every terminal tensor and seed, the gradients the "
            "back-propagation loop leaves are THE unique solution of the adjoint equations of the recorded graph (seed at L plus, "
            "per consumer edge, that edge's VJP of the consumer's gradient) — all graph shapes, depths, fan-out, repeated operands, "
            "diamonds, broadcasting; backward_order_independent: any consumers-first order and any permutation of recorded edges "
            "give the same result; collect_consumers_first: the DFS with appendleft yields such an order; backward_is_total_derivative: "
            "for a differentiable straight-line program that unique solution is the total derivative. The model is executable "
            "and is run against MyGrad on every check (data, grads, flags, bases, memory sharing after every statement, exact "
            "integers); an independent exact forward-mode (Fraction dual numbers through plain NumPy) oracle checks every gradient.",
    "note": "Trusted: Lean kernel, axioms {propext, Classical.choice, Quot.sound}; the correspondence harness; acyclicity of the "
            "recorded graph is a hypothesis of the theorems (the model reports a cycle as RecursionError, as CPython does). "
            "reverse_eq_transpose_forward proves, for any graph and any pairing under which each edge's vjp is the transpose of its jvp (C02's per-op statements), that the adjoint solution is the transpose of forward tangent propagation; "
            "backward_is_total_derivative (Mathlib, HasFDerivAt/HasDerivAt) closes the analytic link for straight-line programs over ℝ with scalar nodes (one node per array element; repeated operands, fan-out and re-convergent paths): if every primitive is Fréchet-differentiable where it is applied and the edge maps are multiplication by its partial derivatives, the solution of the adjoint equations paired with the input velocities IS the derivative of the seeded terminal sum along any differentiable curve of inputs. "
            "What joins the two levels — that the Int-valued VJP arrays of the engine model's ops are those partial derivatives — is C02's subject and is checked there op by op, not inside this theorem.",
}

MANIFEST_ADDENDUM = "Also proved (Mathlib): backward_is_total_derivative — for a straight-line program over the reals with Fréchet-differentiable primitives the unique adjoint solution paired with the input velocities is the derivative of the seeded terminal sum. Oracle additions: every view's gradient against its base's exactly checked gradient; for each of ~45 op/layer families (incl. layers that store gradients themselves) L = op-term + penalties on its inputs in both orders and op-term + op-term against the separately back-propagated terms; A+B / B+A over C- and Fortran-ordered leaves with layout-dependent view chains."
