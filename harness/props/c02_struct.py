"""C02, structured stratum — the backward pass of every non-element-wise operation is the exact VJP of its forward pass.

Universal Lean theorems (MG/Proofs/C02Struct.lean: gather/scatter adjointness for every index map, transpose of every
matrix, uniqueness of the adjoint, reduce_broadcast, where-masks, set-item, cumsum, inverse permutations;
MG/Proofs/C02StructReal.lean: prod / cumprod / variance / std / softmax / logsoftmax / norm / multiply_sequence over the
reals) + per-configuration translation validation against the *real* op objects:

  gather ops   : the index map phi is recovered from the real forward pass on arange-labelled operands, validated on the
                 real data, and the real backward must equal scatterAdd(phi, n, g) exactly (NumPy oracle + Lean driver);
  linear ops   : the integer matrix A is recovered from the real forward pass on unit perturbations, linearity validated,
                 real backward must equal A^T g exactly (NumPy oracle + Lean driver);
  multilinear  : exact Jacobian by unit forward differences of the real forward (prod, cumprod, multiply_sequence, matmul,
                 einsum, conv: affine in every single element), compared exactly on integer data;
  rational     : exact Fraction Jacobian of an independent forward (var, std, mean);
  selection    : independent first-arg-max selection semantics (max, min, max_pool, clip);
  numeric      : Richardson-extrapolated central differences of the real forward, 2e-6 relative gate, away from kinks.

The module is merged with the sibling `c02_scalar` by `harness/props/c02.py`.
"""
from __future__ import annotations

import inspect
import json
import random
import warnings
from fractions import Fraction

import numpy as np

import mygrad as mg
import mygrad.linalg  # noqa: F401
import mygrad.nnet as nn
import mygrad._utils.duplicating_graph as _dg
from mygrad.operation_base import Operation, Ufunc

from ..core import CorrBreak, Ctx, Outcome, Violation, pmap, stable_hash, fmt_exc
from ..leanbuild import run_driver

ID = "C02"
LEVEL = "proof"

THEOREMS = {
    "MG.Proofs.C02Struct": [
        "MG.C02.gather_scatter_adjoint",
        "MG.C02.linear_vjp_is_transpose",
        "MG.C02.adjoint_unique",
        "MG.C02.vjp_unique",
        "MG.C02.transpose_inverse",
        "MG.C02.permutation_vjp_is_inverse",
        "MG.C02.where_mask_vjp",
        "MG.C02.reduce_broadcast_adjoint",
        "MG.C02.reduce_broadcast_eq_scatter",
        "MG.C02.reduce_broadcast_rank_error",
        "MG.C02.setitem_vjp",
        "MG.C02.setitem_vjp_neg",
        "MG.C02.setitem_vjp_partial",
        "MG.C02.cumsum_adjoint",
        "MG.C02.rcumsum_is_suffix_sum",
    ],
    "MG.Proofs.C02StructReal": [
        "MG.C02.prod_vjp",
        "MG.C02.prodBwd_nonzero",
        "MG.C02.prodBwd_one_zero",
        "MG.C02.prodBwd_many_zeros",
        "MG.C02.prod_vjp_grad",
        "MG.C02.softmax_jacobian",
        "MG.C02.softmax_vjp",
        "MG.C02.logsoftmax_jacobian",
        "MG.C02.logsoftmax_vjp",
        "MG.C02.variance_vjp",
        "MG.C02.variance_vjp_grad",
        "MG.C02.std_vjp",
        "MG.C02.std_vjp_grad",
        "MG.C02.multiply_sequence_vjp",
        "MG.C02.multiply_sequence_vjp_div",
        "MG.C02.cumprod_vjp",
        "MG.C02.cumprod_bwd_nonzero",
        "MG.C02.cumprod_bwd_first_zero",
        "MG.C02.cumprod_bwd_after_zero",
        "MG.C02.cumprod_bwd_zero",
        "MG.C02.cumprod_bwd_total",
        "MG.C02.norm2_vjp",
        "MG.C02.norm1_vjp",
        "MG.C02.normp_vjp",
    ],
}

# ------------------------------------------------------------------------------------------------ registry

# element-wise Operation subclasses that are not Ufunc subclasses: the sibling stratum (c02_scalar) owns them
ELEMENTWISE_OPERATIONS = {
    "Csc", "Sec", "Cot", "Arccsc", "Arcsec", "Arccot", "Sinc", "Csch", "Sech", "Coth", "Arccsch", "Arccoth",
    "ELU", "ReLu", "SELU", "Sigmoid",
}
BASE_CLASSES = {"_AtLeastKD"}


def discover_ops():
    """every concrete Operation subclass -> 'elementwise' | 'struct'"""
    seen = {}

    def walk(c):
        for s in c.__subclasses__():
            if s not in seen:
                seen[s] = None
                walk(s)

    walk(Operation)
    out = {}
    for c in seen:
        if inspect.isabstract(c) or c.__name__ in BASE_CLASSES:
            continue
        if not c.__module__.startswith("mygrad"):
            continue
        if (issubclass(c, Ufunc) and c.__name__ != "MatMul") or c.__name__ in ELEMENTWISE_OPERATIONS:
            out[c.__name__] = "elementwise"
        else:
            out[c.__name__] = "struct"
    return out


# ------------------------------------------------------------------------------------------------ small helpers

F64 = np.float64


def jsonable(o):
    if isinstance(o, np.ndarray):
        return o.tolist()
    if isinstance(o, (np.integer,)):
        return int(o)
    if isinstance(o, (np.floating,)):
        return float(o)
    if isinstance(o, tuple):
        return [jsonable(i) for i in o]
    if isinstance(o, list):
        return [jsonable(i) for i in o]
    if isinstance(o, dict):
        return {k: jsonable(v) for k, v in o.items()}
    return o


def prod_(shape):
    n = 1
    for s in shape:
        n *= s
    return n


def rshape(rng, small, min_nd=0, max_nd=4, allow0=True, cap=40, min_dim=0):
    for _ in range(100):
        if small:
            nd = rng.choice([n for n in (0, 1, 1, 2, 2, 3) if min_nd <= n <= max_nd])
            dims = [rng.choice([d for d in ((0, 1, 2, 2) if allow0 else (1, 2, 2)) if d >= min_dim]) for _ in range(nd)]
        else:
            nd = rng.choice([n for n in (0, 1, 1, 2, 2, 2, 3, 3, 3, 4) if min_nd <= n <= max_nd])
            dims = [rng.choice([d for d in ((0, 1, 2, 2, 3, 3, 4) if allow0 else (1, 2, 2, 3, 3, 4)) if d >= min_dim])
                    for _ in range(nd)]
        if prod_(dims) <= cap:
            return dims
    return [2] * min_nd


def ivals(rng, n, lo=-4, hi=4, nozero=False):
    out = []
    for _ in range(n):
        v = rng.randint(lo, hi)
        while nozero and v == 0:
            v = rng.randint(lo, hi)
        out.append(v)
    return out


def fvals(rng, n, lo=-2.0, hi=2.0, away=0.0):
    out = []
    for _ in range(n):
        v = round(rng.uniform(lo, hi), 3)
        while abs(v) < away:
            v = round(rng.uniform(lo, hi), 3)
        out.append(v)
    return out


LAYOUTS = ("C", "C", "C", "F", "step", "rev")


def opd(rng, shape, vals=None, small=False, layout=None, dtype="float64", kind="int", **kw):
    """operand spec: shape, flat values, memory layout, dtype"""
    n = prod_(shape)
    if vals is None:
        vals = ivals(rng, n, **kw) if kind == "int" else fvals(rng, n, **kw)
    if layout is None:
        layout = "C" if (small and rng.random() < 0.7) else rng.choice(LAYOUTS)
    if len(shape) == 0 or n == 0:
        layout = "C"
    if layout == "F" and len(shape) < 2:
        layout = "C"
    return {"shape": list(shape), "vals": list(vals), "layout": layout, "dtype": dtype}


def make_array(spec):
    dt = np.dtype(spec["dtype"])
    base = np.array(spec["vals"], dtype=dt).reshape(spec["shape"])
    lay = spec["layout"]
    if lay == "C":
        return base
    if lay == "F":
        return np.asfortranarray(base)
    if lay == "step":
        big = np.zeros(tuple(spec["shape"][:-1]) + (2 * spec["shape"][-1],), dtype=dt)
        big[..., ::2] = base
        return big[..., ::2]
    if lay == "rev":
        big = np.ascontiguousarray(base[::-1])
        return big[::-1]
    raise ValueError(lay)


def op_flags(ops):
    fl = set()
    for o in ops:
        if len(o["shape"]) == 0:
            fl.add("0d")
        if prod_(o["shape"]) == 0:
            fl.add("empty")
        if o["layout"] != "C":
            fl.add("noncontig")
        if o["dtype"] != "float64":
            fl.add("f32")
    return fl


def dec_axis(a):
    if isinstance(a, dict):  # {"np": axis}: the same axis spelled with NumPy integers
        v = a["np"]
        return tuple(np.int64(i) for i in v) if isinstance(v, list) else np.int64(v)
    return tuple(a) if isinstance(a, list) else a


def plain_axis(a):
    return a["np"] if isinstance(a, dict) else a


def gen_axis(rng, nd, allow_tuple=True):
    """-> (axis json, flags)"""
    if nd == 0:
        k = rng.choice(["none", "none", "int", "neg", "empty"] if allow_tuple else ["none", "int", "neg"])
    else:
        k = rng.choice(["none", "int", "int", "neg", "tuple", "tuple", "empty"] if allow_tuple else ["none", "int", "neg"])
    if k == "none":
        return None, set()
    if k == "int":
        return (0 if nd == 0 else rng.randrange(nd)), {"axis=int"}
    if k == "neg":  # on a 0-d operand 0 and -1 are the same feature: "an integer axis"
        return (-1 if nd == 0 else -1 - rng.randrange(nd)), ({"axis=int"} if nd == 0 else {"axis=neg"})
    if k == "empty":
        return [], {"axis=()"}
    m = rng.randint(1, nd)
    axes = rng.sample(range(nd), m)
    fl = {"axis=tuple"}
    if m == nd:
        fl.add("axis=all")
    if rng.random() < 0.5:
        axes = [a - nd if rng.random() < 0.5 else a for a in axes]
        if any(a < 0 for a in axes):
            fl.add("axis=neg")
    return axes, fl


# ---- array-like non-tensor arguments (conditions, masks, bounds, labels, repeat counts): the same values presented as
# ---- an ndarray of some dtype, a nested Python list, a constant Tensor, or a Python / NumPy scalar

ARG_KINDS_INT = ("int64", "uint8", "int8", "int32", "list", "tensor", "tensor-uint8")


def enc_arg(vals, shape, kind):
    return {"v": [int(x) if float(x) == int(x) else float(x) for x in vals], "shape": list(shape), "kind": kind}


def dec_arg(a):
    """-> the Python object handed to MyGrad"""
    k = a["kind"]
    v, sh = a["v"], a["shape"]
    if k == "bool":
        return np.array(v, dtype=bool).reshape(sh)
    if k == "list-bool":
        return np.array(v, dtype=bool).reshape(sh).tolist()
    if k == "list":
        return np.array(v).reshape(sh).tolist()
    if k == "tensor-bool":
        return mg.tensor(np.array(v, dtype=bool).reshape(sh), constant=True)
    if k == "tensor":
        return mg.tensor(np.array(v).reshape(sh), constant=True)
    if k == "tensor-uint8":
        return mg.tensor(np.array(v, dtype=np.uint8).reshape(sh), constant=True)
    if k == "pyscalar":
        return v[0]
    if k == "pybool":
        return bool(v[0])
    if k == "npscalar":
        return np.int64(v[0])
    return np.array(v, dtype=np.dtype(k)).reshape(sh)


def arg_values(a):
    """the numerical content (float64 ndarray) — what NumPy's semantics are defined on"""
    return np.array(a["v"], dtype=F64).reshape(a["shape"])


# ---- index expressions (JSON <-> python)

INT_DTYPES = ("int64", "int64", "int32", "int8", "uint8", "int16")


def dec_index(items, wrap=True):
    out = []
    for it in items:
        k = it[0]
        if k == "i":
            out.append(int(it[1]))
        elif k == "s":
            out.append(slice(it[1], it[2], it[3]))
        elif k == "n":
            out.append(None)
        elif k == "e":
            out.append(Ellipsis)
        elif k == "a":
            out.append(np.array(it[2], dtype=np.dtype(it[1])))
        elif k == "b":
            out.append(np.array(it[1], dtype=bool))
        elif k == "bl":  # nested Python list of bools
            out.append(np.array(it[1], dtype=bool).tolist())
        elif k == "bt":  # boolean Tensor
            out.append(mg.tensor(np.array(it[1], dtype=bool), constant=True))
        elif k == "b0":  # 0-d boolean (adds an axis of length 0 or 1)
            out.append(np.bool_(it[1]) if it[2] == "np" else bool(it[1]))
        elif k == "al":  # Python list of ints
            out.append(np.array(it[2], dtype=np.int64).tolist())
        elif k == "at":  # integer Tensor
            out.append(mg.tensor(np.array(it[2], dtype=np.dtype(it[1])), constant=True))
        else:
            raise ValueError(k)
    if not wrap and len(out) == 1:
        return out[0]
    return tuple(out)


def gen_slice(rng, n):
    step = rng.choice([None, None, 1, 2, -1, -2, 3])
    lo = rng.choice([None, None] + list(range(-n - 1, n + 2)))
    hi = rng.choice([None, None] + list(range(-n - 1, n + 2)))
    return ["s", lo, hi, step]


def gen_index(rng, shape, small, allow_adv=True):
    """-> (items, wrap, flags) a valid numpy index for an array of `shape`"""
    nd = len(shape)
    fl = set()
    items = []
    mode = rng.choice(["basic", "basic", "adv", "adv", "bool"]) if allow_adv and nd > 0 else "basic"
    if mode == "bool":
        k = rng.randint(1, nd)
        mshape = shape[:k]
        bk = rng.choice(["b", "b", "bl", "bt"])
        if bk == "bl" and prod_(mshape) == 0:
            bk = "b"
        items.append([bk, np.array([rng.random() < 0.5 for _ in range(prod_(mshape))], dtype=bool).reshape(mshape).tolist()])
        fl.add("bool-mask")
        if bk != "b":
            fl.add("idx=list" if bk == "bl" else "idx=tensor")
        rest = list(range(k, nd))
        if rest and rng.random() < 0.4:
            for ax in rest:
                if shape[ax] > 0 and rng.random() < 0.5:
                    items.append(["i", rng.randrange(-shape[ax], shape[ax])])
                    fl.add("mixed")
                else:
                    items.append(gen_slice(rng, shape[ax]))
        return items, rng.random() < 0.5 or len(items) > 1, fl
    adv_axes = set()
    if mode == "adv":
        cands = [a for a in range(nd) if shape[a] > 0]
        if cands:
            adv_axes = set(rng.sample(cands, min(len(cands), rng.choice([1, 1, 2]))))
    bshape = rng.choice([[], [1], [2], [3], [2, 2], [1, 2]]) if not small else rng.choice([[2], [1], [2], [3]])
    used_ell = False
    ax = 0
    while ax < nd:
        if ax in adv_axes:
            dt = rng.choice(INT_DTYPES)
            n = shape[ax]
            sh = bshape if rng.random() < 0.8 else rng.choice([[], [1], bshape])
            lo = -n if not dt.startswith("u") else 0
            vals = [rng.randrange(lo, n) for _ in range(prod_(sh))]
            if dt in ("int8", "uint8"):
                vals = [max(-128 if dt == "int8" else 0, v) for v in vals]
            ak = rng.choice(["a", "a", "a", "al", "at"])
            if ak == "al" and (not sh or prod_(sh) == 0):
                ak = "a"
            if ak == "al":
                dt = "int64"
            items.append([ak, dt, np.array(vals, dtype=np.int64).reshape(sh).tolist()])
            fl.add("int-array")
            if ak != "a":
                fl.add("idx=list" if ak == "al" else "idx=tensor")
            if dt != "int64":
                fl.add("idx-narrow-int")
            if any(v < 0 for v in vals):
                fl.add("neg-index")
            ax += 1
            continue
        r = rng.random()
        if r < 0.12 and not used_ell:
            items.append(["e"])
            used_ell = True
            fl.add("ellipsis")
            skip = rng.randint(0, nd - ax)
            ax += skip
            continue
        if r < 0.22:
            items.append(["n"])
            fl.add("newaxis")
            continue
        if r < 0.25 and allow_adv:
            items.append(["b0", rng.random() < 0.6, rng.choice(["np", "py"])])
            fl.add("bool-0d")
            continue
        if r < 0.45 and shape[ax] > 0:
            v = rng.randrange(-shape[ax], shape[ax])
            items.append(["i", v])
            if v < 0:
                fl.add("neg-index")
            if adv_axes:
                fl.add("mixed")
            ax += 1
            continue
        s = gen_slice(rng, shape[ax])
        if s[3] is not None and s[3] < 0:
            fl.add("neg-step")
        if s != ["s", None, None, None]:
            fl.add("slice")
        items.append(s)
        if adv_axes:
            fl.add("mixed")
        ax += 1
        if not used_ell and rng.random() < 0.15:
            break  # trailing axes implicit
    if rng.random() < 0.1:
        items.append(["n"])
        fl.add("newaxis")
    wrap = True if len(items) != 1 else rng.random() < 0.5
    return items, wrap, fl


# ------------------------------------------------------------------------------------------------ families


class Family:
    def __init__(self, name, ops, kind, gen, call, oracle=None, weight=1.0, exact=True, slow=False):
        self.name, self.ops, self.kind, self.gen, self.call = name, ops, kind, gen, call
        self.oracle = oracle  # custom expected-gradient function (selection / rational kinds)
        self.weight, self.exact, self.slow = weight, exact, slow


FAM = {}


def family(name, ops, kind, call, oracle=None, weight=1.0, exact=True, slow=False):
    def deco(gen):
        FAM[name] = Family(name, ops, kind, gen, call, oracle, weight, exact, slow)
        return gen

    return deco


def mk(params, ops, flags, alias=None):
    return {"params": jsonable(params), "ops": ops, "alias": alias or list(range(len(ops))),
            "flags": sorted(set(flags) | op_flags(ops))}

# ---------------------------------------------------------------- gather families


def _unary_gen(extra):
    """shape + operand + extra(rng, shape, small) -> (params, flags) | None (retry)"""

    def gen(rng, small):
        for _ in range(200):
            shape = rshape(rng, small)
            r = extra(rng, shape, small)
            if r is None:
                continue
            params, flags = r
            dt = "float32" if rng.random() < 0.1 else "float64"
            return mk(params, [opd(rng, shape, small=small, dtype=dt)], flags)
        raise RuntimeError("generator exhausted")

    return gen


def _perm(rng, nd):
    p = list(range(nd))
    rng.shuffle(p)
    return p


def _x_transpose(rng, shape, small):
    nd = len(shape)
    via = rng.choice(["fn", "fn-tuple", "method", "method-tuple"])
    if rng.random() < 0.25:
        return {"axes": None, "via": via}, set()
    p = _perm(rng, nd)
    fl = {"axes"}
    if rng.random() < 0.4 and nd:
        p = [a - nd if rng.random() < 0.5 else a for a in p]
        if any(a < 0 for a in p):
            fl.add("axes-neg")
    return {"axes": p, "via": via}, fl


def _call_transpose(p, ts):
    (x,) = ts
    ax = p["axes"]
    if ax is None:
        return mg.transpose(x) if p["via"].startswith("fn") else x.transpose()
    if p["via"] == "fn":
        return mg.transpose(x, *ax)
    if p["via"] == "fn-tuple":
        return mg.transpose(x, tuple(ax))
    if p["via"] == "method":
        return x.transpose(*ax)
    return x.transpose(tuple(ax))


family("transpose", ["Transpose"], "gather", _call_transpose)(_unary_gen(_x_transpose))
family("T", ["Tensor_Transpose_Property"], "gather", lambda p, ts: ts[0].T)(_unary_gen(lambda r, s, sm: ({}, set())))


def _x_moveaxis(rng, shape, small):
    nd = len(shape)
    if nd == 0:
        return None
    if rng.random() < 0.5:
        s, d = rng.randrange(-nd, nd), rng.randrange(-nd, nd)
        return {"s": s, "d": d}, ({"axis=neg"} if s < 0 or d < 0 else set())
    m = rng.randint(1, nd)
    s = rng.sample(range(nd), m)
    d = rng.sample(range(nd), m)
    s = [a - nd if rng.random() < 0.3 else a for a in s]
    d = [a - nd if rng.random() < 0.3 else a for a in d]
    return {"s": s, "d": d}, {"axis=tuple"} | ({"axis=neg"} if any(a < 0 for a in s + d) else set())


family("moveaxis", ["MoveAxis"], "gather", lambda p, ts: mg.moveaxis(ts[0], dec_axis(p["s"]), dec_axis(p["d"])))(
    _unary_gen(_x_moveaxis))


def _x_swapaxes(rng, shape, small):
    nd = len(shape)
    if nd == 0:
        return None
    a, b = rng.randrange(-nd, nd), rng.randrange(-nd, nd)
    return {"a": a, "b": b}, ({"axis=neg"} if a < 0 or b < 0 else set())


family("swapaxes", ["SwapAxes"], "gather", lambda p, ts: mg.swapaxes(ts[0], p["a"], p["b"]))(_unary_gen(_x_swapaxes))


def _x_roll(rng, shape, small):
    nd = len(shape)
    k = rng.choice(["flat", "int", "tuple"]) if nd else "flat"
    if k == "flat":
        sh = rng.randint(-6, 6)
        return {"shift": sh, "axis": None}, ({"shift-neg"} if sh < 0 else set())
    if k == "int":
        ax = rng.randrange(-nd, nd)
        sh = rng.randint(-6, 6)
        return {"shift": sh, "axis": ax}, {"axis=int"} | ({"shift-neg"} if sh < 0 else set()) | ({"axis=neg"} if ax < 0 else set())
    m = rng.randint(1, nd)
    ax = [rng.randrange(-nd, nd) for _ in range(m)]
    sh = [rng.randint(-5, 5) for _ in range(m)] if rng.random() < 0.7 else rng.randint(-5, 5)
    return {"shift": sh, "axis": ax}, {"axis=tuple"}


family("roll", ["Roll"], "gather", lambda p, ts: mg.roll(ts[0], dec_axis(p["shift"]), axis=dec_axis(p["axis"])))(
    _unary_gen(_x_roll))


def _factor_shape(rng, n):
    if n == 0:
        return rng.choice([[0], [0, 2], [2, 0], [1, 0, 3]])
    out = []
    rem = n
    for _ in range(rng.randint(0, 3)):
        divs = [d for d in range(1, rem + 1) if rem % d == 0]
        d = rng.choice(divs)
        out.append(d)
        rem //= d
    out.append(rem)
    rng.shuffle(out)
    return out


def _x_reshape(rng, shape, small):
    n = prod_(shape)
    new = _factor_shape(rng, n) if rng.random() < 0.9 else []
    if prod_(new) != n:
        return None
    fl = set()
    if new and n > 0 and rng.random() < 0.35:
        new[rng.randrange(len(new))] = -1
        fl.add("-1")
    via = rng.choice(["fn", "method", "method-tuple"])
    if not new:
        fl.add("to-0d")
    return {"new": new, "via": via}, fl


def _call_reshape(p, ts):
    (x,) = ts
    new = tuple(p["new"])
    if p["via"] == "fn":
        return mg.reshape(x, new)
    if p["via"] == "method" and new:
        return x.reshape(*new)
    return x.reshape(new)


family("reshape", ["Reshape"], "gather", _call_reshape)(_unary_gen(_x_reshape))
family("flatten", ["Flatten"], "gather", lambda p, ts: ts[0].flatten())(_unary_gen(lambda r, s, sm: ({}, set())))
family("ravel", ["Ravel"], "gather", lambda p, ts: mg.ravel(ts[0]))(_unary_gen(lambda r, s, sm: ({}, set())))


def _gen_squeeze(rng, small):
    for _ in range(200):
        shape = rshape(rng, small)
        # sprinkle size-1 axes
        shape = [1 if rng.random() < 0.4 else d for d in shape]
        ones = [i for i, d in enumerate(shape) if d == 1]
        nd = len(shape)
        k = rng.choice(["none", "int", "tuple", "empty"])
        if k == "none":
            ax, fl = None, set()
        elif k == "empty":
            ax, fl = [], {"axis=()"}
        elif not ones:
            continue
        elif k == "int":
            a = rng.choice(ones)
            a = a - nd if rng.random() < 0.4 else a
            ax, fl = a, {"axis=int"} | ({"axis=neg"} if a < 0 else set())
        else:
            sel = rng.sample(ones, rng.randint(1, len(ones)))
            sel = [a - nd if rng.random() < 0.3 else a for a in sel]
            ax, fl = sel, {"axis=tuple"} | ({"axis=neg"} if any(a < 0 for a in sel) else set())
        return mk({"axis": ax}, [opd(rng, shape, small=small)], fl)
    raise RuntimeError


family("squeeze", ["Squeeze"], "gather", lambda p, ts: mg.squeeze(ts[0], axis=dec_axis(p["axis"])))(_gen_squeeze)


def _x_expand(rng, shape, small):
    nd = len(shape)
    if rng.random() < 0.75:
        a = rng.randrange(-nd - 1, nd + 1)
        return {"axis": a}, ({"axis=neg"} if a < 0 else set())
    m = rng.randint(1, 2)
    tot = nd + m
    ax = rng.sample(range(tot), m)
    ax = [a - tot if rng.random() < 0.3 else a for a in ax]
    return {"axis": ax}, {"axis=tuple"}


family("expand_dims", ["ExpandDims"], "gather", lambda p, ts: mg.expand_dims(ts[0], dec_axis(p["axis"])))(
    _unary_gen(_x_expand))

def _gen_atleast(k):
    def gen(rng, small):
        shape = rshape(rng, small, max_nd=k - 1 if rng.random() < 0.85 else 4)
        return mk({}, [opd(rng, shape, small=small)], set())

    return gen


for _k in (1, 2, 3):
    family(f"atleast_{_k}d", [f"AtLeast{_k}D"], "gather",
           (lambda k: lambda p, ts: getattr(mg, f"atleast_{k}d")(ts[0]))(_k), weight=0.5)(_gen_atleast(_k))


def _gen_broadcast_to(rng, small):
    for _ in range(200):
        tgt = rshape(rng, small)
        k = rng.randint(0, len(tgt))
        src = tgt[len(tgt) - k:]
        src = [1 if rng.random() < 0.4 else d for d in src]
        fl = set()
        if len(src) < len(tgt):
            fl.add("new-axes")
        if any(s != t for s, t in zip(src, tgt[len(tgt) - k:])):
            fl.add("stretch")
        return mk({"shape": tgt}, [opd(rng, src, small=small)], fl)


family("broadcast_to", ["BroadcastTo"], "gather", lambda p, ts: mg.broadcast_to(ts[0], tuple(p["shape"])))(_gen_broadcast_to)


def _gen_getitem(rng, small):
    for _ in range(300):
        shape = rshape(rng, small, max_nd=3)
        items, wrap, fl = gen_index(rng, shape, small)
        try:
            lab = np.arange(prod_(shape)).reshape(shape)[dec_index(items, wrap)]
        except Exception:
            continue
        if np.asarray(lab).size != np.unique(lab).size:
            fl.add("repeated")
        dt = "float32" if rng.random() < 0.1 else "float64"
        return mk({"idx": items, "wrap": wrap}, [opd(rng, shape, small=small, dtype=dt)], fl)
    raise RuntimeError


family("getitem", ["GetItem"], "gather", lambda p, ts: ts[0][dec_index(p["idx"], p["wrap"])], weight=2.5)(_gen_getitem)


def _gen_join(stack):
    def gen(rng, small):
        for _ in range(200):
            n = rng.choice([1, 2, 2, 3, 3, 4])
            shape = rshape(rng, small, max_nd=3, cap=16)
            nd = len(shape)
            fl = set()
            if stack:
                ax = rng.randrange(-nd - 1, nd + 1)
                shapes = [list(shape)] * n
            else:
                if nd == 0 or rng.random() < 0.15:
                    ax = None  # flattened
                    shapes = [rshape(rng, small, max_nd=2, cap=8) for _ in range(n)]
                    fl.add("axis=None")
                else:
                    ax = rng.randrange(-nd, nd)
                    shapes = []
                    for _ in range(n):
                        s = list(shape)
                        s[ax] = rng.choice([0, 1, 2, 3])
                        shapes.append(s)
            if ax is not None and ax < 0:
                fl.add("axis=neg")
            alias = list(range(n))
            if n >= 2 and rng.random() < 0.25:
                j = rng.randrange(1, n)
                i = rng.randrange(0, j)
                if shapes[i] == shapes[j]:
                    alias[j] = alias[i]
                    fl.add("alias")
            # compress tensor ids
            ids = sorted(set(alias))
            alias = [ids.index(a) for a in alias]
            ops = [opd(rng, shapes[alias.index(t)], small=small) for t in range(len(ids))]
            if n >= 3:
                fl.add("n>=3")
            return mk({"axis": ax}, ops, fl, alias)

    return gen


family("concatenate", ["Concatenate"], "gather", lambda p, ts: mg.concatenate(list(ts), axis=p["axis"]), weight=1.5)(_gen_join(False))
family("stack", ["Stack"], "gather", lambda p, ts: mg.stack(list(ts), axis=p["axis"]))(_gen_join(True))


def _x_repeat(rng, shape, small):
    nd = len(shape)
    fl = set()
    if nd == 0 or rng.random() < 0.3:
        ax = None
        n = prod_(shape)
    else:
        ax = rng.randrange(-nd, nd)
        n = shape[ax]
        fl.add("axis=int")
        if ax < 0:
            fl.add("axis=neg")
    k = rng.choice(["int", "int", "list1", "list"])
    if k == "int":
        rep = rng.choice([0, 1, 2, 3])
    elif k == "list1":
        rep = [rng.choice([0, 1, 2, 3])]
        fl.add("repeats=list1")
    else:
        rep = [rng.choice([0, 1, 2, 3]) for _ in range(n)]
        fl.add("repeats=list")
    if rep == 0 or rep == [0]:
        fl.add("repeats=0")
    rk = "py"
    if rng.random() < 0.35:
        rk = rng.choice(["npscalar", "0d-array"]) if isinstance(rep, int) else rng.choice(["int64", "uint8", "int32", "tuple"])  # (a Tensor is outside the documented Union[int, Sequence[int]])
        fl.add("repeats-kind=" + rk)
    return {"rep": rep, "axis": ax, "rk": rk}, fl


def _dec_rep(p):
    rep, rk = p["rep"], p.get("rk", "py")
    if rk == "py":
        return rep
    if rk == "npscalar":
        return np.int64(rep)
    if rk == "0d-array":
        return np.array(rep)
    if rk == "tuple":
        return tuple(rep)
    if rk == "tensor":
        return mg.tensor(np.array(rep), constant=True)
    return np.array(rep, dtype=np.dtype(rk))


family("repeat", ["Repeat"], "gather", lambda p, ts: mg.repeat(ts[0], _dec_rep(p), axis=p["axis"]), weight=2.0)(_unary_gen(_x_repeat))


def _bcast_pair(rng, out_shape):
    """a shape that broadcasts to out_shape"""
    k = rng.randint(0, len(out_shape))
    s = out_shape[len(out_shape) - k:]
    return [1 if rng.random() < 0.3 else d for d in s]


COND_KINDS = ("bool", "bool", "bool", "int64", "uint8", "int8", "float64", "list", "list-bool", "tensor", "tensor-bool",
              "tensor-uint8")


def _gen_where(rng, small):
    out_shape = rshape(rng, small, max_nd=3)
    sc, sa, sb = (_bcast_pair(rng, out_shape) if rng.random() < 0.5 else list(out_shape) for _ in range(3))
    # make sure the three broadcast exactly to out_shape: at least one is full
    full = rng.choice([0, 1, 2])
    if full == 0:
        sc = list(out_shape)
    elif full == 1:
        sa = list(out_shape)
    else:
        sb = list(out_shape)
    kind = rng.choice(COND_KINDS)
    if kind.startswith("list") and prod_(sc) == 0:
        kind = "bool"
    if not sc and rng.random() < 0.5:
        kind = rng.choice(["pybool", "pyscalar", "npscalar"])  # a Python / NumPy scalar condition
    fl = set()
    truth = [rng.random() < 0.5 for _ in range(prod_(sc))]
    if kind in ("bool", "list-bool", "tensor-bool", "pybool"):
        vals = [int(t) for t in truth]
    elif rng.random() < 0.5:
        vals = [int(t) for t in truth]  # a 0/1 mask of a non-boolean type
    else:  # arbitrary non-zero values are true
        pool = [2, 3, 7, 255] if "uint8" in kind else [2, -1, -2, 3, 100]
        vals = [rng.choice(pool) if t else 0 for t in truth]
        fl.add("cond-values")
    if kind == "float64":
        vals = [v * 0.5 for v in vals]
    if kind != "bool":
        fl.add("cond=" + ("int" if kind in ("int64", "uint8", "int8", "pyscalar", "npscalar") else
                          "float" if kind == "float64" else
                          "list" if kind.startswith("list") else
                          "tensor" if kind.startswith("tensor") else kind))
    if sa != out_shape or sb != out_shape:
        fl.add("bcast-operand")
    if sc != out_shape:
        fl.add("bcast-cond")
    alias = [0, 1]
    ops = [opd(rng, sa, small=small), opd(rng, sb, small=small)]
    if sa == sb and rng.random() < 0.15:
        alias, ops = [0, 0], ops[:1]
        fl.add("alias")
    return mk({"cond": {"v": vals, "shape": sc, "kind": kind}}, ops, fl, alias)


family("where", ["Where"], "gather", lambda p, ts: mg.where(dec_arg(p["cond"]), ts[0], ts[1]), weight=3.0)(_gen_where)

# ------------------------------------------------------------------------------------------------ engine


class ForwardRejected(Exception):
    pass


def make_g(case, out_shape):
    if case.get("g") is not None and list(case.get("g_shape", out_shape)) == list(out_shape):
        return np.array(case["g"], dtype=F64).reshape(out_shape)
    rng = random.Random("g:" + stable_hash([case["fam"], case["params"], [o["shape"] for o in case["ops"]], case.get("gseed", 0)]))
    n = prod_(out_shape)
    if case.get("g_float"):
        vals = [round(rng.uniform(-2, 2), 3) for _ in range(n)]
    else:
        vals = [rng.randint(-3, 3) for _ in range(n)]
        if n and not any(vals):
            vals[0] = 1
    return np.array(vals, dtype=F64).reshape(out_shape)


def run_real(fam, case):
    """the real op: public call on fresh non-constant tensors (given layouts/dtypes), backward(g), read .grad"""
    arrs = [make_array(s) for s in case["ops"]]
    ts = [mg.tensor(a, copy=False, constant=False) for a in arrs]
    try:
        with warnings.catch_warnings():
            warnings.simplefilter("ignore")
            out = fam.call(case["params"], [ts[a] for a in case["alias"]])
    except Exception as e:
        raise ForwardRejected(f"{type(e).__name__}: {e}")
    if not isinstance(out, mg.Tensor):
        raise ForwardRejected("result is not a Tensor")
    g = make_g(case, out.shape)
    creator = type(out.creator).__name__ if out.creator is not None else None
    outdata = np.array(out.data, dtype=F64)
    err = None
    try:
        with warnings.catch_warnings():
            warnings.simplefilter("ignore")
            out.backward(g.copy())
    except Exception as e:  # a legal forward whose backward raises
        err = type(e).__name__
    grads = [None if t.grad is None else np.array(t.grad) for t in ts]
    return outdata, g, grads, creator, err


def slot_values(case):
    """contiguous float64 operand values per slot"""
    vals = [np.array(s["vals"], dtype=F64).reshape(s["shape"]) for s in case["ops"]]
    return [vals[a].copy() for a in case["alias"]]


def fwd_const(fam, params, slot_vals):
    ts = [mg.tensor(np.array(v, dtype=F64), constant=True) for v in slot_vals]
    with warnings.catch_warnings():
        warnings.simplefilter("ignore")
        out = fam.call(params, ts)
    return np.array(out.data if isinstance(out, mg.Tensor) else out, dtype=F64)


def with_slot(slot_vals, s, new):
    l = list(slot_vals)
    l[s] = new
    return l


def recover_gather(fam, case, outdata):
    """-> list per slot of (positions j in the flat output, source index phi_j) or None if the op is not a gather"""
    sv = slot_values(case)
    offs, labs, tot = [], [], 0
    for v in sv:
        offs.append(tot)
        labs.append((tot + np.arange(v.size, dtype=F64)).reshape(v.shape))
        tot += v.size
    lab = fwd_const(fam, case["params"], labs).ravel()
    if lab.shape != outdata.ravel().shape:
        return None
    li = lab.astype(np.int64)
    if lab.size and (np.any(li != lab) or li.min() < 0 or li.max() >= max(tot, 1)):
        return None
    allv = np.concatenate([v.ravel() for v in sv]) if sv else np.zeros(0)
    if lab.size and not np.array_equal(allv[li], outdata.ravel()):
        return None
    res = []
    for s, v in enumerate(sv):
        sel = np.nonzero((li >= offs[s]) & (li < offs[s] + v.size))[0]
        res.append((sel, li[sel] - offs[s]))
    return res


def unit_jacobian(fam, case, s, sv, f0):
    x0 = sv[s]
    J = np.zeros((f0.size, x0.size))
    for k in range(x0.size):
        xv = x0.copy().ravel()
        xv[k] += 1.0
        J[:, k] = fwd_const(fam, case["params"], with_slot(sv, s, xv.reshape(x0.shape))).ravel() - f0
    return J


def validate_linear(fam, case, s, sv, f0, J, rng):
    x0 = sv[s]
    if x0.size == 0:
        return True
    x1 = x0 + np.array([rng.randint(-3, 3) for _ in range(x0.size)], dtype=F64).reshape(x0.shape)
    d = fwd_const(fam, case["params"], with_slot(sv, s, x1)).ravel() - f0
    return np.allclose(d, J @ (x1 - x0).ravel(), rtol=0, atol=1e-9 * max(1.0, np.abs(d).max(initial=0)))


def validate_multilinear(fam, case, s, sv, f0, J, rng):
    x0 = sv[s]
    for k in rng.sample(range(x0.size), min(3, x0.size)):
        xv = x0.copy().ravel()
        xv[k] += 2.0
        d = fwd_const(fam, case["params"], with_slot(sv, s, xv.reshape(x0.shape))).ravel() - f0
        if not np.allclose(d, 2 * J[:, k], rtol=0, atol=1e-9 * max(1.0, np.abs(d).max(initial=0))):
            return False
    return True


def richardson_jacobian(fam, case, s, sv):
    """-> (J, smooth?)  central differences at h and h/2, extrapolated; smoothness judged from the forward only"""
    x0 = sv[s]
    f0 = fwd_const(fam, case["params"], sv).ravel()
    J = np.zeros((f0.size, x0.size))
    smooth = True
    for k in range(x0.size):
        ds = []
        for h in (2e-3, 1e-3, 5e-4):
            xp, xm = x0.copy().ravel(), x0.copy().ravel()
            xp[k] += h
            xm[k] -= h
            fp = fwd_const(fam, case["params"], with_slot(sv, s, xp.reshape(x0.shape))).ravel()
            fm = fwd_const(fam, case["params"], with_slot(sv, s, xm.reshape(x0.shape))).ravel()
            ds.append((fp - fm) / (2 * h))
        r1 = (4 * ds[1] - ds[0]) / 3
        r2 = (4 * ds[2] - ds[1]) / 3
        J[:, k] = r2
        sc = max(1.0, np.abs(r2).max(initial=0))
        if not np.all(np.isfinite(r2)) or np.abs(r2 - r1).max(initial=0) > 2e-7 * sc:
            smooth = False
    return J, smooth


def accumulate(case, per_slot):
    """sum slot gradients into tensors"""
    nt = len(case["ops"])
    out = [np.zeros(case["ops"][t]["shape"]) for t in range(nt)]
    for s, gslot in enumerate(per_slot):
        out[case["alias"][s]] = out[case["alias"][s]] + gslot.reshape(case["ops"][case["alias"][s]]["shape"])
    return out


LEAN_MAX_N = 80
LEAN_MAX_MAT = 1200


def ints(a):
    a = np.asarray(a).ravel()
    return ",".join(str(int(v)) for v in a) if a.size else "-"


def is_integral(a):
    a = np.asarray(a, dtype=F64)
    return bool(np.all(np.isfinite(a)) and np.all(a == np.round(a)) and np.abs(a).max(initial=0) < 2 ** 50)


def check_case(fam, case, want_lean=True):
    """-> dict(fails=[...], lean=[(line, tensor, expected-real-string)], info={...}) ; raises ForwardRejected"""
    outdata, g, grads, creator, err = run_real(fam, case)
    info = {"creator": creator, "kind": fam.kind, "out_size": int(outdata.size), "discard": None}
    rng = random.Random("v:" + stable_hash([case["fam"], case["params"]]))
    sv = slot_values(case)
    nslots = len(sv)
    lean = []
    kind = fam.kind
    exact = fam.exact
    expected = None
    gflat = g.ravel()

    if fam.oracle is not None:
        r = fam.oracle(case, sv, outdata, g)
        if r is None:
            info["discard"] = "non-differentiable point"
            return {"fails": [], "lean": [], "info": info, "g": g}
        per_slot, exact = r
        expected = accumulate(case, per_slot)
        kind = "custom"
    if expected is None and kind == "gather":
        rec = recover_gather(fam, case, outdata)
        if rec is None:
            kind = "linear"
            info["fallback"] = "gather->linear"
        else:
            per_slot = []
            for s, (sel, phi) in enumerate(rec):
                acc = np.zeros(sv[s].size)
                np.add.at(acc, phi, gflat[sel])
                per_slot.append(acc)
                if want_lean and sv[s].size <= LEAN_MAX_N and sel.size <= 4 * LEAN_MAX_N and is_integral(gflat):
                    lean.append([f"lin scatter {sv[s].size} {ints(phi)} {ints(gflat[sel])}", s, None])
            expected = accumulate(case, per_slot)
            info["gather_validated"] = True
    if expected is None and kind in ("linear", "multilinear"):
        f0 = fwd_const(fam, case["params"], sv).ravel()
        per_slot = []
        ok = True
        for s in range(nslots):
            J = unit_jacobian(fam, case, s, sv, f0)
            valid = (validate_linear if kind == "linear" else validate_multilinear)(fam, case, s, sv, f0, J, rng)
            if not valid and kind == "linear" and validate_multilinear(fam, case, s, sv, f0, J, rng):
                valid = True
                info["fallback"] = "linear->multilinear"
            if not valid:
                ok = False
                break
            per_slot.append(J.T @ gflat)
            if want_lean and J.size <= LEAN_MAX_MAT and is_integral(J) and is_integral(gflat):
                rows = ";".join(ints(r) for r in J) if J.shape[0] else "-"
                lean.append([f"lin matT {J.shape[0]} {J.shape[1]} {rows} {ints(gflat)}", s, None])
        if ok:
            expected = accumulate(case, per_slot)
            info["linear_validated"] = True
            if not all(is_integral(p) for p in per_slot):
                exact = False
        else:
            kind = "numeric"
            info["fallback"] = "->numeric"
    if expected is None:  # numeric
        per_slot = []
        for s in range(nslots):
            J, smooth = richardson_jacobian(fam, case, s, sv)
            if not smooth:
                info["discard"] = "forward not smooth at this point (kink/tie)"
                return {"fails": [], "lean": [], "info": info, "g": g}
            per_slot.append(J.T @ gflat)
        expected = accumulate(case, per_slot)
        exact = False
        kind = "numeric"
    info["oracle"] = kind

    fails = []
    if err is not None:
        # which operands did not get their gradient?  attribute to the first operand
        fails.append({"operand": 0, "failkind": f"raises-{err}", "expected": jsonable(expected[0]), "got": err})
    else:
        for t, (real, exp) in enumerate(zip(grads, expected)):
            fk = None
            if real is None:
                # no gradient stored is acceptable only where the derivative is identically zero
                fk = "grad-none" if np.any(exp != 0) else None
            elif tuple(real.shape) != tuple(exp.shape):
                fk = "bad-shape"
            else:
                r = real.astype(F64)
                if exact:
                    if not np.array_equal(r, exp):
                        fk = "mismatch"
                else:
                    sc = max(1.0, np.abs(exp).max(initial=0))
                    f32 = any(o["dtype"] != "float64" for o in case["ops"])
                    tol = (1e-10 if kind in ("custom", "linear", "multilinear") and not f32 else 2e-6) * sc
                    if not np.all(np.isfinite(r)) or np.abs(r - exp).max(initial=0) > tol:
                        fk = "mismatch"
            if fk:
                fails.append({"operand": t, "failkind": fk, "expected": jsonable(exp),
                              "got": None if real is None else jsonable(real.astype(F64))})
    # Lean lines compare against the REAL backward (only single-slot tensors are directly comparable)
    for l in lean:
        s = l[1]
        t = case["alias"][s]
        if case["alias"].count(t) == 1 and err is None and grads[t] is not None and is_integral(grads[t]):
            l[2] = ints(grads[t].astype(F64))
        else:
            l[2] = ints(per_slot[s]) if is_integral(per_slot[s]) else None
    return {"fails": fails, "lean": [l for l in lean if l[2] is not None], "info": info, "g": g}

# ---------------------------------------------------------------- linear / multilinear families


def _gen_reduce(allow0=True, kind="int", kw=None, keepdims=True, flt32=True):
    def gen(rng, small):
        shape = rshape(rng, small, allow0=allow0, cap=36)
        ax, fl = gen_axis(rng, len(shape))
        if ax is not None and ax != [] and rng.random() < 0.12:
            ax = {"np": ax}  # the same axis spelled with NumPy integers
            fl.add("axis-kind=npint")
        kd = keepdims and rng.random() < 0.4
        if kd:
            fl.add("keepdims")
        sp = rng.choice(["bool", "bool", "bool", "int"]) if keepdims else "bool"
        if sp != "bool":
            fl.add("keepdims-kind=" + sp)
        dt = "float32" if flt32 and rng.random() < 0.08 else "float64"
        return mk({"axis": ax, "keepdims": kd, "kd_spell": sp}, [opd(rng, shape, small=small, dtype=dt, kind=kind, **(kw or {}))], fl)

    return gen


def dec_kd(p):
    """the keepdims argument as the case spells it: a bool, the integers 0/1, or a NumPy bool (all legal for NumPy)"""
    v, sp = bool(p["keepdims"]), p.get("kd_spell", "bool")
    return int(v) if sp == "int" else (np.bool_(v) if sp == "npbool" else v)


def _red(f):
    return lambda p, ts: f(ts[0], axis=dec_axis(p["axis"]), keepdims=dec_kd(p))


family("sum", ["Sum"], "linear", _red(mg.sum), weight=1.5)(_gen_reduce())
family("mean", ["Mean"], "linear", _red(mg.mean), weight=1.5)(_gen_reduce())


def _gen_cum(rng, small, nozero=False, zeros=False):
    shape = rshape(rng, small, cap=24)
    ax, fl = gen_axis(rng, len(shape), allow_tuple=False)
    if ax is not None and rng.random() < 0.12:
        ax = {"np": ax}
        fl.add("axis-kind=npint")
    n = prod_(shape)
    vals = ivals(rng, n, -3, 3, nozero=True)
    if zeros and n:
        nz = min(n, rng.choice([0, 1, 1, 2, 3]))
        for i in rng.sample(range(n), nz):
            vals[i] = 0
        if nz == 1:
            fl.add("one-zero")
        elif nz > 1:
            fl.add("zeros")
    return mk({"axis": ax}, [opd(rng, shape, vals=vals, small=small)], fl)


family("cumsum", ["CumSum"], "linear", lambda p, ts: mg.cumsum(ts[0], axis=dec_axis(p["axis"])))(_gen_cum)
family("cumprod", ["CumProd"], "multilinear", lambda p, ts: mg.cumprod(ts[0], axis=dec_axis(p["axis"])), weight=1.5)(
    lambda rng, small: _gen_cum(rng, small, zeros=True))


def _gen_prod(rng, small):
    c = _gen_reduce(flt32=False)(rng, small)
    o = c["ops"][0]
    n = len(o["vals"])
    vals = ivals(rng, n, -3, 3, nozero=True)
    fl = set(c["flags"])
    if n:
        nz = min(n, rng.choice([0, 0, 1, 1, 2, 3]))
        for i in rng.sample(range(n), nz):
            vals[i] = 0
        if nz == 1:
            fl.add("one-zero")
        elif nz > 1:
            fl.add("zeros")
    o["vals"] = vals
    c["flags"] = sorted(fl)
    return c


family("prod", ["Prod"], "multilinear", _red(mg.prod), weight=1.5)(_gen_prod)


def _gen_matmul(rng, small):
    d = (lambda: rng.choice([1, 2, 2, 3])) if not small else (lambda: rng.choice([1, 2]))
    i, j, k = d(), d(), d()
    case_ = rng.choice(["1x1", "1xN", "Nx1", "2x2", "batched", "batched"])
    fl = {case_}
    if case_ == "1x1":
        sa, sb = [j], [j]
    elif case_ == "1xN":
        batch = [d()] if rng.random() < 0.4 else []
        sa, sb = [j], batch + [j, k]
    elif case_ == "Nx1":
        batch = [d()] if rng.random() < 0.4 else []
        sa, sb = batch + [i, j], [j]
    elif case_ == "2x2":
        sa, sb = [i, j], [j, k]
    else:
        bo = [d() for _ in range(rng.choice([1, 1, 2]))]
        ba = _bcast_pair(rng, bo)
        bb = _bcast_pair(rng, bo) if rng.random() < 0.6 else list(bo)
        if ba != bo or bb != bo:
            fl.add("bcast-batch")
        sa, sb = ba + [i, j], bb + [j, k]
    alias = [0, 1]
    ops = [opd(rng, sa, small=small), opd(rng, sb, small=small)]
    if sa == sb and (len(sa) == 1 or sa[-1] == sa[-2]) and rng.random() < 0.5:
        alias, ops = [0, 0], ops[:1]
        fl.add("alias")
    return mk({}, ops, fl, alias)


family("matmul", ["MatMul"], "multilinear", lambda p, ts: mg.matmul(ts[0], ts[1]), weight=2.0)(_gen_matmul)


def _gen_multi_matmul(rng, small):
    n = rng.choice([2, 3, 3, 4])
    dims = [rng.choice([1, 2, 3]) for _ in range(n + 1)]
    shapes = [[dims[i], dims[i + 1]] for i in range(n)]
    if rng.random() < 0.3:
        shapes[0] = [dims[1]]
    if rng.random() < 0.3:
        shapes[-1] = [dims[n - 1]]
    return mk({}, [opd(rng, s, small=small, lo=-2, hi=2) for s in shapes], {f"n={n}"})


family("multi_matmul", ["MatMul"], "multilinear", lambda p, ts: mg.multi_matmul(list(ts)), weight=0.5)(_gen_multi_matmul)

EINSUM_FIXED = [
    "ii->i", "ii->", "ii", "ij->ji", "ij->", "ij->j", "iji->ij", "iji->j", "iij->j", "ijj->ij", "iii->i", "i,i->", "i,i->i", "i,j->ij", "ij,jk->ik",
    "ij,jk", "ij,ij->", "ij,ji->", "ij,j->i", "ijk,k->ji", "ijk,jk->k", "ij,jk,kl->il", "i,i,i->i", "ii,i->i", "iij,j->i", "ij,ik->jk",
    "...i,...i->...", "...ij,...jk->...ik", "i...,i...->...", "...,...->...", "...i->...", "i...->i", "...ii->...i", "ij...,j->i...",
    "bij,bjk->bik", "bi,bi->b", "i,ij,j->", "ij,ij,ij->ij", "ij->ij", "i->", "->", ",->", "i,->i",
]


def _gen_einsum(rng, small):
    for _ in range(300):
        sub = rng.choice(EINSUM_FIXED)
        ins = sub.split("->")[0].split(",")
        size = {c: rng.choice([1, 2, 2, 3]) for c in "ijklb"}
        ell_full = [rng.choice([1, 2, 3]) for _ in range(rng.choice([0, 1, 1, 2]))]
        shapes, fl = [], set()
        for lbl in ins:
            sh = []
            for part_i, ch in enumerate(lbl.replace("...", ".")):
                if ch == ".":
                    e = _bcast_pair(rng, ell_full) if rng.random() < 0.35 else list(ell_full)
                    if e != ell_full:
                        fl.add("bcast")
                    sh += e
                else:
                    sh.append(size[ch])
            shapes.append(sh)
            if len(set(lbl.replace(".", ""))) < len(lbl.replace(".", "")):
                fl.add("trace")
        if "..." in sub:
            fl.add("ellipsis")
        if "->" not in sub:
            fl.add("implicit")
        if prod_([prod_(s) for s in shapes]) > 400:
            continue
        alias = list(range(len(ins)))
        if len(ins) >= 2 and rng.random() < 0.35:
            for a in range(len(ins)):
                for b in range(a + 1, len(ins)):
                    if shapes[a] == shapes[b] and alias[b] == b and rng.random() < 0.7:
                        alias[b] = alias[a]
                        fl.add("alias")
                        if ins[a] == ins[b]:
                            fl.add("alias-same-lbl")
        ids = sorted(set(alias))
        alias = [ids.index(a) for a in alias]
        ops = [opd(rng, shapes[alias.index(t)], small=small, lo=-3, hi=3) for t in range(len(ids))]
        opt = rng.random() < 0.3
        if opt:
            fl.add("optimize")
        return mk({"sub": sub, "optimize": opt}, ops, fl, alias)
    raise RuntimeError


family("einsum", ["EinSum"], "multilinear", lambda p, ts: mg.einsum(p["sub"], *ts, optimize=p["optimize"]), weight=3.0)(_gen_einsum)


def _gen_conv(rng, small):
    for _ in range(500):
        nconv = rng.choice([1, 1, 2])
        N, C, Fn = rng.choice([1, 2]), rng.choice([1, 2]), rng.choice([1, 2])
        W = [rng.choice([1, 2, 3]) for _ in range(nconv)]
        st = [rng.choice([1, 1, 2, 3]) for _ in range(nconv)]
        pad = [rng.choice([0, 0, 1, 2]) for _ in range(nconv)]
        dil = [rng.choice([1, 1, 2]) for _ in range(nconv)]
        X = [rng.choice([2, 3, 4, 5]) for _ in range(nconv)]
        ok = all((x + 2 * p - ((w - 1) * d + 1)) >= 0 and (x + 2 * p - ((w - 1) * d + 1)) % s == 0
                 for x, p, w, d, s in zip(X, pad, W, dil, st))
        if not ok or N * C * prod_(X) > 100:
            continue
        fl = set()
        if any(s > 1 for s in st):
            fl.add("stride>1")
        if any(pad):
            fl.add("padding")
        if any(d > 1 for d in dil):
            fl.add("dilation>1")
        if nconv == 2:
            fl.add("2d")
        tup = rng.random() < 0.5
        P = {"stride": st if tup else st[0], "padding": pad if tup else pad[0], "dilation": dil if tup else dil[0]}
        if not tup and (len(set(st)) > 1 or len(set(pad)) > 1 or len(set(dil)) > 1):
            continue
        return mk(P, [opd(rng, [N, C] + X, small=small, lo=-2, hi=2), opd(rng, [Fn, C] + W, small=small, lo=-2, hi=2)], fl)
    raise RuntimeError


family("conv_nd", ["ConvND"], "multilinear",
       lambda p, ts: nn.conv_nd(ts[0], ts[1], stride=dec_axis(p["stride"]), padding=dec_axis(p["padding"]),
                                dilation=dec_axis(p["dilation"])), weight=1.5)(_gen_conv)


def _gen_seq(mul):
    def gen(rng, small):
        n = rng.choice([2, 2, 3, 4])
        out_shape = rshape(rng, small, max_nd=3, cap=16)
        shapes = [_bcast_pair(rng, out_shape) if rng.random() < 0.4 else list(out_shape) for _ in range(n)]
        shapes[rng.randrange(n)] = list(out_shape)
        fl = set()
        if any(s != out_shape for s in shapes):
            fl.add("bcast-operand")
        alias = list(range(n))
        if rng.random() < 0.3:
            j = rng.randrange(1, n)
            i = rng.randrange(0, j)
            if shapes[i] == shapes[j]:
                alias[j] = i
                fl.add("alias")
        ids = sorted(set(alias))
        alias = [ids.index(a) for a in alias]
        ops = []
        for t in range(len(ids)):
            sh = shapes[alias.index(t)]
            vals = ivals(rng, prod_(sh), -3, 3, nozero=mul)
            if mul and vals and rng.random() < 0.35:
                for i in rng.sample(range(len(vals)), min(len(vals), rng.choice([1, 2]))):
                    vals[i] = 0
                fl.add("zeros")
            ops.append(opd(rng, sh, vals=vals, small=small))
        return mk({}, ops, fl, alias)

    return gen


family("add_sequence", ["AddSequence"], "linear", lambda p, ts: mg.add_sequence(*ts))(_gen_seq(False))
family("multiply_sequence", ["MultiplySequence"], "multilinear", lambda p, ts: mg.multiply_sequence(*ts), weight=1.5)(_gen_seq(True))


# ---- set-item and the in-place machinery (SetItem, UnView, ApplyMask)


def _value_shape(rng, res_shape):
    k = rng.choice(["exact", "exact", "scalar", "suffix", "ones", "lead1"])
    if k == "exact":
        return list(res_shape), set()
    if k == "scalar":
        return [], {"bcast-value"}
    if k == "suffix":
        j = rng.randint(0, len(res_shape))
        return list(res_shape[j:]), ({"bcast-value"} if j else set())
    if k == "ones":
        s = [1 if rng.random() < 0.5 else d for d in res_shape]
        return s, ({"bcast-value"} if s != list(res_shape) else set())
    return [1] + list(res_shape), {"lead1-value"}


def _gen_setitem(view):
    def gen(rng, small):
        for _ in range(400):
            shape = rshape(rng, small, max_nd=3, cap=24)
            vfl = set()
            vitems = None
            tgt_shape = shape
            if view:
                vitems, _, vfl0 = gen_index(rng, shape, small, allow_adv=False)
                try:
                    tgt = np.arange(prod_(shape)).reshape(shape)[dec_index(vitems)]
                except Exception:
                    continue
                if not isinstance(tgt, np.ndarray) or tgt.base is None:
                    continue
                tgt_shape = list(tgt.shape)
                vfl = {"view-of-base"}
            items, wrap, fl = gen_index(rng, tgt_shape, small)
            try:
                lab = np.arange(prod_(tgt_shape)).reshape(tgt_shape)[dec_index(items, wrap)]
            except Exception:
                continue
            lab = np.asarray(lab)
            if lab.size != np.unique(lab).size:
                fl.add("repeated")
            vs, f2 = _value_shape(rng, list(lab.shape))
            try:
                np.broadcast_to(np.zeros(vs), lab.shape)
            except ValueError:
                if prod_(vs) != lab.size:
                    continue
            return mk({"idx": items, "wrap": wrap, "view": vitems},
                      [opd(rng, shape, small=small), opd(rng, vs, small=small)], fl | f2 | vfl)
        raise RuntimeError

    return gen


def _call_setitem(p, ts):
    a, b = ts
    x = +a
    if p["view"] is not None:
        v = x[dec_index(p["view"])]
        v[dec_index(p["idx"], p["wrap"])] = b
    else:
        x[dec_index(p["idx"], p["wrap"])] = b
    return x


family("setitem", ["SetItem"], "linear", _call_setitem, weight=3.0)(_gen_setitem(False))
family("setitem_view", ["SetItem", "UnView"], "linear", _call_setitem, weight=1.5)(_gen_setitem(True))


def _gen_unview(rng, small):
    for _ in range(300):
        shape = rshape(rng, small, max_nd=3, cap=24)
        chain = []
        cur = np.arange(prod_(shape)).reshape(shape)
        ok = True
        for _ in range(rng.choice([1, 1, 2])):
            items, _, _ = gen_index(rng, list(cur.shape), small, allow_adv=False)
            try:
                nxt = cur[dec_index(items)]
            except Exception:
                ok = False
                break
            if not isinstance(nxt, np.ndarray) or nxt.base is None:
                ok = False
                break
            chain.append(items)
            cur = nxt
        if not ok:
            continue
        return mk({"chain": chain}, [opd(rng, shape, small=small), opd(rng, list(cur.shape), small=small)],
                  {f"chain={len(chain)}"})
    raise RuntimeError


def _call_unview(p, ts):
    base, view = ts
    fns = [(lambda it: (lambda a: a[dec_index(it)]))(it) for it in p["chain"]]
    data = np.array(base.data, copy=True)
    tgt = data
    for f in fns:
        tgt = f(tgt)
    tgt[...] = view.data
    return mg.Tensor._op(_dg.UnView, base, view, op_kwargs={"mutant_base_data": data, "view_fn_sequence": fns})


family("unview_direct", ["UnView"], "linear", _call_unview)(_gen_unview)


def _gen_applymask(rng, small):
    shape = rshape(rng, small, max_nd=3, cap=24)
    ms = _bcast_pair(rng, shape) if rng.random() < 0.4 else list(shape)
    k = rng.choice(["array", "array", "True", "False"])
    mask = [int(rng.random() < 0.5) for _ in range(prod_(ms))] if k == "array" else (k == "True")
    return mk({"mask": mask, "mshape": ms if k == "array" else None},
              [opd(rng, shape, small=small), opd(rng, shape, small=small)], {"mask=" + k})


def _dec_mask(p):
    return np.array(p["mask"], dtype=bool).reshape(p["mshape"]) if p["mshape"] is not None else bool(p["mask"])


def _call_applymask(p, ts):
    new, old = ts
    # forward semantics of `ufunc(..., where=mask, out=z)`: z keeps `old` where the mask is False
    m = _dec_mask(p)
    merged = mg.Tensor(np.where(m, new.data, old.data), constant=True)
    passthru = new * np.asarray(np.broadcast_to(m, new.shape), dtype=float) + merged * 0.0  # value irrelevant to ApplyMask
    del passthru
    return mg.Tensor._op(_dg.ApplyMask, new, old, op_kwargs={"mask": m})


family("applymask_direct", ["ApplyMask"], "custom", _call_applymask,
       oracle=lambda case, sv, out, g: ([g.ravel().copy(),
                                         (g * ~np.broadcast_to(_dec_mask(case["params"]), g.shape)).ravel()], True),
       weight=0.5)(_gen_applymask)

UFUNC_TAIL = {"add": mg.add, "subtract": mg.subtract, "multiply": mg.multiply}


def _gen_ufunc_tail(rng, small):
    out_shape = rshape(rng, small, max_nd=3, cap=24)
    sa = _bcast_pair(rng, out_shape) if rng.random() < 0.5 else list(out_shape)
    sb = _bcast_pair(rng, out_shape) if rng.random() < 0.5 else list(out_shape)
    fl = set()
    if sa != out_shape or sb != out_shape:
        fl.add("bcast-operand")
    mode = rng.choice(["plain", "where+out", "where+out", "out"])
    if mode == "plain":
        # without `out` the result has the broadcast shape of the operands only
        full = rng.choice([0, 1])
        if full == 0:
            sa = list(out_shape)
        else:
            sb = list(out_shape)
    ms = None
    mask = None
    mkind = "bool"
    if mode == "where+out":
        ms = _bcast_pair(rng, out_shape) if rng.random() < 0.4 else list(out_shape)
        mask = [int(rng.random() < 0.5) for _ in range(prod_(ms))]
        fl.add("where-mask")
        mk_ = rng.choice(["bool", "bool", "list-bool", "tensor-bool", "pybool", "uint8"])
        if mk_ == "list-bool" and prod_(ms) == 0:
            mk_ = "bool"
        if mk_ == "pybool":
            ms, mask = [], mask[:1] if not ms else [int(rng.random() < 0.5)]
        if mk_ != "bool":
            fl.add("mask=" + mk_)
        mkind = mk_
    if mode != "plain":
        fl.add("out=")
    ops = [opd(rng, sa, small=small, lo=-3, hi=3), opd(rng, sb, small=small, lo=-3, hi=3)]
    if mode != "plain":
        ops.append(opd(rng, out_shape, small=small, lo=-3, hi=3))
    return mk({"f": rng.choice(sorted(UFUNC_TAIL)), "mode": mode, "mask": mask, "mshape": ms, "mkind": mkind}, ops, fl)


def _call_ufunc_tail(p, ts):
    f = UFUNC_TAIL[p["f"]]
    if p["mode"] == "plain":
        return f(ts[0], ts[1])
    z = +ts[2]
    if p["mode"] == "out":
        f(ts[0], ts[1], out=z)
    else:
        f(ts[0], ts[1], out=z, where=dec_arg({"v": p["mask"], "shape": p["mshape"], "kind": p.get("mkind", "bool")}))
    return z


family("ufunc_tail", ["ApplyMask"], "multilinear", _call_ufunc_tail, weight=1.5)(_gen_ufunc_tail)

# ---------------------------------------------------------------- rational / selection / numeric families


def _norm_axes(axis, nd):
    if axis is None:
        return tuple(range(nd))
    if isinstance(axis, (list, tuple)):
        return tuple(sorted(a % nd for a in axis)) if nd else ()
    return (axis % nd,) if nd else ()


def _windows(shape, axis):
    """-> (labels (nout, win): flat input index of every window element, windows in C-order of the kept axes,
    window elements in C-order of the reduced axes)"""
    nd = len(shape)
    red = _norm_axes(axis, nd)
    keep = tuple(a for a in range(nd) if a not in red)
    lab = np.arange(prod_(shape)).reshape(shape)
    lab = lab.transpose(keep + red).reshape(prod_([shape[a] for a in keep]), prod_([shape[a] for a in red]))
    return lab


def _frac_var(row, ddof):
    n = len(row)
    m = sum(row, Fraction(0)) / n
    return sum(((v - m) ** 2 for v in row), Fraction(0)) / (n - ddof)


def _oracle_var(std):
    def oracle(case, sv, out, g):
        x = sv[0]
        p = case["params"]
        lab = _windows(x.shape, dec_axis(p["axis"]))
        nout, win = lab.shape
        gf = g.ravel()
        acc = np.zeros(x.size)
        if win - p["ddof"] <= 0:
            return None
        xf = [Fraction(int(v)) for v in x.ravel()]
        for j in range(nout):
            row = [xf[i] for i in lab[j]]
            v0 = _frac_var(row, p["ddof"])
            if std and v0 == 0:
                return None  # sqrt not differentiable at 0
            for k in range(win):
                rp, rm = list(row), list(row)
                rp[k] += 1
                rm[k] -= 1
                d = (_frac_var(rp, p["ddof"]) - _frac_var(rm, p["ddof"])) / 2  # exact: var is quadratic
                d = float(d)
                if std:
                    d = d / (2.0 * float(v0) ** 0.5)
                acc[lab[j, k]] += gf[j] * d
        return [acc], False

    return oracle


def _gen_var(rng, small):
    for _ in range(200):
        c = _gen_reduce(flt32=False)(rng, small)
        shape = c["ops"][0]["shape"]
        lab = _windows(shape, dec_axis(c["params"]["axis"]))
        ddof = rng.choice([0, 0, 1, 2])
        if lab.shape[1] - ddof <= 0:
            continue
        c["params"]["ddof"] = ddof
        if ddof:
            c["flags"] = sorted(set(c["flags"]) | {"ddof"})
        return c
    raise RuntimeError


def _redd(f):
    return lambda p, ts: f(ts[0], axis=dec_axis(p["axis"]), keepdims=dec_kd(p), ddof=p["ddof"])


family("var", ["Variance"], "custom", _redd(mg.var), oracle=_oracle_var(False), weight=1.5)(_gen_var)
family("std", ["StdDev"], "custom", _redd(mg.std), oracle=_oracle_var(True), weight=1.5)(_gen_var)


def _oracle_maxmin(is_max):
    def oracle(case, sv, out, g):
        x = sv[0]
        lab = _windows(x.shape, dec_axis(case["params"]["axis"]))
        gf = g.ravel()
        acc = np.zeros(x.size)
        xf = x.ravel()
        for j in range(lab.shape[0]):
            row = xf[lab[j]]
            k = int(np.argmax(row) if is_max else np.argmin(row))  # first extremum in C-order of the window
            acc[lab[j, k]] += gf[j]
        return [acc], True

    return oracle


def _gen_maxmin(rng, small):
    c = _gen_reduce(flt32=False)(rng, small)
    o = c["ops"][0]
    if rng.random() < 0.5 and o["vals"]:
        o["vals"] = ivals(rng, len(o["vals"]), 0, 2)  # many ties
    if o["vals"]:
        lab = _windows(o["shape"], dec_axis(c["params"]["axis"]))
        v = np.array(o["vals"])
        if any((v[r] == v[r].max()).sum() > 1 or (v[r] == v[r].min()).sum() > 1 for r in lab if len(r)):
            c["flags"] = sorted(set(c["flags"]) | {"ties"})
    return c


family("max", ["Max"], "custom", _red(mg.max), oracle=_oracle_maxmin(True), weight=1.5)(_gen_maxmin)
family("min", ["Min"], "custom", _red(mg.min), oracle=_oracle_maxmin(False), weight=1.5)(_gen_maxmin)


def _gen_clip(rng, small):
    shape = rshape(rng, small, max_nd=3, cap=24)
    fl = set()
    ops = [opd(rng, shape, small=small)]
    P = {}
    for nm in ("amin", "amax"):
        k = rng.choice(["none", "scalar", "scalar", "array", "tensor"])
        if k == "none":
            P[nm] = None
        elif k == "scalar":
            sk = rng.choice(["py", "py", "float", "npscalar", "0d-array"])
            P[nm] = {"k": "scalar", "v": rng.randint(-3, 1) if nm == "amin" else rng.randint(0, 3), "sk": sk}
            if sk != "py":
                fl.add("bound-kind=" + sk)
        else:
            sh = _bcast_pair(rng, shape) if rng.random() < 0.5 else list(shape)
            vals = ivals(rng, prod_(sh), -3, 1) if nm == "amin" else ivals(rng, prod_(sh), 0, 3)
            if k == "array":
                ak = rng.choice(["float64", "float64", "int64", "int8", "list", "tensor", "float32"])
                if ak == "list" and prod_(sh) == 0:
                    ak = "float64"
                P[nm] = {"k": "array", "v": vals, "shape": sh, "ak": ak}
                if ak != "float64":
                    fl.add("bound-kind=" + ak)
            else:
                P[nm] = {"k": "tensor", "slot": len(ops)}
                ops.append(opd(rng, sh, vals=vals, small=small))
                fl.add("bound=tensor")
            if sh != shape:
                fl.add("bcast-bound")
    return mk(P, ops, fl)


def _clip_bounds(p, slots):
    out = []
    for nm in ("amin", "amax"):
        b = p[nm]
        if b is None:
            out.append(None)
        elif b["k"] == "scalar":
            out.append(b["v"])
        elif b["k"] == "array":
            out.append(np.array(b["v"], dtype=F64).reshape(b["shape"]))
        else:
            out.append(slots[b["slot"]])
    return out


def _clip_arg(b, slots):
    """the object handed to mg.clip (the oracle works on `_clip_bounds`, i.e. on the numerical values)"""
    if b is None:
        return None
    if b["k"] == "scalar":
        sk = b.get("sk", "py")
        return {"py": b["v"], "float": float(b["v"]), "npscalar": np.int64(b["v"]), "0d-array": np.array(b["v"])}[sk]
    if b["k"] == "array":
        ak = b.get("ak", "float64")
        if ak == "list":
            return np.array(b["v"]).reshape(b["shape"]).tolist()
        if ak == "tensor":
            return mg.tensor(np.array(b["v"]).reshape(b["shape"]), constant=True)
        return np.array(b["v"], dtype=np.dtype(ak)).reshape(b["shape"])
    return slots[b["slot"]]


def _call_clip(p, ts):
    return mg.clip(ts[0], _clip_arg(p["amin"], ts), _clip_arg(p["amax"], ts))


def _oracle_clip(case, sv, out, g):
    p = case["params"]
    lo, hi = _clip_bounds(p, sv)
    a = sv[0]
    shape = np.broadcast_shapes(a.shape, np.shape(lo) if lo is not None else (), np.shape(hi) if hi is not None else ())
    if tuple(shape) != tuple(g.shape):
        return None
    one = np.ones(shape)
    m = np.broadcast_to(a, shape).astype(F64)
    da, dlo = one.copy(), np.zeros(shape)
    if lo is not None:
        lo_b = np.broadcast_to(np.asarray(lo, dtype=F64), shape)
        da = (m > lo_b).astype(F64)  # ties: zero to both (documented Maximum/Minimum convention)
        dlo = (lo_b > m).astype(F64)
        m = np.maximum(lo_b, m)
    dhi = np.zeros(shape)
    if hi is not None:
        hi_b = np.broadcast_to(np.asarray(hi, dtype=F64), shape)
        keep = (m < hi_b).astype(F64)
        dhi = (hi_b < m).astype(F64)
        da, dlo = da * keep, dlo * keep

    def red(v, tshape):
        v = v * g
        while v.ndim > len(tshape):
            v = v.sum(axis=0)
        for i, d in enumerate(tshape):
            if d == 1 and v.shape[i] != 1:
                v = v.sum(axis=i, keepdims=True)
        return v.ravel()

    per = [red(da, a.shape)]
    for nm, d in (("amin", dlo), ("amax", dhi)):
        if p[nm] is not None and p[nm]["k"] == "tensor":
            per.append(red(d, sv[p[nm]["slot"]].shape))
    return per, True


family("clip", ["Maximum", "Minimum"], "custom", _call_clip, oracle=_oracle_clip)(_gen_clip)


def _gen_norm(rng, small):
    for _ in range(200):
        shape = rshape(rng, small, min_nd=1, max_nd=3, allow0=False, cap=24)
        nd = len(shape)
        ordv = rng.choice([None, None, 1, 2, 3, 0.5, -1, 1.5, 2.0, -2.5])
        k = rng.choice(["none", "int", "neg", "tup1"])
        fl = set()
        if k == "none":
            if nd > 1 and ordv is not None:
                continue
            ax = None
        elif k == "int":
            ax = rng.randrange(nd)
            fl.add("axis=int")
        elif k == "neg":
            ax = -1 - rng.randrange(nd)
            fl.add("axis=neg")
        else:
            ax = [rng.randrange(-nd, nd)]
            fl.add("axis=tuple")
        kd = rng.random() < 0.4
        if kd:
            fl.add("keepdims")
        sp = rng.choice(["bool", "bool", "bool", "int"])
        if sp != "bool":
            fl.add("keepdims-kind=" + sp)
        fl.add(f"ord={ordv}")
        return mk({"ord": ordv, "axis": ax, "keepdims": kd, "kd_spell": sp},
                  [opd(rng, shape, small=small, kind="float", away=0.25)], fl)
    raise RuntimeError


family("norm", ["Norm"], "numeric",
       lambda p, ts: mg.linalg.norm(ts[0], ord=p["ord"], axis=dec_axis(p["axis"]), keepdims=dec_kd(p)),
       exact=False, weight=1.5)(_gen_norm)


def _gen_softmax(rng, small):
    shape = rshape(rng, small, max_nd=3, cap=24)
    nd = len(shape)
    k = rng.choice(["default", "none", "int", "neg", "tuple"]) if nd else rng.choice(["default", "none"])
    fl = set()
    if k == "default":
        ax = -1
    elif k == "none":
        ax = None
        fl.add("axis=None")
    elif k == "int":
        ax = rng.randrange(nd)
        fl.add("axis=int")
    elif k == "neg":
        ax = -1 - rng.randrange(nd)
        fl.add("axis=neg")
    else:
        ax = rng.sample(range(nd), rng.randint(1, nd))
        fl.add("axis=tuple")
    return mk({"axis": ax}, [opd(rng, shape, small=small, kind="float")], fl)


family("softmax", ["Softmax"], "numeric", lambda p, ts: nn.softmax(ts[0], axis=dec_axis(p["axis"])), exact=False)(_gen_softmax)
family("logsoftmax", ["LogSoftmax"], "numeric", lambda p, ts: nn.logsoftmax(ts[0], axis=dec_axis(p["axis"])), exact=False)(_gen_softmax)


def _gen_glu(rng, small):
    shape = rshape(rng, small, min_nd=1, max_nd=3, allow0=False, cap=24)
    ax = rng.randrange(-len(shape), len(shape))
    shape[ax] = rng.choice([2, 4])
    return mk({"axis": ax}, [opd(rng, shape, small=small, kind="float")], {"axis=neg"} if ax < 0 else set())


family("glu", ["GetItem"], "numeric", lambda p, ts: nn.glu(ts[0], axis=p["axis"]), exact=False, weight=0.4)(_gen_glu)


def _gen_xy(rng, small, probs=False):
    N, C = rng.choice([1, 2, 3]), rng.choice([1, 2, 3, 4])
    y = [rng.randrange(C) for _ in range(N)]
    if probs:
        vals = []
        for _ in range(N):
            r = [rng.uniform(0.1, 1.0) for _ in range(C)]
            vals += [round(v / (sum(r) * 1.05), 4) for v in r]
        x = opd(rng, [N, C], vals=vals, small=small)
    else:
        x = opd(rng, [N, C], small=small, kind="float")
    return x, y, N, C


def _gen_sce(rng, small):
    x, y, N, C = _gen_xy(rng, small)
    ydt = rng.choice(Y_KINDS)
    return mk({"y": y, "ydt": ydt}, [x], {"labels=" + ydt} if ydt != "int64" else set())


def _y(p):
    dt = p.get("ydt", "int64")
    if dt == "list":
        return [int(v) for v in p["y"]]
    if dt == "tensor":
        return mg.tensor(np.array(p["y"]), constant=True)
    return np.array(p["y"], dtype=np.dtype(dt))


Y_KINDS = ("int64", "int64", "int32", "uint8", "int8", "list", "tensor")


family("softmax_crossentropy", ["SoftmaxCrossEntropy"], "numeric", lambda p, ts: nn.softmax_crossentropy(ts[0], _y(p)), exact=False)(_gen_sce)


def _gen_hinge(rng, small):
    for _ in range(100):
        x, y, N, C = _gen_xy(rng, small)
        hinge = rng.choice([1.0, 0.5, 2.0])
        a = np.array(x["vals"]).reshape(N, C)
        M = a - a[range(N), y][:, None] + hinge
        M[range(N), y] = 1.0
        if np.abs(M).min() < 0.02:
            continue
        ydt = rng.choice(Y_KINDS)
        return mk({"y": y, "hinge": hinge, "ydt": ydt}, [x],
                  ({"hinge"} if hinge != 1.0 else set()) | ({"labels=" + ydt} if ydt != "int64" else set()))
    raise RuntimeError


family("multiclass_hinge", ["MulticlassHinge"], "numeric", lambda p, ts: nn.multiclass_hinge(ts[0], _y(p), hinge=p["hinge"]), exact=False)(_gen_hinge)


def _dec_my(p):
    yk = p.get("yk", "array")
    if yk == "list":
        return p["y"]
    if yk == "int8":
        return np.array(p["y"], dtype=np.int8)
    if yk == "float":
        return np.array(p["y"], dtype=float)
    if yk == "tensor":
        return mg.tensor(np.array(p["y"]), constant=True)
    return np.array(p["y"])


def _gen_margin(rng, small):
    for _ in range(100):
        N = rng.choice([1, 2, 3])
        D = rng.choice([None, 1, 2])
        shape = [N] if D is None else [N, D]
        x1 = opd(rng, shape, small=small, kind="float")
        x2 = opd(rng, shape, small=small, kind="float")
        ysc = rng.random() < 0.4
        y = rng.choice([-1, 1]) if ysc else [rng.choice([-1, 1]) for _ in range(N)]
        margin = rng.choice([0.0, 0.5, 1.0])
        yy = np.array(y, dtype=float)
        if yy.ndim and D is not None:
            yy = yy.reshape(-1, 1)
        M = margin - yy * (np.array(x1["vals"]).reshape(shape) - np.array(x2["vals"]).reshape(shape))
        if np.abs(M).min() < 0.02:
            continue
        yk = rng.choice(["array", "array", "list", "int8", "float", "tensor"])
        return mk({"y": y, "margin": margin, "yk": yk}, [x1, x2],
                  ({"y-scalar"} if ysc else set()) | ({"y=" + yk} if yk != "array" else set()))
    raise RuntimeError


family("margin_ranking_loss", ["MarginRanking"], "numeric",
       lambda p, ts: nn.margin_ranking_loss(ts[0], ts[1], _dec_my(p), p["margin"]), exact=False)(_gen_margin)


def _gen_focal(soft):
    def gen(rng, small):
        x, y, N, C = _gen_xy(rng, small, probs=not soft)
        alpha = rng.choice([1, 0.5, 2.0])
        gamma = rng.choice([0, 0, 1, 0.5, 2, 3.5])
        ydt = rng.choice(Y_KINDS)
        return mk({"y": y, "alpha": alpha, "gamma": gamma, "ydt": ydt}, [x],
                  {f"gamma={gamma}"} | ({"labels=" + ydt} if ydt != "int64" else set()))

    return gen


family("focal_loss", ["FocalLoss"], "numeric", lambda p, ts: nn.focal_loss(ts[0], _y(p), alpha=p["alpha"], gamma=p["gamma"]), exact=False)(_gen_focal(False))
family("softmax_focal_loss", ["FocalLoss", "Softmax"], "numeric",
       lambda p, ts: nn.softmax_focal_loss(ts[0], _y(p), alpha=p["alpha"], gamma=p["gamma"]), exact=False)(_gen_focal(True))


def _gen_nll(rng, small):
    x, y, N, C = _gen_xy(rng, small)
    w = None if rng.random() < 0.5 else [round(rng.uniform(0.2, 2), 2) for _ in range(C)]
    ydt = rng.choice(Y_KINDS)
    return mk({"y": y, "w": w, "ydt": ydt}, [x], ({"weights"} if w else set()) | ({"labels=" + ydt} if ydt != "int64" else set()))


family("negative_log_likelihood", ["GetItem", "Mean"], "numeric",
       lambda p, ts: nn.negative_log_likelihood(ts[0], _y(p), weights=None if p["w"] is None else np.array(p["w"])),
       exact=False, weight=0.5)(_gen_nll)


def _gen_batchnorm(rng, small):
    nd = rng.choice([2, 3, 4])
    shape = [rng.choice([2, 3]), rng.choice([1, 2, 3])] + [rng.choice([1, 2]) for _ in range(nd - 2)]
    C = shape[1]
    ops = [opd(rng, shape, small=small, kind="float")]
    P = {"eps": rng.choice([1e-8, 1e-3, 0.1]), "gamma": None, "beta": None}
    fl = set()
    for nm in ("gamma", "beta"):
        if rng.random() < 0.6:
            P[nm] = len(ops)
            ops.append(opd(rng, [C], small=small, kind="float", away=0.2))
            fl.add(nm)
    return mk(P, ops, fl)


def _call_batchnorm(p, ts):
    return nn.batchnorm(ts[0], gamma=None if p["gamma"] is None else ts[p["gamma"]],
                        beta=None if p["beta"] is None else ts[p["beta"]], eps=p["eps"])


family("batchnorm", ["BatchNorm"], "numeric", _call_batchnorm, exact=False)(_gen_batchnorm)


def _gen_gru(rng, small):
    T, N, C, D = rng.choice([1, 2, 3]), rng.choice([1, 2]), rng.choice([1, 2]), rng.choice([1, 2])
    shapes = [[T, N, C]] + [[C, D], [D, D], [D]] * 3
    ops = [opd(rng, s, small=small, kind="float", lo=-1, hi=1, layout="C") for s in shapes]
    s0 = None if rng.random() < 0.5 else fvals(rng, N * D, -1, 1)
    return mk({"s0": s0, "N": N, "D": D}, ops, {"s0"} if s0 else set())


def _call_gru(p, ts):
    s0 = None if p["s0"] is None else np.array(p["s0"], dtype=F64).reshape(p["N"], p["D"])
    return nn.gru(*ts, s0=s0)


family("gru", ["GRUnit"], "numeric", _call_gru, exact=False, slow=True, weight=0.3)(_gen_gru)


def _gen_max_pool(rng, small):
    for _ in range(300):
        npool = rng.choice([1, 1, 2])
        lead = rshape(rng, True, max_nd=2, allow0=False, cap=6)
        pool = [rng.choice([1, 2, 3]) for _ in range(npool)]
        st = [rng.choice([1, 1, 2, 3]) for _ in range(npool)]
        X = [rng.choice([2, 3, 4, 5]) for _ in range(npool)]
        if not all(x >= w and (x - w) % s == 0 for x, w, s in zip(X, pool, st)):
            continue
        tup = rng.random() < 0.5
        if not tup and len(set(st)) > 1:
            continue
        fl = set()
        if any(s < w for s, w in zip(st, pool)):
            fl.add("overlap")
        if npool == 2:
            fl.add("2d")
        ties = rng.random() < 0.5
        if ties:
            fl.add("ties")
        shape = lead + X
        vals = ivals(rng, prod_(shape), 0, 2) if ties else ivals(rng, prod_(shape), -9, 9)
        return mk({"pool": pool, "stride": st if tup else st[0]}, [opd(rng, shape, vals=vals, small=small)], fl)
    raise RuntimeError


def _oracle_max_pool(case, sv, out, g):
    from numpy.lib.stride_tricks import sliding_window_view as swv

    x = sv[0]
    p = case["params"]
    pool = p["pool"]
    npool = len(pool)
    st = p["stride"] if isinstance(p["stride"], list) else [p["stride"]] * npool
    lab = np.arange(x.size).reshape(x.shape)
    axes = tuple(range(x.ndim - npool, x.ndim))
    w = swv(lab, tuple(pool), axis=axes)  # (lead..., G..., P...)
    sl = (slice(None),) * (x.ndim - npool) + tuple(slice(None, None, s) for s in st)
    w = w[sl]
    w = w.reshape(w.shape[: x.ndim] + (-1,))
    if tuple(w.shape[:-1]) != tuple(g.shape):
        return None
    acc = np.zeros(x.size)
    xf = x.ravel()
    wf = w.reshape(-1, w.shape[-1])
    gf = g.ravel()
    for j in range(wf.shape[0]):
        k = int(np.argmax(xf[wf[j]]))
        acc[wf[j, k]] += gf[j]
    return [acc], True


family("max_pool", ["MaxPoolND"], "custom",
       lambda p, ts: nn.max_pool(ts[0], tuple(p["pool"]), dec_axis(p["stride"])), oracle=_oracle_max_pool)(_gen_max_pool)

# ------------------------------------------------------------------------------------------------ model ties beyond scatter / matT

SIG_NAME = {"clip": "Clip", "glu": "GLU", "negative_log_likelihood": "NegativeLogLikelihood", "ufunc_tail": "UfuncTail",
            "multi_matmul": "MultiMatMul", "softmax_focal_loss": "SoftmaxFocalLoss", "applymask_direct": "ApplyMask",
            "unview_direct": "UnView", "setitem_view": "SetItem+UnView"}


def sig_name(fam):
    return SIG_NAME.get(fam.name, fam.ops[0])


def lean_extra(fam, case, grads, g, err):
    """family-specific statements for the Lean model, each paired with the observation of the REAL backward"""
    if err is not None or any(gr is None for gr in grads) or not is_integral(g):
        return []
    p = case["params"]
    name = fam.name
    out = []
    try:
        if name == "setitem" and case["alias"] == [0, 1]:
            shape = case["ops"][0]["shape"]
            n = prod_(shape)
            lab = np.asarray(np.arange(n).reshape(shape)[dec_index(p["idx"], p["wrap"])])
            if 0 < n <= LEAN_MAX_N and list(lab.shape) == case["ops"][1]["shape"] and is_integral(grads[0]) and is_integral(grads[1]):
                out.append([f"lin setitem 1 {n} {ints(lab)} {ints(g)}", f"a={ints(grads[0])} b={ints(grads[1])}"])
        elif name == "cumsum" and (len(case["ops"][0]["shape"]) == 1 or p["axis"] is None) and 0 < g.size <= LEAN_MAX_N:
            out.append([f"lin rcumsum {ints(g)}", ints(grads[0])])
        elif name == "where" and case["alias"] == [0, 1] \
                and case["ops"][0]["shape"] == case["ops"][1]["shape"] == p["cond"]["shape"] and 0 < g.size <= LEAN_MAX_N:
            truth = (arg_values(p["cond"]) != 0).astype(int)  # NumPy's truthiness is the semantics of the forward pass
            out.append([f"lin mask {ints(truth)} {ints(g)}", f"t={ints(grads[0])} f={ints(grads[1])}"])
        elif name == "transpose" and p["axes"] is not None and len(p["axes"]) > 1:
            x = mg.tensor(make_array(case["ops"][0]).astype(F64))
            o = _call_transpose(p, [x])
            labg = np.arange(o.size, dtype=F64).reshape(o.shape)
            real = np.asarray(o.creator.backward_var(labg, 0))
            nd = len(p["axes"])
            # with pairwise distinct extents the permutation applied by the real backward_var can be read off the shapes
            if real.size and len(set(labg.shape)) == nd:
                q = [list(labg.shape).index(d) for d in real.shape]
                if np.array_equal(real, labg.transpose(q)):
                    out.append([f"lin argsort {nd} {ints(p['axes'])}", ",".join(map(str, q))])
        elif name == "ufunc_tail" and p["mode"] == "plain" and p["f"] == "add":
            gs = list(g.shape)
            for t in (0, 1):
                vs = case["ops"][t]["shape"]
                if g.size <= 4 * LEAN_MAX_N and is_integral(grads[t]):
                    out.append([f"lin rb {ints(vs)} {ints(gs)} {ints(g)}", ints(grads[t])])
                    out.append([f"lin bidx {ints(vs)} {ints(gs)}",
                                ints(np.broadcast_to(np.arange(prod_(vs)).reshape(vs), gs))])
    except Exception:
        return []
    return out


# ------------------------------------------------------------------------------------------------ running


def gen_case(fam, seed, k, small=False, salt="run"):
    rng = random.Random(f"{seed}:C02s:{salt}:{fam.name}:{k}")
    case = fam.gen(rng, small)
    case["fam"] = fam.name
    case["gseed"] = k
    if not fam.exact and fam.kind == "numeric":
        case["g_float"] = True
    return case


def eval_case(fam, case, want_lean=True):
    """-> record (JSON-able, small)"""
    rec = {"fam": fam.name, "flags": case["flags"], "status": "ok", "fails": [], "lean": [], "creator": None, "oracle": None}
    try:
        r = check_case(fam, case, want_lean)
    except ForwardRejected as e:
        rec["status"] = "rejected"
        rec["why"] = str(e)[:120]
        return rec
    except Exception:
        rec["status"] = "harness-error"
        rec["why"] = fmt_exc()[-600:]
        rec["case"] = case
        return rec
    info = r["info"]
    rec["creator"], rec["oracle"], rec["fallback"] = info["creator"], info.get("oracle"), info.get("fallback")
    if info["discard"]:
        rec["status"] = "discarded"
        return rec
    rec["lean"] = [[l[0], l[2]] for l in r["lean"]]
    if want_lean:
        arrs = None
        try:
            # re-run the real op once more for the family-specific ties (cheap)
            _, g2, grads2, _, err2 = run_real(fam, case)
            rec["lean"] += lean_extra(fam, case, grads2, g2, err2)
        except Exception:
            pass
    if r["fails"]:
        c = dict(case)
        c["g"] = jsonable(r["g"].ravel())
        c["g_shape"] = list(r["g"].shape)
        rec["fails"] = r["fails"]
        rec["case"] = c
    rec["key"] = stable_hash([fam.name, case["params"], [(o["shape"], o["layout"], o["dtype"]) for o in case["ops"]], case["alias"]])
    rec["nontrivial"] = bool(info["out_size"] > 0 and any(prod_(o["shape"]) > 1 for o in case["ops"]))
    return rec


def work(item):
    seed, name, ks, lean_mod = item
    fam = FAM[name]
    out = []
    for k in ks:
        try:
            case = gen_case(fam, seed, k, small=(k % 4 == 3))
        except Exception:
            out.append({"fam": name, "flags": [], "status": "harness-error", "why": fmt_exc()[-600:], "fails": [], "lean": []})
            continue
        out.append(eval_case(fam, case, want_lean=(k % lean_mod == 0)))
    return aggregate(out)


def aggregate(recs):
    """per-worker summary (keeps the result small however many configurations ran)"""
    a = {"n": 0, "families": {}, "flags": {}, "oracle": {}, "status": {}, "creators": {}, "fallbacks": {}, "keys": set(),
         "lean": [], "errors": [], "groups": {}, "samples": []}

    def inc(d, k):
        d[k] = d.get(k, 0) + 1

    per_flagset = {}
    for r in recs:
        a["n"] += 1
        st = r["status"]
        inc(a["status"], st)
        fs = a["families"].setdefault(r["fam"], {"ok": 0, "rejected": 0, "discarded": 0, "failing": 0})
        if st == "harness-error":
            a["errors"].append({"family": r["fam"], "trace": r.get("why"), "case": r.get("case")})
            continue
        if st != "ok":
            inc(fs, st)
            continue
        fs["ok"] += 1
        for f in r["flags"]:
            inc(a["flags"], f)
        inc(a["oracle"], r["oracle"])
        inc(a["creators"], str(r["creator"]))
        if r.get("fallback"):
            inc(a["fallbacks"], f"{r['fam']}:{r['fallback']}")
        if r.get("nontrivial"):
            a["keys"].add(r["key"])
        for l in r["lean"]:
            a["lean"].append((l[0], l[1], r["fam"]))
        if r["fails"]:
            fs["failing"] += 1
            for f in r["fails"]:
                key = (r["fam"], f["operand"], f["failkind"])
                fk = key + (tuple(r["flags"]),)
                per_flagset[fk] = per_flagset.get(fk, 0) + 1
                if per_flagset[fk] <= 2:
                    a["groups"].setdefault(key, []).append((r["case"], f))
        elif len(a["samples"]) < 3 and r.get("nontrivial") and len(r["flags"]) >= 2:
            a["samples"].append({"family": r["fam"], "flags": r["flags"], "oracle": r["oracle"], "creator": r["creator"]})
    return a


N_SHRINK = 700


def _still_fails(fam, case, operand, failkind):
    try:
        r = check_case(fam, case, want_lean=False)
    except Exception:
        return None
    for f in r["fails"]:
        if f["operand"] == operand and f["failkind"] == failkind:
            return f, r["g"]
    return None


def _ones_g(fam, case, operand, failkind, g):
    """canonical cotangent: all ones if that still fails, else the one that failed"""
    c1 = dict(case)
    c1["g"] = [1.0] * int(g.size)
    c1["g_shape"] = list(g.shape)
    r1 = _still_fails(fam, c1, operand, failkind)
    if r1:
        return c1, r1[0]
    c = dict(case)
    c["g"] = jsonable(g.ravel())
    c["g_shape"] = list(g.shape)
    r0 = _still_fails(fam, c, operand, failkind)
    return (c, r0[0]) if r0 else None


def simplify(fam, case, operand, failkind):
    """feature-monotone local simplifications of a failing case (each kept only if the same failure persists):
    contiguous float64 operands, non-negative axes, keepdims=False"""
    cur = json.loads(json.dumps(case, default=str))
    cur["g"] = None
    if not _still_fails(fam, cur, operand, failkind):
        cur = json.loads(json.dumps(case, default=str))

    def attempt(edit, drop):
        nonlocal cur
        c = json.loads(json.dumps(cur))
        if not edit(c):
            return
        c["flags"] = sorted(set(c["flags"]) - set(drop))
        if _still_fails(fam, c, operand, failkind):
            cur = c

    def e_layout(c):
        ch = False
        for o in c["ops"]:
            if o["layout"] != "C":
                o["layout"] = "C"
                ch = True
        return ch

    def e_dtype(c):
        ch = False
        for o in c["ops"]:
            if o["dtype"] != "float64":
                o["dtype"] = "float64"
                ch = True
        return ch

    def e_axis(c):
        p = c["params"]
        nd = len(c["ops"][0]["shape"])
        if "axis" not in p or p["axis"] is None or nd == 0:
            return False
        a = p["axis"]
        if isinstance(a, dict):
            return False
        if isinstance(a, list):
            if not any(isinstance(i, int) and i < 0 for i in a):
                return False
            p["axis"] = [i % nd for i in a]
        elif isinstance(a, int) and a < 0:
            p["axis"] = a % nd
            c["flags"] = sorted(set(c["flags"]) | {"axis=int"})  # a negative axis simplifies to a non-negative one
        else:
            return False
        return True

    def e_keepdims(c):
        if c["params"].get("keepdims"):
            c["params"]["keepdims"] = False
            return True
        return False

    def e_npaxis(c):
        if isinstance(c["params"].get("axis"), dict):
            c["params"]["axis"] = c["params"]["axis"]["np"]
            return True
        return False

    attempt(e_npaxis, ["axis-kind=npint"])
    attempt(e_layout, ["noncontig"])
    attempt(e_dtype, ["f32"])
    attempt(e_axis, ["axis=neg"])
    attempt(e_keepdims, ["keepdims"])
    r = _still_fails(fam, cur, operand, failkind)
    if not r:
        return None
    res = _ones_g(fam, cur, operand, failkind, r[1])
    if not res:
        return None
    c, f = res
    return (c["flags"], sum(prod_(o["shape"]) for o in c["ops"]), c, f)


def shrink_table(item):
    """evaluate the family's small-size distribution once, and locally simplify the failing representatives;
    -> failing small cases [(flags, size, case, fail)]"""
    name, operand, failkind, reps = item
    fam = FAM[name]
    res = []
    for rep in reps:
        t = simplify(fam, rep, operand, failkind)
        if t:
            res.append(t)
    for k in range(N_SHRINK):
        try:
            case = gen_case(fam, 0, k, small=True, salt="shrink")
            case["g"] = None
            r = _still_fails(fam, case, operand, failkind)
        except Exception:
            continue
        if r:
            got = _ones_g(fam, case, operand, failkind, r[1])
            if got:
                c, f = got
                res.append((case["flags"], sum(prod_(o["shape"]) for o in case["ops"]), c, f))
    return ((name, operand, failkind), res)


def describe(case):
    ops = "; ".join(f"x{i}: shape={o['shape']} layout={o['layout']} dtype={o['dtype']} vals={o['vals']}" for i, o in enumerate(case["ops"]))
    return f"family={case['fam']} params={json.dumps(case['params'])} operands[{ops}] slots={case['alias']}"


WITNESSES = [
    # F1 / witness of MG.C02.setitem_vjp_neg: x[np.array([0,0], dtype=int32)] = b
    ("setitem", {"params": {"idx": [["a", "int32", [0, 0]]], "wrap": False, "view": None},
                 "ops": [{"shape": [2], "vals": [0, 0], "layout": "C", "dtype": "float64"},
                         {"shape": [2], "vals": [1, 1], "layout": "C", "dtype": "float64"}],
                 "alias": [0, 1], "flags": ["idx-narrow-int", "int-array", "repeated"], "g": [10.0, 7.0], "g_shape": [2]}),
    # F13: mg.sum(mg.tensor(1.0), axis=0).backward()
    ("sum", {"params": {"axis": 0, "keepdims": False}, "ops": [{"shape": [], "vals": [1], "layout": "C", "dtype": "float64"}],
             "alias": [0], "flags": ["0d", "axis=int"], "g": [1.0], "g_shape": []}),
    # F14: mg.max / mg.min(empty, axis=()).backward()
    ("max", {"params": {"axis": [], "keepdims": False}, "ops": [{"shape": [0], "vals": [], "layout": "C", "dtype": "float64"}],
             "alias": [0], "flags": ["axis=()", "empty"], "g": [], "g_shape": [0]}),
    ("min", {"params": {"axis": [], "keepdims": False}, "ops": [{"shape": [0], "vals": [], "layout": "C", "dtype": "float64"}],
             "alias": [0], "flags": ["axis=()", "empty"], "g": [], "g_shape": [0]}),
]


def probes():
    """options the registry says exist but no public entry point exposes: if that changes they become obligations"""
    out = []
    x = mg.tensor([[1.0, 2.0], [3.0, 4.0]])
    for f in (mg.sum, mg.mean, mg.prod, mg.max, mg.min, mg.var, mg.std):
        for kw in ({"where": np.array([[True, False], [True, True]])}, {"dtype": np.float32}, {"initial": 0.0}):
            try:
                f(x, **kw)
                out.append(f"{f.__name__}(**{sorted(kw)}) is now accepted")
            except TypeError:
                pass
            except Exception as e:
                out.append(f"{f.__name__}(**{sorted(kw)}) raised {type(e).__name__}")
    try:
        mg.matmul(x, x, where=np.array([True, False]))
        out.append("matmul(where=) is now accepted")
    except Exception:
        pass
    return out


def run(ctx: Ctx) -> Outcome:
    out = Outcome()
    out.rule = ("struct stratum: for every non-element-wise Operation subclass discovered in the registry, seeded configurations "
                "(shapes <= 4-d, sizes 0..4, 0-d/empty/non-contiguous/float32 operands, positive/negative/tuple/empty axes, keepdims, "
                "ddof, index expressions of 5 integer dtypes with repeats, boolean masks, broadcasting of every operand, aliasing of "
                "operands); the real op is called through its public function, backward(g) is run with a random integer cotangent and "
                "the .grad of every operand is compared with the exact VJP (index map / integer matrix recovered from the real forward "
                "and transposed by NumPy and by the Lean driver; exact Fraction / selection oracles; Richardson differences with a "
                "2e-6 gate for transcendental ops).  non-trivial = non-empty output and an operand with > 1 element; distinct by "
                "(family, parameters, shapes, layouts, dtypes, aliasing).")
    reg = discover_ops()
    covered = {o for f in FAM.values() for o in f.ops}
    for name, kind in sorted(reg.items()):
        if kind == "struct" and name not in covered:
            out.corr_breaks.append(CorrBreak("unmodelled operation", {
                "op": name, "note": "a non-element-wise Operation subclass is registered in MyGrad but no family of "
                                    "harness/props/c02_struct.py exercises it: its VJP is an undischarged obligation"}))
    for msg in probes():
        out.corr_breaks.append(CorrBreak("unmodelled option", {"note": msg}))
    boost = 2 if ctx.lean_broken else 1
    base = ctx.n(250, 15000) * boost
    lean_mod = 1 if not ctx.thorough else 10  # thorough: every 10th configuration also goes through the Lean driver
    items = []
    for name, fam in FAM.items():
        n = max(8, int(base * fam.weight))
        ks = list(range(n))
        if fam.slow:
            items.insert(0, (ctx.seed, name, ks, lean_mod))  # one worker pays the numba compilation once
        else:
            step = 60
            items += [(ctx.seed, name, ks[i:i + step], lean_mod) for i in range(0, n, step)]
    slow = [i for i in items if FAM[i[1]].slow]
    rest = [i for i in items if not FAM[i[1]].slow]
    random.Random(ctx.seed).shuffle(rest)
    aggs = pmap(work, slow + rest)
    # fixed witnesses (of the _neg theorem and of the defects reproduced at design time)
    wrecs = []
    for name, case in WITNESSES:
        c = dict(case)
        c["fam"] = name
        wrecs.append(eval_case(FAM[name], c))
    aggs.append(aggregate(wrecs))

    stats = {"families": {}, "flags": {}, "oracle": {}, "status": {}, "creators": {}, "fallbacks": {}}
    lean_lines = []
    groups = {}
    for a in aggs:
        out.evaluations += a["n"]
        for k in ("flags", "oracle", "status", "creators", "fallbacks"):
            for kk, vv in a[k].items():
                stats[k][kk] = stats[k].get(kk, 0) + vv
        for fam_, d in a["families"].items():
            fs = stats["families"].setdefault(fam_, {})
            for kk, vv in d.items():
                fs[kk] = fs.get(kk, 0) + vv
        out.nontrivial.update(a["keys"])
        lean_lines += a["lean"]
        for e in a["errors"]:
            if len(out.corr_breaks) < 20:
                out.corr_breaks.append(CorrBreak("harness error", e))
        for key, members in a["groups"].items():
            groups.setdefault(key, []).extend(members)
        for smp in a["samples"]:
            if len(out.samples) < 6 and smp["family"] not in [x.get("family") for x in out.samples]:
                out.samples.append(smp)
    missing = sorted(n for n, k in reg.items() if k == "struct" and n in covered and n not in stats["creators"]
                     and n not in ("Maximum", "Minimum"))
    stats["struct_ops_in_registry"] = sorted(n for n, k in reg.items() if k == "struct")
    stats["struct_ops_never_created"] = missing

    # ---- Lean driver: same statements, observations of the real backward
    bad_lean = []
    if lean_lines:
        try:
            obs = run_driver([l[0] for l in lean_lines])
            for (line, exp, fam), o in zip(lean_lines, obs):
                if o != exp:
                    bad_lean.append({"family": fam, "statement": line[:400], "model": o[:200], "implementation": exp[:200]})
        except Exception as e:
            out.corr_breaks.append(CorrBreak("Lean driver failed", {"error": str(e)[-800:]}))
    out.traces_validated = len(lean_lines)
    stats["lean_statements"] = len(lean_lines)
    stats["lean_disagreements"] = len(bad_lean)

    # ---- shrink, sign, report
    def reps_of(members):
        seen, reps = set(), []
        for case, _ in members:
            fl = frozenset(case["flags"])
            if fl not in seen and len(reps) < 12:
                seen.add(fl)
                reps.append(case)
        return reps

    tables = dict(pmap(shrink_table, [k + (reps_of(groups[k]),) for k in sorted(groups)])) if groups else {}
    failing_fams = set()
    for key, members in sorted(groups.items()):
        name, operand, failkind = key
        fam = FAM[name]
        failing_fams.add(name)
        table = tables.get(key, [])
        seen_flagsets = set()
        for case, f in members:
            fl = frozenset(case["flags"])
            if fl in seen_flagsets:
                continue
            seen_flagsets.add(fl)
            cands = [t for t in table if set(t[0]) <= fl]
            if cands:
                flags, _, mcase, mf = min(cands, key=lambda t: (len(t[0]), t[1], len(json.dumps(t[2], default=str))))
            else:
                flags, mcase, mf = case["flags"], case, f
            sig = f"C02|struct|{sig_name(fam)}|operand{operand}|{failkind}:{'+'.join(sorted(flags)) or 'plain'}"
            what = (f"{sig_name(fam)} ({name}): gradient of operand {operand} is not the VJP of the forward pass [{failkind}] for "
                    f"{describe(mcase)} g={mcase.get('g')}: expected {mf['expected']} got {mf['got']}")
            out.violations.append(Violation(sig, what[:1500], {
                "stratum": "struct", "case": mcase, "operand": operand, "failkind": failkind, "expected": mf["expected"],
                "got": mf["got"], "how": describe(mcase)}))
    # a model/implementation disagreement that is not explained by a failing input of the same family is a broken tie
    for b in bad_lean:
        if b["family"] not in failing_fams:
            out.corr_breaks.append(CorrBreak("Lean linear-algebra model vs real backward", b))
    stats["setitem_neg_witness_reproduces"] = any(k[0] == "setitem" and k[1] == 1 for k in groups)
    for k in ("status", "flags", "oracle", "creators", "fallbacks"):
        out.stats["struct_" + k] = stats[k]
    out.stats["struct_lean_statements"] = stats["lean_statements"]
    out.stats["struct_lean_disagreements"] = stats["lean_disagreements"]
    out.extra["struct_families"] = stats["families"]
    out.extra["struct_ops_in_registry"] = stats["struct_ops_in_registry"]
    out.extra["struct_ops_never_created"] = stats["struct_ops_never_created"]
    out.extra["struct_setitem_neg_witness_reproduces"] = stats["setitem_neg_witness_reproduces"]
    out.extra["struct_theorem_coverage"] = COVERAGE
    out.assumptions = [
        "struct: values are small integers held in float64 (exact) for gather/linear/multilinear/selection classes; float rounding of "
        "the transcendental layers is outside the claim (2e-6 relative gate)",
        "struct: Sequential's where=/dtype=/initial= parameters are not reachable through any public entry point (probed every run)",
        "struct: ties of max/min/max_pool are pinned to NumPy's first-arg-max convention",
        "struct: GRU is checked with dropout=0 and no back-propagation truncation",
    ]
    return out


def replay(data) -> bool:
    r = data["replay"]
    case = r["case"]
    fam = FAM[case["fam"]]
    print("replaying:", describe(case))
    print("cotangent g =", case.get("g"), "shape", case.get("g_shape"))
    try:
        res = check_case(fam, case, want_lean=False)
    except ForwardRejected as e:
        print("forward pass rejected:", e)
        return False
    hit = False
    for f in res["fails"]:
        print(f"operand {f['operand']}: {f['failkind']}\n  expected (exact VJP): {f['expected']}\n  got (mygrad)        : {f['got']}")
        if f["operand"] == r["operand"] and f["failkind"] == r["failkind"]:
            hit = True
    if not res["fails"]:
        print("all operand gradients equal the VJP: does not reproduce")
    return hit


COVERAGE = {
    "universal theorem + exact translation validation (index map / matrix recovered from the real forward, real backward == "
    "scatterAdd / A^T g via NumPy and the Lean driver)": [
        "Transpose", "Tensor_Transpose_Property", "MoveAxis", "SwapAxes", "Roll", "Reshape", "Flatten", "Ravel", "Squeeze",
        "ExpandDims", "AtLeast1D", "AtLeast2D", "AtLeast3D", "BroadcastTo", "GetItem", "Concatenate", "Stack", "Repeat", "Where",
        "Sum", "Mean", "CumSum", "AddSequence", "SetItem", "UnView", "ApplyMask", "MatMul (per operand)", "EinSum (per operand)",
        "ConvND (per operand)", "reduce_broadcast / where-mask tail of Operation.backward"],
    "theorem over the reals about the formula the code uses + exact (integer / Fraction) Jacobian oracle": [
        "Prod", "CumProd", "MultiplySequence", "Variance", "StdDev"],
    "theorem over the reals about the formula + numerical oracle": ["Softmax", "LogSoftmax", "Norm"],
    "independent selection oracle only (correspondence-only)": ["Max", "Min", "MaxPoolND", "clip"],
    "numerical oracle only (correspondence-only)": [
        "BatchNorm", "GRUnit", "SoftmaxCrossEntropy", "MulticlassHinge", "MarginRanking", "FocalLoss", "softmax_focal_loss",
        "negative_log_likelihood", "glu"],
}

MANIFEST_TEXT = (
    "Structured stratum: gather_scatter_adjoint (every index map, duplicates accumulate), linear_vjp_is_transpose, adjoint_unique / "
    "vjp_unique (the VJP is determined by the forward pass), reduce_broadcast_adjoint / reduce_broadcast_eq_scatter (the code's "
    "leading-axis sum + keepdims sum is the scatter-add along the broadcast index map, all broadcast-compatible shapes incl. 0-d and "
    "size-0), where_mask_vjp, setitem_vjp (last-write-wins; _neg/_partial for the int-dtype guard), cumsum_adjoint, transpose_inverse / "
    "permutation_vjp_is_inverse are proved in Lean for all inputs; prod (incl. zeros), cumprod (incl. the zero patches), variance, std, "
    "softmax, logsoftmax, norm, multiply_sequence formulas are proved over the reals.  Every non-element-wise Operation in the registry "
    "is run through its public function on seeded configurations and each operand's .grad is compared with the exact VJP.")
MANIFEST_NOTE = (
    "Struct coverage: (1) universal theorems + exact per-configuration translation validation (phi or A recovered from the real forward, "
    "real backward == scatterAdd/A^T g, NumPy and Lean driver): transpose/T/moveaxis/swapaxes/roll/reshape/flatten/ravel/squeeze/"
    "expand_dims/atleast_kd/broadcast_to/getitem/concatenate/stack/repeat/where, sum/mean/cumsum/add_sequence, setitem/UnView/ApplyMask, "
    "matmul/einsum/conv_nd per operand, the where-mask + reduce_broadcast tail; (2) theorems over R about the code's formula + exact "
    "Jacobians: prod, cumprod, multiply_sequence, var, std; + numerical oracle: softmax, logsoftmax, norm; (3) correspondence-only: "
    "max/min/max_pool/clip (selection oracle, ties pinned to first arg-max), batchnorm, gru, all losses, glu (Richardson differences, "
    "2e-6).  The link from an op's configuration to its index map is validated per configuration, not proved; float rounding is not "
    "claimed.  Sequential where=/dtype= are unreachable publicly (probed).")
