"""C12 — operations never modify their inputs, and gradients are never aliased."""
from __future__ import annotations

import gc

import numpy as np

import mygrad as mg

from .. import engcheck, progs
from ..core import Ctx, Outcome, Violation, pmap, stable_hash

ID = "C12"
LEVEL = "proof"
EXTRA_TARGETS = ["MG.DriverEng"]
THEOREMS = {
    "MG.Proofs.C12": [
        "MG.C12.backward_frames_data",
        "MG.C12.op_frames_input_data",
        "MG.C12.stored_grads_are_fresh_objects",
    ]
}

GEN = dict(inplace=True, p_inplace=0.2, p_view=0.3, p_fail=0.0, p_const=0.12, n_stmts=9)
INPLACE = ("set", "aug", "outb", "outu")


class Recording(progs.RealExec):
    """RealExec that keeps every caller-owned array it hands to MyGrad, with a pristine copy"""

    def __init__(self):
        super().__init__()
        self.owned = []  # (description, array, copy)

    def keep(self, what, a):
        a = np.asarray(a) if not isinstance(a, np.ndarray) else a
        self.owned.append((what, a, a.copy()))
        return a

    def operand(self, o):
        x = super().operand(o)
        if isinstance(x, np.ndarray):
            return self.keep("ndarray operand", x)
        return x

    def changed(self):
        for what, a, c in self.owned:
            if a.shape != c.shape or not np.array_equal(a, c):
                return f"{what} changed from {c.tolist()} to {a.tolist()}"
        return None


def oracle(prog, idx):
    if not prog or prog[-1][0] != "back":
        return []
    fails = []
    ex = Recording()
    # caller-owned index arrays, masks and seeds go through key_to_py / back: wrap them
    for st in prog[:-1]:
        data_before = {n: t.data.copy() for n, t in ex.v.items()}
        k = st[0]
        if k == "set" and st[2][0] in ("a", "m"):
            key = ex.keep("index array", progs.key_to_py(st[2]))
            val = ex.operand(st[3])
            try:
                ex.v[st[1]][key] = val
            except Exception:
                pass
        elif k == "take":
            idx_arr = ex.keep("index array", np.array(st[3], dtype=st[4]))
            try:
                ex.v[st[1]] = progs.mg_getitem(ex.operand(st[2]), idx_arr, st[5])
            except Exception:
                pass
        else:
            ex.step(st)
        d = ex.changed()
        if d:
            fails.append(("caller-array-modified", f"`{progs.to_line(st)}`: {d}"))
            return fails
        # a non-in-place statement changes no existing tensor's data
        if k not in INPLACE:
            for n, old in data_before.items():
                if n in ex.v and not np.array_equal(ex.v[n].data, old):
                    fails.append(("input-tensor-modified", f"`{progs.to_line(st)}` changed t{n} from {old.tolist()} to {ex.v[n].data.tolist()}"))
                    return fails
    st = prog[-1]
    L = st[1]
    data_before = {n: t.data.copy() for n, t in ex.v.items()}
    seed = None
    if st[2] is not None:
        sv = np.array(st[2][2], dtype=float).reshape(st[2][1])
        if int(np.abs(sv).sum()) % 2 == 0:  # (decided by the statement itself, so that shrinking keeps the seed kind)
            seed = ex.keep("seed gradient", sv.copy())
        else:
            # a seed that does not own its memory: row 1 of a bigger buffer the caller keeps
            buf = ex.keep("seed gradient (buffer the seed is a view of)", np.stack([sv * 0 + 7.0, sv, sv * 0 - 7.0]))
            seed = buf[1]
    try:
        ex.v[L].backward(seed)
    except Exception:
        return fails
    d = ex.changed()
    if d:
        fails.append(("caller-array-modified", f"backward: {d}"))
        return fails
    for n, old in data_before.items():
        if not np.array_equal(ex.v[n].data, old):
            fails.append(("backward-changed-data", f"backward changed t{n}.data from {old.tolist()} to {ex.v[n].data.tolist()}"))
            return fails
    # aliasing of stored gradients
    names = sorted(ex.v)
    grads = {n: ex.v[n].grad for n in names}
    for i, n in enumerate(names):
        g = grads[n]
        if g is None:
            continue
        if seed is not None and np.shares_memory(g, seed):
            if n == L or ex.v[n].base is ex.v[L]:  # L itself, or a view of it (C06: its gradient is a view of L's)
                if not any(c == "seed-stored-uncopied!" for c, _ in fails):
                    fails.append(("seed-stored-uncopied!", f"t{n}.grad shares memory with the caller's seed array (L.backward(g) stores g itself as L.grad)"))
            else:
                fails.append(("grad-aliases-seed", f"t{n}.grad shares memory with the seed array the caller passed to t{L}.backward()"))
                return fails
        for m in names:
            if np.shares_memory(g, ex.v[m].data):
                fails.append(("grad-aliases-data", f"t{n}.grad shares memory with t{m}.data"))
                return fails
        for m in names[i + 1:]:
            h = grads[m]
            if h is None:
                continue
            if np.shares_memory(g, h) and not np.shares_memory(ex.v[n].data, ex.v[m].data):
                fails.append(("grads-aliased", f"t{n}.grad and t{m}.grad share memory although t{n} and t{m} do not"))
                return fails
    # editing one gradient in place changes another only if the tensors share memory, and never any data
    snap_g = {n: None if g is None else g.copy() for n, g in grads.items()}
    for n in names:
        g = grads[n]
        if g is None or g.size == 0 or not g.flags.writeable:
            continue
        g += 1.0
        for m in names:
            if m == n or grads[m] is None:
                continue
            if not np.array_equal(ex.v[m].grad, snap_g[m]) and not np.shares_memory(ex.v[n].data, ex.v[m].data):
                fails.append(("grad-edit-leaks", f"editing t{n}.grad in place changed t{m}.grad although the tensors share no memory"))
                return fails
        for m, old in data_before.items():
            if not np.array_equal(ex.v[m].data, old):
                fails.append(("grad-edit-changes-data", f"editing t{n}.grad in place changed t{m}.data"))
                return fails
        g -= 1.0
    return fails


# ------------------------------------------------------------------ op level: inputs, index objects, seeds of every op family


class _SpecialRng:
    """a Generator whose `uniform` plants exact zeros (and a repeated value) in ~20% of the positions: lanes with a
    single zero, ties, ... — the value classes on which backward rules patch or special-case their inputs"""

    def __init__(self, rng):
        self._rng = rng

    def __getattr__(self, k):
        return getattr(self._rng, k)

    def uniform(self, low=0.0, high=1.0, size=None):
        a = np.asarray(self._rng.uniform(low, high, size=size))
        if a.ndim and a.size:
            m = self._rng.random(a.shape)
            if low <= 0.0 <= high:
                a[m < 0.12] = 0.0
            a[(m >= 0.12) & (m < 0.2)] = a.reshape(-1)[0]
        return a


def op_case(args):
    if len(args) == 5 and args[4]:
        # memory guarding off (nothing is locked: an op that writes into its inputs is no longer stopped by NumPy),
        # mode 2 additionally with planted zeros / ties
        with mg.mem_guard_off:
            r = _op_case(args[:4], special=args[4] == 2)
        r["args"] = list(args)
        r["name"] += ":guard-off" + ("+zeros" if args[4] == 2 else "")
        return r
    r = _op_case(tuple(args[:4]))
    r["args"] = list(args)
    return r


def _op_case(args, special=False):
    from .c05 import op_cases
    from .c14 import layer_cases

    seed, which, ci, seedkind = args
    rng = np.random.default_rng([seed, ci, 3])
    if special:
        rng = _SpecialRng(rng)
    if which == 0:
        cs = op_cases()
        name, build = cs[ci % len(cs)]
        ins, out = build(rng)
    else:
        cs = layer_cases()
        name, build = cs[ci % len(cs)]
        try:
            ins, out = build(rng, np.float64)
        except Exception:
            return {"name": name, "fails": [], "args": args}
    ins = [t for t in ins if t is not out]
    fails = []
    before = [t.data.copy() for t in ins]
    if seedkind == 0:
        g = np.random.default_rng([seed, 5]).uniform(-1, 1, size=out.shape)
    elif seedkind == 1:
        g = np.random.default_rng([seed, 5]).uniform(-1, 1, size=out.shape)[..., ::-1] if out.ndim else np.array(0.5)  # a non-owning seed
    else:
        g = np.random.default_rng([seed, 5]).uniform(-1, 1, size=out.shape).astype(np.float32)
    g0 = np.array(g, copy=True)
    out_before = out.data.copy()
    out.backward(g)
    if not np.array_equal(np.asarray(g), g0):
        fails.append("the seed array passed to backward(grad) was modified")
    for j, (t, b) in enumerate(zip(ins, before)):
        if not np.array_equal(t.data, b, equal_nan=True):
            fails.append(f"input {j} was modified")
    if not np.array_equal(out.data, out_before, equal_nan=True):
        fails.append("the output's data was modified by backward")
    allg = [(f"input {j}", t) for j, t in enumerate(ins)] + [("output", out)]
    for a, (na, ta) in enumerate(allg):
        if ta.grad is None:
            continue
        if np.shares_memory(ta.grad, np.asarray(g)):
            fails.append(f"grad of {na} shares memory with the caller's seed")
        for nb, tb in allg:
            if np.shares_memory(ta.grad, tb.data):
                fails.append(f"grad of {na} shares memory with data of {nb}")
        for nb, tb in allg[a + 1:]:
            if tb.grad is not None and np.shares_memory(ta.grad, tb.grad) and not np.shares_memory(ta.data, tb.data):
                fails.append(f"grads of {na} and {nb} share memory")
    return {"name": name, "fails": fails, "args": args}


def derived_tensor_cases(only=None):
    """tensors *derived* from one that already holds a gradient (copy(), copy.copy/deepcopy, astype, tensor(x), astensor
    with another dtype, a view): editing the gradient of one in place changes the other's only if the two tensors share
    memory; the derived tensor's data is its own unless it is a view.  -> [(name, message)]"""
    import copy as _copy

    out = []
    makers = [
        ("x.copy()", lambda x: x.copy()),
        ("x.copy(constant=False)", lambda x: x.copy(constant=False)),
        ("copy.copy(x)", lambda x: _copy.copy(x)),
        ("copy.deepcopy(x)", lambda x: _copy.deepcopy(x)),
        ("x.astype(float32)", lambda x: x.astype(np.float32)),
        ("x.astype(float64)", lambda x: x.astype(np.float64)),
        ("mg.tensor(x)", lambda x: mg.tensor(x)),
        ("mg.Tensor(x)", lambda x: mg.Tensor(x)),
        ("mg.astensor(x, dtype=float32)", lambda x: mg.astensor(x, dtype=np.float32)),
        ("x[...]", lambda x: x[...]),
        ("x[1:]", lambda x: x[1:]),
    ]
    for name, mk in makers:
        if only is not None and name != only:
            continue
        for edit in ("derived", "original"):
            x = mg.tensor([1.0, 2.0, 3.0])
            (x * x).sum().backward()
            try:
                y = mk(x)
            except Exception as e:  # noqa: BLE001
                out.append((name, f"raised {type(e).__name__}"))
                break
            gx, gy = x.grad, y.grad
            if gx is None:
                out.append((name, "the original lost its gradient when the derived tensor was made"))
                break
            share_data = bool(np.shares_memory(x.data, y.data))
            if gy is None:
                continue
            gx0, gy0 = np.array(gx), np.array(gy)
            try:
                if edit == "derived":
                    gy[...] = -7.0
                else:
                    gx[...] = -7.0
            except Exception:  # noqa: BLE001  (a read-only gradient cannot be edited: nothing to observe)
                continue
            changed_other = not np.array_equal(x.grad if edit == "derived" else y.grad, gx0 if edit == "derived" else gy0)
            if changed_other and not share_data:
                out.append((name, f"editing the gradient of the {edit} tensor in place changed the other one's although the two "
                            "tensors share no memory"))
                break
            if not np.array_equal(x.data, [1.0, 2.0, 3.0]):
                out.append((name, "editing a gradient changed a tensor's data"))
                break
    return out


def result_update_cases(only=None):
    """an in-place update whose explicit target is the *result* of a function that NumPy documents as returning new
    memory (flatten, copy, astype, repeat, roll, arithmetic, reductions over no axis, advanced indexing): the function's
    input keeps its contents — with tracking on and inside no_autodiff (where the update writes straight into the
    target's array).  -> [(name, message)]"""
    out = []
    makers = [("x.flatten()", lambda x: x.flatten()), ("x.copy()", lambda x: x.copy()), ("x.astype(float64)", lambda x: x.astype(np.float64)),
              ("mg.repeat(x, 1, axis=0)", lambda x: mg.repeat(x, 1, axis=0)), ("mg.roll(x, 0)", lambda x: mg.roll(x, 0)),
              ("+x", lambda x: +x), ("x * 1.0", lambda x: x * 1.0), ("mg.sum(x, axis=())", lambda x: mg.sum(x, axis=())),
              ("x[[0, 1]]", lambda x: x[[0, 1]]), ("mg.concatenate([x])", lambda x: mg.concatenate([x])),
              ("mg.stack([x])[0]-source", lambda x: mg.stack([x])), ("mg.where(True, x, 0.0)", lambda x: mg.where(True, x, 0.0)),
              ("mg.clip(x, None, 100.0)", lambda x: mg.clip(x, None, 100.0)), ("mg.maximum(x, -100.0)", lambda x: mg.maximum(x, -100.0))]
    for (name, mk), layout, untracked in [(m, l, u) for m in makers for l in ("C", "F") for u in (False, True)]:
        nm = f"{name}|{layout}|{'no_autodiff' if untracked else 'tracked'}"
        if only is not None and nm != only:
            continue
        a = np.arange(6.0).reshape(2, 3) + 1
        x = mg.tensor(np.asfortranarray(a) if layout == "F" else a)
        x0 = np.array(x.data)
        try:
            if untracked:
                with mg.no_autodiff:
                    y = mk(x)
                    y *= 2.0
            else:
                y = mk(x)
                y *= 2.0
        except Exception as e:  # noqa: BLE001
            out.append((nm, f"raised {type(e).__name__}: {str(e)[:60]}"))
            continue
        if not np.array_equal(x.data, x0):
            out.append((nm, f"updating the result of {name} in place changed its input from {x0.tolist()} to {x.data.tolist()}"))
    return out


def nontrivial(prog):
    return len(prog) >= 6


def run(ctx: Ctx) -> Outcome:
    n = ctx.n(1000, 6000)
    out, results = engcheck.run_programs(ctx, n, dict(GEN, n_stmts=ctx.n(9, 16)), "oracle", nontrivial)
    out.rule = ("random programs: checksums of every caller-owned array (ndarray operands, index arrays, masks, seed) and of "
                "every tensor's data around every statement and around backward; pairwise shares_memory of all stored "
                "gradients, with all data and with the seed; in-place edit of each .grad observed on all others; plus the same "
                "for 20+19 op/layer families with owning, non-owning and float32 seeds, and again with memory guarding off "
                "(plain values and planted zeros/ties); and tensors derived from one that holds a gradient (copy, deepcopy, astype, "
                "tensor(x), astensor, views): editing one gradient changes the other only if the tensors share memory")
    engcheck.report(out, results, "C12", oracle)
    from .c05 import op_cases
    from .c14 import layer_cases

    items = [(ctx.seed, 0, ci, sk) for ci in range(len(op_cases())) for sk in range(3)]
    gru_first = [(ctx.seed, 1, ci, sk) for ci, (nm, _) in enumerate(layer_cases()) for sk in range(3) if nm == "gru"]
    items = gru_first + items + [(ctx.seed, 1, ci, sk) for ci, (nm, _) in enumerate(layer_cases()) for sk in range(3) if nm != "gru"]
    # the same families with memory guarding off, plain and with planted zeros/ties (owning seed)
    items += [(it[0], it[1], it[2], 0, mode) for it in items if it[3] == 0 for mode in (1, 2)]
    res = pmap(op_case, items)
    seen = set()
    hist = {}
    for r in res:
        _CACHE[tuple(r["args"])] = r
        out.evaluations += 1
        hist[r["name"]] = hist.get(r["name"], 0) + 1
        out.nontrivial.add(stable_hash([r["name"], r["args"][3], (r["args"] + [0])[4]]))
        for f in r["fails"]:
            sig = _sig(r["name"], f)
            if sig not in seen:
                seen.add(sig)
                out.violations.append(Violation(sig, f"{r['name']}: {f}", {"kind": "op", "args": list(r["args"])}))
    out.stats["op_cases"] = hist
    for name, msg in derived_tensor_cases():
        out.violations.append(Violation(f"C12|aliasing|derived:{name}", f"{name}: {msg}", {"kind": "derived", "name": name}))
    rseen = set()
    for name, msg in result_update_cases():
        fam = name.split("|")[0]
        if fam not in rseen:
            rseen.add(fam)
            out.violations.append(Violation(f"C12|input-changed|result-updated:{fam}", f"{name}: {msg}", {"kind": "result-update", "name": name}))
    out.evaluations += 14 * 4
    out.evaluations += 22
    for k in range(22):
        out.nontrivial.add(stable_hash(["derived", k]))
    return out


_CACHE = {}


def _sig(name, f):
    if f == "grad of output shares memory with the caller's seed":
        return "C12|seed-stored-uncopied"  # one family: L.backward(g) keeps g itself as L.grad
    name = name.split(":")[0]  # the family; the run mode (guard off, planted zeros) is in the message and the replay
    cls = "seed-modified" if "seed array" in f else ("input-modified" if "was modified" in f else "aliasing")
    return f"C12|{cls}|{name}"


def check_witness(w):
    r = _CACHE.get(tuple(w["args"])) or op_case(tuple(w["args"]))
    want = w.get("signature")
    for f in r["fails"]:
        if want is None or _sig(r["name"], f) == want:
            return Violation(_sig(r["name"], f), f"{r['name']}: {f}", {"kind": "op", "args": list(w["args"])})
    return None


def replay(data) -> bool:
    r = data["replay"]
    if r.get("kind") == "result-update":
        res = result_update_cases(only=r["name"])
        print(res)
        return bool(res)
    if r.get("kind") == "derived":
        res = derived_tensor_cases(only=r["name"])
        print(res)
        return bool(res)
    if r.get("kind") == "op":
        res = op_case(tuple(r["args"]))
        print(res)
        return bool(res["fails"])
    p = r["program"]
    for st in p:
        print(progs.to_line(st))
    f = oracle(p, 0)
    print("oracle:", f)
    return bool(f)


MANIFEST = {
    "category": "proof",
    "design_ref": "DESIGN.md §5 C12",
    "technique": "Lean 4 frame lemmas on the engine model (backward and non-in-place ops write no buffer; every stored gradient "
                 "is a fresh array object) + correspondence + checksum/aliasing oracle over programs and op families",
    "text": "Proved on the engine model for all programs: backward() — completed, rejected or interrupted — "
            "leaves every array buffer unchanged (backward_frames_data); a non-in-place op leaves every "
            "pre-existing buffer unchanged, writing fresh buffers only (op_frames_input_data); the gradients "
            "backward stores are consecutive fresh array objects, hence pairwise distinct and distinct from "
            "anything that existed (stored_grads_are_fresh_objects). The model is run against MyGrad; the direct "
            "oracle checksums every caller-owned array (operands, index arrays, masks, seeds — owning, non-owning "
            "and of another dtype) and every tensor's data around every call, tests pairwise memory sharing of "
            "all stored gradients with each other, with all data and with the seed (owning seeds and seeds that are "
            "views of a bigger caller buffer), and edits each gradient in place; 39 op/layer families are run again "
            "with memory guarding off, plain and with planted zeros/ties (the value classes on which backward rules "
            "patch their inputs).",
    "note": "Trusted: Lean kernel, standard axioms, correspondence harness. Whether a particular backward_var returns its "
            "argument, a view of it or cached state is measured per op family by the oracle (alias signatures), not modelled in "
            "Lean; ops with hand-written backward (GRU) are covered by the oracle only.",
}

MANIFEST_ADDENDUM = 'Oracle additions: where-masked pass-through ufuncs among the op families; tensors derived from one that holds a gradient (copy, deepcopy, astype, tensor(x), astensor, views): editing one gradient changes the other only if the tensors share memory. Round 6: updating in place the result of a function that returns new memory (flatten, copy, astype, repeat, roll, arithmetic, advanced indexing, ...) leaves the function`s input unchanged, tracked and inside no_autodiff, C- and F-ordered inputs.'
