"""C03 — forward results agree with NumPy in value, shape and dtype.

(i)  tables: the Lean model of NumPy-2 promotion (promote_types, n-ary result_type, can_cast, NEP-50 weak scalars,
     ufunc loop classes, `dtype=`, broadcasting) is checked exhaustively against NumPy itself, and MyGrad's result dtype /
     constant flag / error for every operand-kind x dtype cell of every registered ufunc is compared with the model;
(ii) translation validation: every function / method / operator with a NumPy namesake (discovered from the registries) is
     called on tensors and on the underlying arrays with generated operands and options, tracked and inside no_autodiff;
     values bitwise (NaNs equal), shape and dtype must agree.  NumPy 2 / NEP 50 is the oracle.
"""
from __future__ import annotations

import inspect
import itertools
import operator
import random
import warnings

import numpy as np

import mygrad as mg
import mygrad.tensor_base as tb

from ..core import CorrBreak, Ctx, Outcome, Violation, pmap, stable_hash
from ..dtlib import NP, REAL, ask, dname, exc_class, same_array

warnings.simplefilter("ignore")
np.seterr(all="ignore")

ID = "C03"
LEVEL = "translation_validation"
THEOREMS = {
    "MG.Proofs.C03": [
        "MG.C03.dtype_parity_neg",
        "MG.C03.dtype_parity_partial",
        "MG.C03.dtype_parity_exact",
        "MG.C03.excluded_is_widening",
        "MG.C03.ufunc_parity_exact",
        "MG.C03.unary_parity_exact",
        "MG.C03.ufunc_parity_partial",
        "MG.C03.compare_dtype_parity",
        "MG.C03.mgUfuncDtype_eq",
        "MG.C03.cast_preserves_value",
        "MG.C03.shape_parity",
        "MG.C03.tracking_invariance",
    ]
}

Tensor = mg.Tensor

# ============================================================================================== operands

KINDS = ["tensor", "array", "npscalar", "pybool", "pyint", "pyfloat"]
SIMPLER_DT = ["f64", "f32", "f16", "i64", "i32", "i16", "i8", "u64", "u32", "u16", "u8", "bool"]  # simplest first


def od(kind, dt="f64", shape=(), lay="c", const=None, fill=None):
    return {"k": kind, "dt": dt, "shape": list(shape), "lay": lay, "const": const, "fill": fill}


def _values(dt, n, rng, fill):
    if fill is not None:
        return np.full(n, fill).astype(NP[dt])
    if dt == "bool":
        return np.array([rng.random() < 0.5 for _ in range(n)], dtype=bool)
    if dt.startswith("u"):
        return np.array([rng.randint(0, 6) for _ in range(n)], dtype=NP[dt])
    if dt.startswith("i"):
        return np.array([rng.randint(-4, 4) for _ in range(n)], dtype=NP[dt])
    vals = []
    for _ in range(n):
        r = rng.random()
        vals.append(float("nan") if r < 0.03 else float("inf") if r < 0.05 else rng.randint(-8, 8) / 4.0)
    return np.array(vals, dtype=NP[dt])


def _layout(vals, shape, lay):
    """view of `vals` (1-d, owned by the caller) with the requested shape and memory layout"""
    if lay == "c" or len(shape) == 0:
        return vals.reshape(shape)
    if lay == "t":
        return vals.reshape(shape[::-1]).T
    if lay == "s":
        return vals.reshape(shape[:-1] + (2 * shape[-1],))[..., ::2]
    if lay == "n":
        return vals.reshape(shape)[::-1]
    raise KeyError(lay)


def _array2(o, rng):
    """two independent arrays with identical values, dtype, shape and strides pattern"""
    shape, lay, dt = tuple(o["shape"]), o["lay"], o["dt"]
    n = int(np.prod(shape)) * (2 if lay == "s" and len(shape) else 1)
    if lay == "t":
        # values are laid out for the reversed shape; fine: both copies agree
        pass
    vals = _values(dt, n, rng, o["fill"])
    return _layout(vals, shape, lay), _layout(vals.copy(), shape, lay)


def build(o, rng):
    """-> (object given to MyGrad, object given to NumPy)"""
    k = o["k"]
    if k == "pybool":
        v = bool(o["fill"]) if o["fill"] is not None else rng.random() < 0.5
        return v, v
    if k == "pyint":
        v = int(o["fill"]) if o["fill"] is not None else rng.randint(-3, 5)
        return v, (np.asarray(v) if o.get("np_cast") else v)
    if k == "pyfloat":
        v = float(o["fill"]) if o["fill"] is not None else rng.choice([0.1, 0.5, -1.5, 1.0, 2.0, 3.3])
        return v, (np.asarray(v) if o.get("np_cast") else v)
    a, b = _array2(o, rng)
    if k == "npscalar":
        s = a.reshape(-1)[0] if a.size else NP[o["dt"]](1)
        return s, s
    if k == "list":
        return a.tolist(), b.tolist()
    if k == "array":
        return a, b
    if k == "tensor":
        return mg.tensor(a, constant=o["const"], copy=False), b
    if k == "tview":
        # a tensor that is a *view*, reached from a Fortran-ordered base through a layout-dependent reshape:
        # X.T.reshape(-1)[:n].reshape(shape) with X of shape (2, n) in F order.  NumPy twin: the same chain on arrays.
        n = a.size
        if n == 0:
            return mg.tensor(a, constant=o["const"], copy=False), b
        flat = np.concatenate([a.reshape(-1), a.reshape(-1)])
        xa = np.asfortranarray(flat.reshape(n, 2).T)
        xb = np.copy(xa, order="K")
        shape = tuple(o["shape"])
        t = mg.tensor(xa, constant=o["const"])
        return t.T.reshape(-1)[:n].reshape(shape), xb.T.reshape(-1)[:n].reshape(shape)
    raise KeyError(k)


def o_short(o):
    k = o["k"]
    if k in ("pybool", "pyint", "pyfloat"):
        return k
    if k == "tview":  # a tensor (that happens to be a view): same operand class in failure signatures
        k = "tensor"
    return f"{k}:{o['dt']}"


# ============================================================================================== calling both sides

OPERATORS = {
    "add": operator.add, "subtract": operator.sub, "multiply": operator.mul, "divide": operator.truediv,
    "true_divide": operator.truediv, "power": operator.pow, "matmul": operator.matmul, "negative": operator.neg,
    "positive": operator.pos, "floor_divide": operator.floordiv, "less": operator.lt, "less_equal": operator.le,
    "greater": operator.gt, "greater_equal": operator.ge, "equal": operator.eq, "not_equal": operator.ne,
}


def _resolve_kwargs(kw, rng, side, objs):
    out = {}
    for k, v in kw.items():
        if k == "dtype":
            out[k] = NP[v] if v is not None else None
        elif k in ("where", "out"):
            out[k] = objs["_" + k][0 if side == "mg" else 1]
        else:
            out[k] = tuple(v) if isinstance(v, list) and k in ("axis", "axes", "shape", "newshape") else v
    return out


def _tup(v):
    return tuple(_tup(x) for x in v) if isinstance(v, list) else v


def invoke(desc, side, ops, kw):
    cat, name, route = desc["cat"], desc["name"], desc["route"]
    args = [_tup(a) for a in desc.get("args", [])]
    lib = np if side == "np" else mg
    if cat in ("ufunc", "noderiv"):
        if route == "op":
            return OPERATORS[name](*ops)
        f = getattr(np, name) if (side == "np" or route == "np" or cat == "noderiv") else getattr(mg, name)
        return f(*ops, **kw)
    if cat in ("reduction", "manip"):
        if route == "method":
            return getattr(ops[0], name)(*args, **kw)
        f = getattr(np, name) if (side == "np" or route == "np") else getattr(mg, name)
        return f(ops[0], *args, **kw)
    if cat == "seq":
        f = getattr(np, name) if (side == "np" or route == "np") else getattr(mg, name)
        return f(list(ops), *args, **kw)
    if cat == "multi":
        if route == "method":
            return getattr(ops[0], name)(*ops[1:], *args, **kw)
        f = getattr(np, name) if (side == "np" or route == "np") else getattr(mg, name)
        return f(*ops, *args, **kw)
    if cat == "einsum":
        f = np.einsum if (side == "np" or route == "np") else mg.einsum
        return f(args[0], *ops, **kw)
    if cat == "norm":
        f = np.linalg.norm if (side == "np" or route == "np") else mg.linalg.norm
        return f(ops[0], *args, **kw)
    if cat == "nograd":
        return getattr(np, name)(*ops, *args, **kw)
    if cat == "umethod":
        # a method (.outer/.reduce/.accumulate) of a NumPy ufunc that MyGrad re-exports without a derivative
        u, m = name.split(".")
        return getattr(getattr(np, u), m)(*ops, *args, **kw)
    if cat == "getitem":
        return ops[0][_index(args[0])]
    if cat == "attr":
        return getattr(ops[0], name)
    if cat == "dunder":
        return {"len": len, "float": float, "int": int, "index": operator.index, "iter": lambda x: list(x),
                "contains": lambda x: args[0] in x}[name](ops[0])
    raise KeyError(cat)


def _index(spec):
    def one(s):
        if isinstance(s, tuple) and s and s[0] == "slice":
            return slice(*s[1:])
        if s == "...":
            return Ellipsis
        if s == "None":
            return None
        if isinstance(s, tuple) and s and s[0] == "arr":
            return np.array(s[1], dtype=s[2])
        return s
    return tuple(one(s) for s in spec) if isinstance(spec, tuple) and not (spec and spec[0] in ("slice", "arr")) else one(spec)


def _norm(x):
    """normalise a result for comparison -> nested structure of ndarrays"""
    if isinstance(x, Tensor):
        return np.asarray(x.data)
    if isinstance(x, (list, tuple)):
        return [_norm(v) for v in x]
    if isinstance(x, (bool, int, float, np.generic, np.ndarray)):
        return np.asarray(x)
    return x


def _cmp(a, b, mask=None):
    """-> None or failure class"""
    if isinstance(a, list) or isinstance(b, list):
        if not (isinstance(a, list) and isinstance(b, list)) or len(a) != len(b):
            return "type"
        for x, y in zip(a, b):
            c = _cmp(x, y)
            if c:
                return c
        return None
    if not isinstance(a, np.ndarray) or not isinstance(b, np.ndarray):
        return None if (type(a) is type(b) and a == b) else "type"
    if a.dtype != b.dtype:
        return "dtype"
    if a.shape != b.shape:
        return "shape"
    if mask is not None:
        m = np.broadcast_to(mask, a.shape)
        a, b = a[m], b[m]
    return None if same_array(a, b) else "value"


def _case_seed(desc, seed):
    ops = [{k: v for k, v in o.items() if k != "np_cast"} for o in desc["operands"]]
    return f"{seed}:{stable_hash(ops)}:{stable_hash(desc.get('kwargs', {}))}"


def run_side(desc, side, seed, track=True):
    """build fresh operands and call one side -> ('ok', normalised result, extra) | ('err', class)"""
    rng = random.Random(_case_seed(desc, seed))
    objs = {}
    ops = []
    # with tracking off the operands are built with tracking off as well: a tensor-view operand built while tracking
    # is on has locked (read-only) memory, and NumPy refuses `out=` on a read-only array just as MyGrad then does
    import contextlib
    with (mg.no_autodiff if (side == "mg" and not track) else contextlib.nullcontext()):
        for o in desc["operands"]:
            m, n = build(o, rng)
            ops.append(m if side == "mg" else n)
        kwd = dict(desc.get("kwargs", {}))
        for special in ("where", "out"):
            if special in kwd:
                m, n = build(kwd[special], rng)
                objs["_" + special] = (m, n)
    kw = _resolve_kwargs(kwd, rng, side, objs)
    try:
        if side == "mg" and not track:
            with mg.no_autodiff:
                r = invoke(desc, side, ops, kw)
        else:
            r = invoke(desc, side, ops, kw)
    except Exception as e:  # noqa: BLE001
        return ("err", exc_class(e), None)
    extra = {}
    if "out" in kwd:
        o = objs["_out"][0 if side == "mg" else 1]
        extra["out"] = _norm(o)
        extra["returns_out"] = (r is o) or (isinstance(r, Tensor) and isinstance(o, np.ndarray) and r.data is o)
    if side == "mg":
        extra["is_tensor"] = isinstance(r, Tensor)
        if isinstance(r, Tensor):
            extra["const"] = bool(r.constant)
            extra["creator"] = r.creator is not None
    mask = None
    if "where" in kwd and "out" not in kwd:
        mask = np.asarray(objs["_where"][1])
    return ("ok", _norm(r), extra, mask)


def run_case(desc, seed=0):
    """-> {'fail': class|None, 'detail': str, 'np': ..., 'mg': ...}"""
    ref = run_side(desc, "np", seed)
    tracks = [True, False] if desc.get("track", "both") == "both" else [bool(desc["track"])]
    res = {"fail": None, "detail": "", "np": _short(ref), "mg": None, "track_failed": None}
    outs = []
    for tr in tracks:
        got = run_side(desc, "mg", seed, track=tr)
        outs.append(got)
        res["mg"] = _short(got)
        fail, detail = None, ""
        if ref[0] == "err" and got[0] == "err":
            continue  # both refuse (classes may legitimately differ)
        if ref[0] == "err":
            fail, detail = "accepts", f"NumPy raises {ref[1]}, MyGrad returns {_short(got)}"
        elif got[0] == "err" and got[1] == "NotImplementedError":
            continue  # an option MyGrad declares unsupported: outside "all supported keyword options"
        elif got[0] == "err":
            fail, detail = "raises", f"MyGrad raises {got[1]}, NumPy returns {_short(ref)}"
        else:
            mask = ref[3]
            fail = _cmp(got[1], ref[1], mask)
            if fail is None and "out" in ref[2]:
                fail = _cmp(got[2]["out"], ref[2]["out"])
                if fail:
                    fail = "out-" + fail
            if fail:
                detail = f"MyGrad {_short(got)} vs NumPy {_short(ref)}"
            elif not tr and got[2].get("creator"):
                fail, detail = "tracking", "result computed inside no_autodiff has a creator"
        if fail:
            res.update(fail=fail, detail=detail, track_failed=tr)
            return res
    if len(outs) == 2 and outs[0][0] == "ok" and outs[1][0] == "ok":
        c = _cmp(outs[0][1], outs[1][1], outs[0][3])
        if c:
            res.update(fail="tracking", detail=f"tracked and untracked results differ ({c})", track_failed=False)
    elif len(outs) == 2 and outs[0][0] != outs[1][0] and ref[0] == "ok":
        res.update(fail="tracking", detail=f"tracked {_short(outs[0])} vs untracked {_short(outs[1])}", track_failed=False)
    return res


def _short(r):
    if r[0] == "err":
        return f"raises {r[1]}"
    x = r[1]
    if isinstance(x, np.ndarray):
        v = np.array2string(x.reshape(-1)[:4], precision=8, separator=",") if x.size else "[]"
        return f"{dname(x.dtype)}{list(x.shape)}{v}"
    if isinstance(x, list):
        return "[" + ", ".join(_short(("ok", y)) for y in x[:3]) + "]"
    return repr(x)


# ============================================================================================== (i) exhaustive dtype tables

TKIND = {"tnd": ("tensor", (2,)), "t0d": ("tensor", ()), "and": ("array", (2,)), "a0d": ("array", ()),
         "nps": ("npscalar", ()), "pyb": ("pybool", ()), "pyi": ("pyint", ()), "pyf": ("pyfloat", ())}


def table_operands():
    out = []
    for tk in TKIND:
        if tk in ("pyb", "pyi", "pyf"):
            out.append((tk, {"pyb": "bool", "pyi": "i64", "pyf": "f64"}[tk]))
        else:
            out += [(tk, d) for d in REAL]
    return out


def t_od(tk, dt):
    k, shape = TKIND[tk]
    return od(k, dt, shape, fill=1)


def classify_ufuncs():
    """assign every registered MyGrad ufunc to a loop class of the Lean model by *measuring* NumPy's output dtype for
    every same-dtype input and matching it with the model's class table"""
    classes = ["arith", "noBool", "divide", "float", "toI8", "compare"]
    lines = [f"uf {c} - 1 - 1 " + " ".join([f"and:{d}"] * n) for c in classes for n in (1, 2) for d in REAL]
    out = ask(lines)
    table = {}
    i = 0
    for c in classes:
        for n in (1, 2):
            table[(c, n)] = tuple(o.split(" ")[0][3:] for o in out[i:i + len(REAL)])
            i += len(REAL)
    assigned, unassigned = {}, []
    for npf, mgf in sorted(tb._REGISTERED_UFUNC.items(), key=lambda kv: kv[0].__name__):
        if npf is np.matmul:
            continue
        sig = []
        for d in REAL:
            a = np.ones(2, dtype=NP[d])
            try:
                sig.append(dname(npf(*([a] * npf.nin)).dtype))
            except Exception as e:  # noqa: BLE001
                sig.append(exc_class(e))
        for c in classes:
            if table[(c, npf.nin)] == tuple(sig):
                assigned[npf.__name__] = (c, npf.nin)
                break
        else:
            unassigned.append(npf.__name__)
    return assigned, unassigned, table


def table_cells(assigned, thorough):
    ops = table_operands()
    strong_first = [o for o in ops if o[0] in ("tnd", "and")]
    cells = []
    for name, (cls, nin) in sorted(assigned.items()):
        if nin == 1:
            for a in ops:
                for kw in [None] + REAL:
                    cells.append((name, cls, (a,), kw, "-"))
        else:
            for a in ops:
                for b in ops:
                    cells.append((name, cls, (a, b), None, "-"))
            firsts = ops if thorough else strong_first
            for a in firsts:
                for b in ops:
                    for kw in REAL:
                        cells.append((name, cls, (a, b), kw, "-"))
    # the `constant` argument: small sweep
    for name in ("add", "divide", "sqrt"):
        if name in assigned:
            cls, nin = assigned[name]
            for a in [("tnd", d) for d in REAL]:
                for b in ([("tnd", "f32"), ("tnd", "i32"), ("pyi", "i64")] if nin == 2 else [None]):
                    for carg in ("1", "0"):
                        cells.append((name, cls, (a,) if b is None else (a, b), None, carg))
    # comparison operators (dtype always bool; values checked in part ii)
    for name in ("less", "equal"):
        for a in [o for o in ops if o[0] in ("tnd", "t0d")]:
            for b in ops:
                cells.append((name, "compare", (a, b), None, "-"))
    return cells


def run_table_cell(cell):
    """execute one table cell on NumPy and on MyGrad (tracked and untracked)"""
    name, cls, operands, kw, carg = cell
    npf = getattr(np, name)
    is_cmp = cls == "compare" and name in ("less", "equal")
    res = {}
    np_ops, mk = [], []
    for tk, dt in operands:
        o = t_od(tk, dt)
        mk.append(o)
    rng = random.Random(0)
    built = [build(o, rng) for o in mk]
    kwargs = {} if kw is None else {"dtype": NP[kw]}
    try:
        r = npf(*[b[1] for b in built], **kwargs)
        res["np"] = dname(np.asarray(r).dtype)
    except Exception as e:  # noqa: BLE001
        res["np"] = exc_class(e)
    try:
        res["rt"] = dname(np.result_type(*[b[1] for b in built]))
    except Exception as e:  # noqa: BLE001
        res["rt"] = exc_class(e)
    for tr in (1, 0):
        built = [build(o, rng) for o in mk]
        mops = [b[0] for b in built]
        mkw = dict(kwargs)
        if carg != "-":
            mkw["constant"] = carg == "1"
        try:
            if is_cmp:
                f = OPERATORS[name]
                call = lambda: f(*mops)  # noqa: E731
            else:
                f = getattr(mg, name)
                call = lambda: f(*mops, **mkw)  # noqa: E731
            if tr:
                r = call()
            else:
                with mg.no_autodiff:
                    r = call()
            res[f"mg{tr}"] = f"{dname(np.asarray(r).dtype)},{int(r.constant)}" if isinstance(r, Tensor) else \
                f"{dname(np.asarray(r).dtype)},-"
        except Exception as e:  # noqa: BLE001
            res[f"mg{tr}"] = exc_class(e)
    return res


def _table_work(cells):
    return [run_table_cell(c) for c in cells]


def table_line(cell, tr):
    name, cls, operands, kw, carg = cell
    allc = int(not any(tk in ("tnd", "t0d") and dt in ("f16", "f32", "f64") for tk, dt in operands))
    return f"uf {cls} {kw or '-'} {tr} {carg} {allc} " + " ".join(f"{tk}:{dt}" for tk, dt in operands)


def cell_desc(cell, tr):
    name, cls, operands, kw, carg = cell
    d = {"cat": "ufunc", "name": name, "route": "op" if (cls == "compare") else "func",
         "operands": [t_od(tk, dt) for tk, dt in operands], "kwargs": {} if kw is None else {"dtype": kw}, "track": bool(tr)}
    if cls == "compare":
        d["cat"] = "noderiv"
    return d


# ============================================================================================== (ii) generators

DT_TV = ["bool", "i8", "i32", "i64", "u8", "f16", "f32", "f64"]
SHAPES = [(), (0,), (3,), (2, 3), (1, 3), (2, 1), (2, 0), (2, 1, 3)]
BCAST = [((), (3,)), ((2, 3), (3,)), ((2, 1), (1, 3)), ((2, 3), ()), ((0,), ()), ((2, 1, 3), (2, 3)), ((3,), (3,)),
         ((2, 0), (1,)), ((2, 3), (2, 3))]


def r_operand(rng, shape, dt=None, kinds=("tensor", "tensor", "array")):
    k = rng.choice(kinds)
    if k == "tensor" and rng.random() < 0.1:
        k = "tview"
    dt = dt or rng.choice(DT_TV)
    lay = rng.choice(["c", "c", "s", "t", "n"]) if len(shape) >= 1 and all(shape) else "c"
    return od(k, dt, shape, lay)


def r_scalar(rng):
    k = rng.choice(["pybool", "pyint", "pyfloat", "npscalar"])
    return od(k, rng.choice(DT_TV), ())


def _bshape(a, b):
    return tuple(np.broadcast_shapes(a, b))


def gen_ufunc(rng, name, nin, n):
    """registered differentiable ufuncs: mg.f / np.f(tensor) / operator; options where / out / dtype"""
    out = []
    for _ in range(n):
        sa, sb = rng.choice(BCAST)
        if rng.random() < 0.5:
            sa, sb = sb, sa
        dt = rng.choice(DT_TV)
        ops = [r_operand(rng, sa, dt if rng.random() < 0.5 else None, ("tensor",))]
        if nin == 2:
            second = r_scalar(rng) if rng.random() < 0.35 else r_operand(rng, sb, dt if rng.random() < 0.5 else None)
            ops.append(second)
            if rng.random() < 0.3:
                ops.reverse()
        if name == "matmul":
            dt = rng.choice(["f32", "f64", "i32", "f16"])
            sa, sb = rng.choice([((2, 3), (3, 2)), ((3,), (3,)), ((2, 3), (3,)), ((3,), (3, 2)), ((2, 2, 3), (3, 2))])
            ops = [r_operand(rng, sa, dt, ("tensor",)), r_operand(rng, sb, rng.choice([dt, "f64"]))]
        routes = ["func", "func", "np"] + (["op"] if name in OPERATORS else [])
        route = rng.choice(routes)
        if route == "op" and nin == 2 and name != "matmul" and rng.random() < 0.5:
            # Python scalar on the left / right: the reflected and the plain dunder
            sc = od(rng.choice(["pyint", "pyfloat", "pybool"]))
            t = r_operand(rng, sa, rng.choice(["f64", "f32", "i64", "i32"]), ("tensor",))
            ops = [sc, t] if rng.random() < 0.6 else [t, sc]
        if route == "op" and name == "power" and rng.random() < 0.5:
            # Tensor.__pow__ / __rpow__ dispatch on the *value* of the exponent (1 and 2): exponents of every kind and
            # of one element in 0, 1 or 2 dimensions, whose shape and dtype must still take part in the result
            ek = rng.choice(["array", "array", "tensor", "npscalar", "list"])
            ops = [r_operand(rng, rng.choice([(), (3,), (2, 3)]), rng.choice(["f64", "f32", "f16", "i32"]), ("tensor",)),
                   od(ek, rng.choice(["f64", "f32", "i64", "i32"]),
                      rng.choice(([()] if ek != "list" else []) + [(1,), (1, 1), (1, 1, 1)]),  # (a 0-d "list" is a Python scalar)
                      fill=rng.choice([1, 2, 2, 3]))]
        kw = {}
        if route != "op" and name != "matmul":
            r = rng.random()
            res_shape = _bshape(*[tuple(o["shape"]) for o in ops]) if nin == 2 else tuple(ops[0]["shape"])
            if r < 0.2:
                kw["dtype"] = rng.choice(["f32", "f64", "f16"])
            elif r < 0.4:
                kw["where"] = od(rng.choice(["array", "array", "tensor"]), "bool", res_shape)
                if rng.random() < 0.6:
                    kw["out"] = od(rng.choice(["array", "array", "tensor"]), rng.choice(["f32", "f64"]), res_shape)
            elif r < 0.55:
                kw["out"] = od(rng.choice(["array", "tensor", "tview"]), rng.choice(["f32", "f64"]), res_shape,
                               const=rng.choice([None, True]))
            elif r < 0.8:
                # the options together: dtype= with a where= mask and/or an out= target (each option's code path also
                # has to honour the others)
                kw["dtype"] = rng.choice(["f32", "f64", "f16"])
                both = rng.random()
                if both < 0.7:
                    kw["where"] = od(rng.choice(["array", "array", "tensor"]), "bool", rng.choice([res_shape, res_shape[-1:]]) if res_shape else ())
                if both > 0.4:
                    kw["out"] = od(rng.choice(["array", "tensor"]), rng.choice(["f32", "f64"]), res_shape,
                                   const=rng.choice([None, True]))
        out.append({"cat": "ufunc", "name": name, "route": route, "operands": ops, "kwargs": kw, "track": "both"})
    return out


def gen_noderiv(rng, name, nin, n, const_only):
    out = []
    for _ in range(n):
        sa, sb = rng.choice(BCAST)
        dts = DT_TV if not name.startswith("logical") and name not in ("isnat",) else DT_TV
        ops = [od("tensor", rng.choice(dts), sa, rng.choice(["c", "s"]) if sa and all(sa) else "c", const=True if const_only else None)]
        if nin == 2:
            ops.append(r_scalar(rng) if rng.random() < 0.35 else
                       od(rng.choice(["tensor", "array"]), rng.choice(dts), sb, const=True if const_only else None))
            if rng.random() < 0.3:
                ops.reverse()
        route = "op" if (name in OPERATORS and rng.random() < 0.5) else "np"
        out.append({"cat": "noderiv", "name": name, "route": route, "operands": ops, "kwargs": {}, "track": "both"})
    return out


def _axes(rng, nd, allow_tuple=True, allow_none=True):
    c = [None] if allow_none else []
    c += list(range(-nd, nd))
    if allow_tuple and nd >= 1:
        c += [[0], []] + ([[0, 1], [-1, 0]] if nd >= 2 else [])
    return rng.choice(c) if c else None


def gen_reduction(rng, name, n):
    f = getattr(mg, name)
    params = set(inspect.signature(f).parameters)
    out = []
    for _ in range(n):
        shape = rng.choice([s for s in SHAPES if name not in ("max", "min", "amax", "amin", "argmax", "argmin") or (all(s) or not s)])
        o = r_operand(rng, shape, kinds=("tensor",))
        kw = {}
        nd = len(shape)
        int_axis_only = name in ("cumsum", "cumprod", "argmax", "argmin")
        if "axis" in params and rng.random() < 0.8:
            ax = _axes(rng, nd, allow_tuple=not int_axis_only)
            if ax is not None:
                kw["axis"] = ax
        if "keepdims" in params and rng.random() < 0.5:
            kw["keepdims"] = rng.random() < 0.7
        if "ddof" in params and rng.random() < 0.4:
            kw["ddof"] = rng.choice([0, 1])
        route = rng.choice(["func", "np"] + (["method"] if hasattr(Tensor, name) else []))
        out.append({"cat": "reduction", "name": name, "route": route, "operands": [o], "args": [], "kwargs": kw,
                    "track": "both"})
    return out


def gen_manip(rng, name, n):
    out = []
    for _ in range(n):
        shape = rng.choice(SHAPES)
        nd = len(shape)
        o = r_operand(rng, shape, kinds=("tensor",))
        args, kw = [], {}
        routes = ["func", "np"] + (["method"] if hasattr(Tensor, name) and hasattr(np.ndarray, name) else [])
        route = rng.choice(routes)
        size = int(np.prod(shape))
        if name == "reshape":
            cands = [[size], [-1], [1, size], [size, 1]] + ([[3, 2], [-1, 2], [2, 3, 1]] if size == 6 else []) + ([[0, 5]] if size == 0 else [])
            new = rng.choice(cands)
            args = [new] if route != "method" or rng.random() < 0.5 else list(new)
        elif name == "squeeze":
            ones = [i for i, s in enumerate(shape) if s == 1]
            if ones and rng.random() < 0.6:
                kw["axis"] = rng.choice(ones + [[ones[0]]])
        elif name in ("ravel", "flatten"):
            pass
        elif name == "expand_dims":
            args = [rng.choice(list(range(-nd - 1, nd + 1)))]
        elif name == "broadcast_to":
            args = [list(rng.choice([(2,) + shape, shape, (3, 2) + shape]))]
        elif name == "transpose":
            perm = list(range(nd))
            rng.shuffle(perm)
            if nd == 0 or rng.random() < 0.3:
                args = []
            elif route == "method" and rng.random() < 0.5:
                args = perm
            else:
                args = [perm]
        elif name == "moveaxis":
            if nd == 0:
                continue
            args = [rng.randrange(-nd, nd), rng.randrange(-nd, nd)]
        elif name == "swapaxes":
            if nd == 0:
                continue
            args = [rng.randrange(-nd, nd), rng.randrange(-nd, nd)]
        elif name == "roll":
            args = [rng.choice([1, -2, 0, 5])]
            if nd and rng.random() < 0.6:
                kw["axis"] = rng.randrange(-nd, nd)
        elif name == "repeat":
            args = [rng.choice([0, 1, 2, 3])]
            if nd and rng.random() < 0.6:
                kw["axis"] = rng.randrange(-nd, nd)
        elif name == "clip":
            lo, hi = rng.choice([(-1, 1), (0, None), (None, 2), (-0.5, 1.5), (1, -1)])
            args = [lo, hi]
        elif name in ("argmax", "argmin", "any"):
            pass
        out.append({"cat": "manip", "name": name, "route": route, "operands": [o], "args": args, "kwargs": kw,
                    "track": "both"})
    return out


def gen_seq(rng, name, n):
    out = []
    for _ in range(n):
        base = rng.choice([(3,), (2, 3), (1, 3), (0,), (2, 0)])
        k = rng.choice([1, 2, 3])
        dt = rng.choice(DT_TV)
        ops = [r_operand(rng, base, dt if rng.random() < 0.6 else None, ("tensor", "array")) for _ in range(k)]
        ops[0]["k"] = "tensor"
        kw = {}
        nd = len(base)
        if rng.random() < 0.7:
            kw["axis"] = rng.randrange(-nd, nd) if name == "concatenate" else rng.randrange(-nd - 1, nd + 1)
        if name == "concatenate" and rng.random() < 0.2:
            kw["dtype"] = rng.choice(["f32", "f64"])
        elif rng.random() < 0.25 and nd:
            ax = kw.get("axis", 0)
            if name == "concatenate":
                shp = list(base)
                shp[ax] = base[ax] * k
            else:
                shp = list(base)
                shp.insert(ax if ax >= 0 else nd + 1 + ax, k)
            for o in ops:
                o["shape"] = list(base)
            kw["out"] = od(rng.choice(["array", "tensor"]), "f64", tuple(shp), const=True)
        out.append({"cat": "seq", "name": name, "route": rng.choice(["func", "np"]), "operands": ops, "args": [],
                    "kwargs": kw, "track": "both"})
    return out


def gen_misc(rng, n):
    out = []
    for _ in range(n):
        sa, sb = rng.choice(BCAST)
        dt = rng.choice(DT_TV)
        # where(cond, x, y)
        x = r_operand(rng, sa, dt, ("tensor",))
        y = r_scalar(rng) if rng.random() < 0.4 else r_operand(rng, sb, dt if rng.random() < 0.5 else None)
        cond = od(rng.choice(["array", "tensor"]), "bool", _bshape(sa, sb))
        ops = [cond, x, y] if rng.random() < 0.7 else [cond, y, x]
        out.append({"cat": "multi", "name": "where", "route": rng.choice(["func", "np"]), "operands": ops, "args": [],
                    "kwargs": {}, "track": "both"})
        # where(cond) alone
        if rng.random() < 0.2:
            out.append({"cat": "multi", "name": "where", "route": "func", "operands": [od("tensor", "bool", sa)], "args": [],
                        "kwargs": {}, "track": "both"})
        # clip with array / scalar bounds
        a = r_operand(rng, sa, rng.choice(["f16", "f32", "f64", "i32", "i8"]), ("tensor",))
        lo = r_scalar(rng) if rng.random() < 0.6 else r_operand(rng, sb, a["dt"])
        hi = r_scalar(rng) if rng.random() < 0.6 else r_operand(rng, sb, a["dt"])
        for b in (lo, hi):
            if b["k"] == "pybool":
                b["k"] = "pyint"
        ckw = {}
        if rng.random() < 0.3:
            shp = _bshape(_bshape(tuple(a["shape"]), tuple(lo["shape"]) if lo["k"] in ("tensor", "tview", "array") else ()),
                          tuple(hi["shape"]) if hi["k"] in ("tensor", "tview", "array") else ())
            ckw["out"] = od(rng.choice(["array", "tensor"]), "f64", shp, const=True)
        out.append({"cat": "multi", "name": "clip", "route": rng.choice(["func", "np", "method"]), "operands": [a, lo, hi], "args": [],
                    "kwargs": ckw, "track": "both"})
        # atleast_nd
        k = rng.choice([1, 2])
        ops = [r_operand(rng, rng.choice(SHAPES), kinds=("tensor",)) for _ in range(k)]
        out.append({"cat": "multi", "name": rng.choice(["atleast_1d", "atleast_2d", "atleast_3d"]),
                    "route": rng.choice(["func", "np"]), "operands": ops, "args": [], "kwargs": {}, "track": "both"})
        # einsum
        sub, shapes = rng.choice([("ij,jk->ik", [(2, 3), (3, 2)]), ("ii->i", [(3, 3)]), ("ij->ji", [(2, 3)]), ("i,i->", [(3,), (3,)]),
                                  ("ij,j", [(2, 3), (3,)]), ("...j,j->...", [(2, 1, 3), (3,)]), ("ij->", [(2, 3)]), ("i,j->ij", [(3,), (2,)])])
        edt = rng.choice(["f32", "f64", "i32", "f16"])
        ops = [r_operand(rng, s, edt if rng.random() < 0.7 else None, ("tensor", "array")) for s in shapes]
        ops[0]["k"] = "tensor"
        out.append({"cat": "einsum", "name": "einsum", "route": rng.choice(["func", "np"]), "operands": ops, "args": [sub],
                    "kwargs": {"optimize": True} if rng.random() < 0.2 else {}, "track": "both"})
        # norm
        shape = rng.choice([(3,), (2, 3), (2, 1, 3)])
        kw = {}
        nd = len(shape)
        r = rng.random()
        if r < 0.6:
            kw["axis"] = rng.randrange(-nd, nd)
            kw["ord"] = rng.choice([None, 1, 2, 3, 0.5, float("inf"), float("-inf")]) if rng.random() < 0.6 else None
        if rng.random() < 0.4:
            kw["keepdims"] = True
        kw = {k: v for k, v in kw.items() if v is not None}
        out.append({"cat": "norm", "name": "norm", "route": rng.choice(["func", "np"]),
                    "operands": [r_operand(rng, shape, rng.choice(["f32", "f64", "f16", "f64", "i32", "i64", "bool"]), ("tensor",))], "args": [], "kwargs": kw,
                    "track": "both"})
        # sinc (an Operation calling np.sinc)
        out.append({"cat": "ufunc", "name": "sinc", "route": "func", "operands": [r_operand(rng, sa, rng.choice(["f32", "f64", "f16", "i32"]), ("tensor",))],
                    "kwargs": {}, "track": "both"})
    return out


def gen_nograd(rng, n):
    out = []
    for _ in range(n):
        sa, sb = rng.choice(BCAST)
        a = r_operand(rng, sa, rng.choice(["f32", "f64", "i32"]), ("tensor",))
        b = r_operand(rng, sb, rng.choice(["f32", "f64", "i32"]))
        out.append({"cat": "nograd", "name": rng.choice(["allclose", "isclose", "shares_memory", "may_share_memory", "result_type"]),
                    "route": "np", "operands": [a, b], "args": [], "kwargs": {}, "track": "both"})
        out.append({"cat": "nograd", "name": "shape", "route": "np", "operands": [a], "args": [], "kwargs": {}, "track": "both"})
        out.append({"cat": "nograd", "name": "min_scalar_type", "route": "np", "operands": [od("tensor", rng.choice(DT_TV), ())],
                    "args": [], "kwargs": {}, "track": "both"})
        out.append({"cat": "nograd", "name": "bincount", "route": "np", "operands": [od("tensor", rng.choice(["u8", "i64", "i32"]), (5,), fill=None)],
                    "args": [], "kwargs": {}, "track": "both"} if False else
                   {"cat": "nograd", "name": "can_cast", "route": "np", "operands": [od("tensor", rng.choice(DT_TV), (2,))],
                    "args": [rng.choice(["float32", "int8", "float64"])], "kwargs": {}, "track": "both"})
    return out


def gen_tensor_api(rng, n):
    out = []
    idx_pool = [0, -1, ("slice", None, None, 2), ("slice", 1, None, None), ("slice", None, None, -1), "...", "None",
                ("arr", [0, 0, 1], "int32"), ("arr", [True, False], "bool"), ("arr", [1, 0], "int64")]
    for _ in range(n):
        shape = rng.choice([(3,), (2, 3), (2, 1, 3), (4,)])
        o = r_operand(rng, shape, kinds=("tensor",))
        k = rng.choice([1, 1, 2])
        spec = [rng.choice(idx_pool) for _ in range(min(k, len(shape)))]
        fixed = []
        for ax, s in enumerate(spec):
            if isinstance(s, tuple) and s[0] == "arr":
                if s[2] == "bool":
                    s = ("arr", [(i % 2 == 0) for i in range(shape[ax])], "bool")
                else:
                    s = ("arr", [i % shape[ax] for i in s[1]], s[2])
            elif isinstance(s, int) and not isinstance(s, bool):
                s = s if -shape[ax] <= s < shape[ax] else 0
            fixed.append(s)
        out.append({"cat": "getitem", "name": "getitem", "route": "method", "operands": [o],
                    "args": [fixed if len(fixed) > 1 else fixed[0]], "kwargs": {}, "track": "both"})
        o2 = r_operand(rng, rng.choice(SHAPES), kinds=("tensor",))
        out.append({"cat": "attr", "name": rng.choice(["shape", "ndim", "size", "dtype", "T"]), "route": "method",
                    "operands": [o2], "args": [], "kwargs": {}, "track": "both"})
        out.append({"cat": "manip", "name": "flatten", "route": "method", "operands": [o2], "args": [], "kwargs": {}, "track": "both"})
        out.append({"cat": "manip", "name": "item", "route": "method", "operands": [od("tensor", rng.choice(DT_TV), rng.choice([(), (1,), (1, 1)]))],
                    "args": [], "kwargs": {}, "track": "both"})
        out.append({"cat": "manip", "name": "astype", "route": "method", "operands": [o2], "args": [rng.choice(["float32", "float16", "int32", "bool", "float64"])],
                    "kwargs": {}, "track": "both"})
        out.append({"cat": "manip", "name": "copy", "route": "method", "operands": [o2], "args": [], "kwargs": {}, "track": "both"})
        o3 = od("tensor", rng.choice(DT_TV), rng.choice([(3,), (2, 3), (0,)]))
        out.append({"cat": "dunder", "name": rng.choice(["len", "iter"]), "route": "method", "operands": [o3], "args": [], "kwargs": {}, "track": "both"})
        out.append({"cat": "dunder", "name": "contains", "route": "method", "operands": [od("tensor", rng.choice(["f32", "i32", "f64"]), (3,))],
                    "args": [rng.choice([0, 1, 2.0, -1])], "kwargs": {}, "track": "both"})
        sdt = rng.choice(DT_TV)
        out.append({"cat": "dunder", "name": rng.choice(["float", "int"] + (["index"] if sdt[0] in "iu" else [])), "route": "method",
                    "operands": [od("tensor", sdt, rng.choice([(), (1,)]))], "args": [], "kwargs": {}, "track": "both"})
    return out


F2_WITNESSES = [
    {"cat": "ufunc", "name": "multiply", "route": "op", "operands": [od("tensor", "f32", (), fill=1), od("pyfloat", fill=2.0)],
     "kwargs": {}, "track": "both"},                                       # witness of dtype_parity_neg
    {"cat": "ufunc", "name": "add", "route": "func", "operands": [od("tensor", "i8", (2,), fill=1), od("pyint", fill=1)],
     "kwargs": {}, "track": "both"},
    {"cat": "ufunc", "name": "add", "route": "func", "operands": [od("tensor", "u64", (2,), fill=1), od("pyint", fill=1)],
     "kwargs": {}, "track": "both"},
    {"cat": "ufunc", "name": "add", "route": "func", "operands": [od("tensor", "u8", (2,), fill=1), od("pyint", fill=1)],
     "kwargs": {"dtype": "u8"}, "track": "both"},
    {"cat": "noderiv", "name": "equal", "route": "op", "operands": [od("tensor", "f32", (2,), fill=0.1), od("pyfloat", fill=0.1)],
     "kwargs": {}, "track": "both"},
    {"cat": "ufunc", "name": "add", "route": "func", "operands": [od("tensor", "i8", (2,), fill=1), od("pyint", fill=200)],
     "kwargs": {}, "track": "both"},
    # special-cased paths found by earlier runs (kept as fixed witnesses so that they are exercised under every seed)
    {"cat": "ufunc", "name": "power", "route": "op", "operands": [od("tensor", "i32", (2,), fill=3), od("pyfloat", fill=2.0)],
     "kwargs": {}, "track": "both"},                                       # `t ** 2.0` -> Square
    {"cat": "ufunc", "name": "power", "route": "op", "operands": [od("tensor", "i32", (2,), fill=3), od("pyfloat", fill=1.0)],
     "kwargs": {}, "track": "both"},                                       # `t ** 1.0` -> Positive
    {"cat": "ufunc", "name": "power", "route": "op", "operands": [od("tensor", "bool", (2,), fill=1), od("pyint", fill=1)],
     "kwargs": {}, "track": "both"},
    {"cat": "ufunc", "name": "power", "route": "op", "operands": [od("tensor", "f32", (2,), fill=3), od("npscalar", "f64", (), fill=2.0)],
     "kwargs": {}, "track": "both"},
    {"cat": "ufunc", "name": "power", "route": "op", "operands": [od("tensor", "bool", (2,), fill=1), od("npscalar", "f64", (), fill=1.0)],
     "kwargs": {}, "track": "both"},
    {"cat": "multi", "name": "clip", "route": "func", "operands": [od("tensor", "f32", (2,), fill=0.3), od("tensor", "f32", (2,), fill=0.1),
                                                                    od("pyfloat", fill=0.2)], "args": [],
     "kwargs": {"out": od("tensor", "f64", (2,), const=True, fill=0)}, "track": "both"},
    {"cat": "multi", "name": "where", "route": "func", "operands": [od("tensor", "bool", (2,), fill=1), od("tensor", "f64", (2,), fill=1),
                                                                     od("tensor", "f64", (2,), fill=2)], "args": [], "kwargs": {}, "track": "both"},
    {"cat": "multi", "name": "clip", "route": "func", "operands": [od("tensor", "f64", (2,), fill=0.5), od("pyfloat", fill=0.0),
                                                                    od("pyfloat", fill=1.0)], "args": [],
     "kwargs": {"out": od("array", "f64", (2,), fill=0)}, "track": "both"},
    {"cat": "norm", "name": "norm", "route": "func", "operands": [od("tensor", "f64", (3,), fill=0.5)], "args": [],
     "kwargs": {"ord": float("inf")}, "track": "both"},
    {"cat": "norm", "name": "norm", "route": "func", "operands": [od("tensor", "f64", (2, 3), fill=0.5)], "args": [],
     "kwargs": {"ord": float("-inf"), "axis": 1}, "track": "both"},
] + [
    # `t ** e` with an exponent of ONE element in 1..3 dimensions and the values Tensor.__pow__ looks for: the
    # exponent's shape and dtype take part in the result (it is not a 0-d exponent)
    {"cat": "ufunc", "name": "power", "route": "op", "operands": [od("tensor", bdt, bshape, fill=3), od(ekind, edt, eshape, fill=ev)],
     "kwargs": {}, "track": "both"}
    for bdt, bshape in (("f64", ()), ("f64", (3,)), ("f32", (3,)), ("i32", (2, 3)))
    for ekind, edt in (("array", "f64"), ("array", "i64"), ("tensor", "f64"), ("list", "f64"))
    for eshape in ((1,), (1, 1))
    for ev in (1, 2)
] + [
    # option combinations pinned (each option's code path must honour the others)
    {"cat": "ufunc", "name": nm, "route": rt, "operands": [od("tensor", "f64", (2, 3), fill=0.3), od("tensor", "f64", (3,), fill=0.1)],
     "kwargs": kw, "track": "both"}
    for nm in ("add", "multiply", "divide")
    for rt in ("func", "np")
    for kw in ({"where": od("array", "bool", (2, 3)), "dtype": "f32"},
               {"where": od("array", "bool", (3,)), "dtype": "f32", "out": od("array", "f64", (2, 3), fill=0)},
               {"dtype": "f32", "out": od("tensor", "f64", (2, 3), const=True, fill=0)},
               {"dtype": "f16", "out": od("tensor", "f64", (2, 3), fill=0)},
               {"where": od("tensor", "bool", (2, 3)), "out": od("tensor", "f64", (2, 3), fill=0)})
] + [
    # methods of the ufuncs that act on the tensors' arrays (comparison/logical ufuncs; the constant-only ones)
    {"cat": "umethod", "name": f"{u}.outer", "route": "np", "operands": [od("tensor", da, (3,), const=c), od(kb, db, sb, const=c)],
     "args": [], "kwargs": {}, "track": "both"}
    for u, c in (("less", None), ("greater_equal", None), ("equal", None), ("logical_and", None), ("logical_xor", None),
                 ("floor_divide", True), ("remainder", True), ("fmod", True))
    for da, kb, db, sb in (("f64", "tensor", "f64", (3,)), ("i32", "array", "f32", (2,)), ("f32", "tensor", "i64", (3,)))
] + [
    {"cat": "umethod", "name": f"{u}.{m}", "route": "np", "operands": [od("tensor", dt, (2, 3), const=c)],
     "args": [], "kwargs": kw, "track": "both"}
    for u, c, dts in (("logical_and", None, ("bool", "f64")), ("logical_or", None, ("bool", "i32")), ("logical_xor", None, ("bool",)),
                      ("floor_divide", True, ("i32", "f64")), ("remainder", True, ("i64",)))
    for dt in dts
    for m in ("reduce", "accumulate")
    for kw in ({}, {"axis": 1})
] + [
    # a 0-d operand reduced over an explicit integer axis (NumPy accepts axis 0 / -1 for sum, prod, max, min)
    {"cat": "reduction", "name": nm, "route": rt, "operands": [od("tensor", dt, (), fill=3)], "args": [],
     "kwargs": dict({"axis": ax}, **({"keepdims": True} if kd else {})), "track": "both"}
    for nm in ("sum", "prod", "max", "min", "amax", "amin", "mean", "var", "std", "cumsum", "cumprod")
    for rt in (("func", "method", "np") if nm not in ("amax", "amin") else ("func", "np"))
    for dt in ("f64", "i32")
    for ax in (0, -1)
    for kd in ((False, True) if not nm.startswith("cum") else (False,))
]


def discover():
    """every public MyGrad callable with a NumPy namesake + which generator covers it"""
    reg_uf = {u.__name__: (m, u.nin) for u, m in tb._REGISTERED_UFUNC.items()}
    bool_only = {u.__name__: u.nin for u in tb._REGISTERED_BOOL_ONLY_UFUNC if u is not np.isnat}
    const_only = {u.__name__: u.nin for u in tb._REGISTERED_CONST_ONLY_UFUNC if u.nout == 1}
    nodiff = {f.__name__ for f in tb._REGISTERED_NO_DIFF_NUMPY_FUNCS}
    diff = {f.__name__: g for f, g in tb._REGISTERED_DIFFERENTIABLE_NUMPY_FUNCS.items()}
    namesakes = sorted(n for n in dir(mg) if not n.startswith("_") and callable(getattr(mg, n)) and hasattr(np, n)
                       and callable(getattr(np, n)) and getattr(mg, n) is not getattr(np, n)
                       and not inspect.isclass(getattr(np, n)))
    methods = sorted(n for n in dir(Tensor) if not n.startswith("_") and hasattr(np.ndarray, n))
    return {"ufunc": reg_uf, "bool_only": bool_only, "const_only": const_only, "nodiff": nodiff, "diff": diff,
            "namesakes": namesakes, "methods": methods}


REDUCTIONS = ["sum", "prod", "mean", "std", "var", "max", "min", "amax", "amin", "cumsum", "cumprod"]
MANIP = ["reshape", "squeeze", "ravel", "expand_dims", "broadcast_to", "transpose", "moveaxis", "swapaxes", "roll",
         "repeat", "argmax", "argmin", "any"]
CREATION = {"arange", "empty", "empty_like", "eye", "full", "full_like", "geomspace", "identity", "linspace", "logspace",
            "ones", "ones_like", "zeros", "zeros_like", "asarray"}   # covered by C17
COVERED_ELSEWHERE = CREATION | {"load", "save", "ufunc"}


def generate(ctx, disc):
    per = ctx.n(100, 1500)
    rng = ctx.rng("tv")
    cases = list(F2_WITNESSES)
    covered = set()
    for name, (_m, nin) in sorted(disc["ufunc"].items()):
        cases += gen_ufunc(rng, name, nin, per)
        covered.add(name)
    for alias, target in (("abs", "absolute"), ("true_divide", "divide")):
        if alias in disc["namesakes"] and target in disc["ufunc"]:
            for c in gen_ufunc(rng, target, disc["ufunc"][target][1], per // 3):
                c["name"] = alias
                if c["route"] == "op":
                    c["route"] = "func"
                cases.append(c)
            covered.add(alias)
    for name, nin in sorted(disc["bool_only"].items()):
        cases += gen_noderiv(rng, name, nin, per // 2, False)
    for name, nin in sorted(disc["const_only"].items()):
        cases += gen_noderiv(rng, name, nin, per // 2, True)
    for name in REDUCTIONS:
        if name in disc["namesakes"]:
            cases += gen_reduction(rng, name, per)
            covered.add(name)
    for name in MANIP:
        if name in disc["namesakes"] or hasattr(Tensor, name):
            cases += gen_manip(rng, name, per)
            covered.add(name)
    for name in ("concatenate", "stack"):
        if name in disc["namesakes"]:
            cases += gen_seq(rng, name, per)
            covered.add(name)
    cases += gen_misc(rng, per)
    covered |= {"where", "clip", "atleast_1d", "atleast_2d", "atleast_3d", "einsum", "sinc"}
    if "norm" in {f for f in disc["diff"]}:
        covered.add("norm")
    cases += gen_nograd(rng, per // 3)
    cases += gen_tensor_api(rng, per)
    untemplated = sorted(set(disc["namesakes"]) - covered - COVERED_ELSEWHERE)
    m_cov = set(REDUCTIONS + MANIP + ["clip", "flatten", "item", "astype", "copy", "T", "shape", "ndim", "size", "dtype", "base"])
    untemplated_methods = sorted(set(disc["methods"]) - m_cov)
    return cases, untemplated, untemplated_methods


# ============================================================================================== shrinking & signatures

CANON = {"ufunc1": ["negative", "absolute", "sqrt", "exp"], "ufunc2": ["add", "multiply", "subtract", "divide", "maximum"],
         "noderiv1": ["isnan", "logical_not", "floor"], "noderiv2": ["less", "equal", "logical_and", "floor_divide"],
         "reduction": ["sum", "mean", "max", "cumsum"]}


def _arity_key(desc):
    if desc["cat"] in ("ufunc", "noderiv"):
        return desc["cat"] + str(len(desc["operands"]))
    return desc["cat"]


PY_SIMPLER = ["pyfloat", "pyint", "pybool"]  # simplest first


def _candidates(d):
    """simpler descriptors, in a fixed order (deletions / simplifications only)"""
    import copy

    def mod(f):
        d2 = copy.deepcopy(d)
        f(d2)
        return d2

    out = []
    if d.get("track") == "both":
        out.append(mod(lambda x: x.__setitem__("track", True)))
    if d["route"] != "func" and d["cat"] in ("ufunc", "reduction", "manip", "seq", "multi", "einsum", "norm") and d["name"] != "sinc":
        out.append(mod(lambda x: x.__setitem__("route", "func")))
    for k in list(d.get("kwargs", {})):
        out.append(mod(lambda x, k=k: x["kwargs"].pop(k)))
    for nm in CANON.get(_arity_key(d), []):
        if nm == d["name"]:
            break
        out.append(mod(lambda x, nm=nm: x.__setitem__("name", nm)))
    ops = d["operands"]
    # all array-like operands to one simpler dtype at once
    arrs = [i for i, o in enumerate(ops) if o["k"] not in PY_SIMPLER]
    if len(arrs) > 1:
        worst = max(SIMPLER_DT.index(ops[i]["dt"]) for i in arrs)
        for sd in SIMPLER_DT[:worst]:
            def f(x, sd=sd):
                for i in arrs:
                    x["operands"][i]["dt"] = sd
            out.append(mod(f))
    # a binary call with the tensor first
    if d["cat"] in ("ufunc", "noderiv") and len(ops) == 2 and ops[0]["k"] != "tensor" and ops[1]["k"] == "tensor":
        out.append(mod(lambda x: x["operands"].reverse()))
    for i, o in enumerate(ops):
        if o["k"] in PY_SIMPLER:
            out.append(mod(lambda x, i=i: x["operands"].__setitem__(i, od("tensor", "f64", (), fill=x["operands"][i]["fill"]))))
            for pk in PY_SIMPLER[:PY_SIMPLER.index(o["k"])]:
                out.append(mod(lambda x, i=i, pk=pk: x["operands"][i].__setitem__("k", pk)))
            if o["fill"] is None:
                out.append(mod(lambda x, i=i, k=o["k"]: x["operands"][i].__setitem__("fill", {"pybool": 1, "pyint": 1, "pyfloat": 0.1}[k])))
            continue
        if o["shape"] not in ([], [2]):
            for sh in ([], [2]):
                def f(x, i=i, sh=sh):
                    x["operands"][i]["shape"] = sh
                    x["operands"][i]["lay"] = "c"
                out.append(mod(f))
        if o["lay"] != "c":
            out.append(mod(lambda x, i=i: x["operands"][i].__setitem__("lay", "c")))
        if o["k"] in ("array", "npscalar", "list"):
            out.append(mod(lambda x, i=i: x["operands"][i].__setitem__("k", "tensor")))
        for sd in SIMPLER_DT[:SIMPLER_DT.index(o["dt"])]:
            out.append(mod(lambda x, i=i, sd=sd: x["operands"][i].__setitem__("dt", sd)))
        if o["fill"] is None:
            for fv in ((0.1, 1) if o["dt"] in ("f16", "f32", "f64") else (1,)):
                out.append(mod(lambda x, i=i, fv=fv: x["operands"][i].__setitem__("fill", fv)))
    return out


def shrink_case(desc, cls, seed, memo, final):
    """greedy minimisation by re-execution; `memo` caches outcomes, `final` the fixpoints already reached"""
    import copy

    def fails(d):
        k = stable_hash(d)
        if k not in memo:
            try:
                memo[k] = run_case(d, seed)["fail"]
            except Exception:  # noqa: BLE001
                memo[k] = "harness"
        return memo[k] == cls

    d = copy.deepcopy(desc)
    trail = []
    for _ in range(80):
        key = (cls, stable_hash(d))
        if key in final:
            d = final[key]
            break
        trail.append(key)
        for d2 in _candidates(d):
            if fails(d2):
                d = d2
                break
        else:
            break
    for key in trail:
        final[key] = d
    return d


def weak_scalar_attribution(desc, cls, seed):
    """Intervention that leaves the MyGrad call untouched: give *NumPy* every Python int/float operand the way
    `Tensor._op` casts it (`np.asarray(v)`: a 0-d int64/float64 array).  If MyGrad then agrees with NumPy, the failure
    is exactly the model's `mgForward = kernel (castOperands args)`, i.e. the weak-scalar casting (F2)."""
    import copy

    pys = [i for i, o in enumerate(desc["operands"]) if o["k"] in ("pyint", "pyfloat")]
    if not pys:
        return None
    try:
        d2 = copy.deepcopy(desc)
        for i in pys:
            d2["operands"][i]["np_cast"] = True
        if run_case(d2, seed)["fail"] is None:
            return sorted({desc["operands"][i]["k"] for i in pys})
    except Exception:  # noqa: BLE001
        return None
    return None


def pow_special_attribution(desc, cls, seed):
    """`tensor ** e` with `e` a Python/NumPy scalar or 0-d ndarray equal to 1 or 2 is routed by Tensor.__pow__ to
    Positive / Square, which never see the exponent (the repository's tests pin that routing).  The failure belongs to
    this family iff the exponent is of that kind *and* the same call through the function route (`mg.power`, no special
    casing) agrees with NumPy."""
    import copy
    from numbers import Number

    if not (desc["cat"] == "ufunc" and desc["name"] == "power" and desc["route"] == "op" and len(desc["operands"]) == 2):
        return None
    if desc["operands"][0]["k"] not in ("tensor", "tview"):
        return None
    try:
        rng = random.Random(_case_seed(desc, seed))
        objs = [build(o, rng) for o in desc["operands"]]
        e = objs[1][0]
        if not (isinstance(e, Number) or (isinstance(e, np.ndarray) and e.ndim == 0)):
            return None
        if not (e == 1 or e == 2):
            return None
        d2 = copy.deepcopy(desc)
        d2["route"] = "func"
        if run_case(d2, seed)["fail"] is None:
            return "pow-special-case"
    except Exception:  # noqa: BLE001
        return None
    return None


def signature(desc, cls, attributed=None, untracked_only=False):
    if attributed == "pow-special-case":
        return f"C03|{cls}|pow-special-case|route=op"
    if attributed:
        n = len(desc["operands"])
        # the family is per category of entry point: differentiable ufuncs and the other op categories cast Python
        # scalars in Tensor._op; the constant-only ufuncs (floor_divide, remainder, comparisons, ...) hand them to NumPy
        parts = [f"C03|{cls}|weak-python-scalar|{desc['cat']}|route={desc['route']}|{'unary' if n == 1 else 'binary' if n == 2 else 'nary'}"]
        if desc.get("kwargs") and cls == "raises":
            parts.append("kw=" + ",".join(sorted(desc["kwargs"])))
        return "|".join(parts)
    parts = [f"C03|{cls}|{desc['cat']}:{desc['name']}"]
    parts += [o_short(o) for o in desc["operands"]]
    if desc.get("kwargs"):
        parts.append("kw=" + ",".join(sorted(desc["kwargs"])))
    if desc["route"] != "func" and desc["cat"] in ("ufunc", "reduction", "manip", "seq", "multi", "einsum", "norm"):
        parts.append("route=" + desc["route"])
    if desc.get("track") is False or untracked_only:
        parts.append("untracked")
    return "|".join(parts)


def coarse_key(desc, cls):
    extra = ()
    if desc["name"] == "power" and desc["route"] == "op":
        # Tensor.__pow__ treats 0-d exponents specially (a recorded finding): keep them apart from the others
        extra = tuple((len(o["shape"]) == 0, o.get("fill")) for o in desc["operands"])
    return (cls, desc["cat"], desc["name"], desc["route"], tuple(o_short(o) for o in desc["operands"]),
            tuple(sorted(desc.get("kwargs", {}))), extra)


# ============================================================================================== run

def _tv_work(chunk):
    seed, cases = chunk
    out = []
    for d in cases:
        try:
            r = run_case(d, seed)
        except Exception as e:  # noqa: BLE001
            r = {"fail": "harness", "detail": f"{type(e).__name__}: {e}", "np": None, "mg": None}
        out.append(r)
    return out


def numpy_table_lines():
    lines, exp = [], []
    for a, b in itertools.product(REAL, repeat=2):
        lines.append(f"promote {a} {b}")
        exp.append(dname(np.promote_types(NP[a], NP[b])))
    for a, b, c in itertools.product(REAL, repeat=3):
        lines.append(f"rtn {a} {b} {c}")
        exp.append(dname(np.result_type(NP[a], NP[b], NP[c])))
    for c in ["safe", "same_kind", "unsafe"]:
        for a in REAL:
            for b in REAL:
                lines.append(f"cancast {c} {a} {b}")
                exp.append(str(int(np.can_cast(NP[a], NP[b], c))))
    shapes = [()] + [s for n in (1, 2, 3) for s in itertools.product((0, 1, 2, 3), repeat=n)]
    for a in shapes:
        for b in shapes:
            if len(a) + len(b) > 4 and (len(a) == 3 and len(b) == 3) and (a[0] + b[0]) % 2:
                continue
            lines.append(f"bcast {','.join(map(str, a)) or '-'} {','.join(map(str, b)) or '-'}")
            try:
                r = np.broadcast_shapes(a, b)
                exp.append("ok " + (",".join(map(str, r)) or "-"))
            except ValueError:
                exp.append("err")
    for n in [0, 1, -1, 2 ** 63 - 1, -2 ** 63, 2 ** 63, 2 ** 64 - 1, 2 ** 64, -2 ** 63 - 1, 12345678901234567890]:
        lines.append(f"castpy int {n}")
        a = np.asarray(n)
        exp.append(f"{dname(a.dtype)} {int(a)}" if a.dtype != object else "none")
    return lines, exp


def _ask_parallel(lines, procs=8):
    uniq = sorted(set(lines))
    if not uniq:
        return {}
    k = max(1, min(procs, len(uniq) // 3000 + 1))
    parts = [uniq[i::k] for i in range(k)]
    from concurrent.futures import ThreadPoolExecutor

    with ThreadPoolExecutor(k) as ex:
        outs = list(ex.map(ask, parts))
    table = {}
    for p, o in zip(parts, outs):
        table.update(zip(p, o))
    return table


def run(ctx: Ctx) -> Outcome:
    out = Outcome()
    out.rule = ("(i) exhaustive: promote_types 12x12, result_type 12^3, can_cast 3x12x12, broadcasting of all shape pairs of rank<=3 "
                "with dims 0..3, every registered ufunc x every operand kind (tensor n-d/0-d, ndarray n-d/0-d, NumPy scalar, "
                "Python bool/int/float) x dtype (12) pair, x dtype= (None + 12), tracked and untracked; "
                "(ii) seeded: per function/method/operator with a NumPy namesake N generated calls (operands over "
                "bool/i8/i32/i64/u8/f16/f32/f64, 0-d/empty/broadcast/sliced/transposed/reversed, Python and NumPy scalars; options "
                "axis/keepdims/ddof/dtype/where/out) run tracked and inside no_autodiff.  non-trivial = binary cell with two "
                "different dtypes or a weak scalar, or a differential call with an option or a non-contiguous/0-d/empty operand.")
    viol_raw = []   # (desc, class, detail)

    # ---------------- (i) NumPy tables vs the Lean model
    lines, exp = numpy_table_lines()
    got = ask(lines)
    n_np_bad = 0
    for l, g, e in zip(lines, got, exp):
        out.traces_validated += 1
        if g != e:
            n_np_bad += 1
            if len(out.corr_breaks) < 10:
                out.corr_breaks.append(CorrBreak("Lean NumPy-promotion table vs NumPy", {"query": l, "model": g, "numpy": e}))
    out.stats["numpy_table_lines"] = len(lines)
    out.stats["numpy_table_mismatches"] = n_np_bad

    assigned, unassigned, _ = classify_ufuncs()
    out.stats["ufunc_classes"] = {k: v[0] for k, v in assigned.items()}
    out.stats["ufuncs_without_model_class"] = unassigned
    cells = table_cells(assigned, ctx.thorough)
    chunks = [cells[i:i + 4000] for i in range(0, len(cells), 4000)]
    results = [r for ch in pmap(_table_work, chunks) for r in ch]
    qlines = []
    for c in cells:
        qlines += [table_line(c, 1), table_line(c, 0)]
        if c[3] is None and c[4] == "-":
            qlines.append("rt " + " ".join(f"{tk}:{dt}" for tk, dt in c[2]))
    model = _ask_parallel(qlines)
    n_model_bad = 0
    kinds_hist = {}
    for c, r in zip(cells, results):
        name, cls, operands, kw, carg = c
        out.evaluations += 1
        for tk, _ in operands:
            kinds_hist[tk] = kinds_hist.get(tk, 0) + 1
        if len(operands) == 2 and (operands[0][1] != operands[1][1] or any(tk in ("pyi", "pyf") for tk, _ in operands)):
            out.nontrivial.add(stable_hash(c))
        for tr in (1, 0):
            m = model[table_line(c, tr)]          # "np=<..> mg=<..>"
            m_np, m_mg = m.split(" ")[0][3:], m.split(" ")[1][3:]
            a_mg = r[f"mg{tr}"]
            if cls == "compare":
                a_mg = a_mg.split(",")[0]
                m_mg = m_mg.split(",")[0]
            out.traces_validated += 1
            if m_np != r["np"] or m_mg != a_mg:
                n_model_bad += 1
                if len(out.corr_breaks) < 20:
                    out.corr_breaks.append(CorrBreak("Dtype model (M7 ufunc table) vs NumPy/MyGrad",
                                                     {"cell": [name, cls, list(map(list, operands)), kw, carg, tr],
                                                      "model": m, "numpy": r["np"], "mygrad": r[f"mg{tr}"]}))
            # direct oracle: MyGrad's dtype / error vs NumPy's
            a_dt, n_dt = r[f"mg{tr}"].split(",")[0], r["np"]
            if carg == "-" and a_dt != n_dt:
                d = cell_desc(c, tr)
                is_err = lambda s: s.endswith("Error") or s.startswith("Other")  # noqa: E731
                klass = "accepts" if is_err(n_dt) and not is_err(a_dt) else "raises" if is_err(a_dt) and not is_err(n_dt) else \
                    None if (is_err(a_dt) and is_err(n_dt)) else "dtype"
                if klass:
                    viol_raw.append((d, klass, f"{name}{[f'{tk}:{dt}' for tk, dt in operands]} dtype={kw}: MyGrad {a_dt}, NumPy {n_dt}"))
        if kw is None and carg == "-":
            mrt = model["rt " + " ".join(f"{tk}:{dt}" for tk, dt in operands)].split(" ")[0][3:]
            if mrt != r["rt"]:
                n_model_bad += 1
                if len(out.corr_breaks) < 20:
                    out.corr_breaks.append(CorrBreak("Lean result_type (NEP 50) vs numpy.result_type",
                                                     {"operands": list(map(list, operands)), "model": mrt, "numpy": r["rt"]}))
    out.stats["table_cells"] = len(cells)
    out.stats["table_model_mismatches"] = n_model_bad
    out.stats["table_operand_kinds"] = kinds_hist

    # ---------------- (ii) translation validation
    disc = discover()
    cases, untemplated, untemplated_methods = generate(ctx, disc)
    chunks = [(ctx.seed, cases[i:i + 400]) for i in range(0, len(cases), 400)]
    tv = [r for ch in pmap(_tv_work, chunks) for r in ch]
    cat_hist, opt_hist, fail_hist = {}, {}, {}
    for d, r in zip(cases, tv):
        out.evaluations += 1
        key = f"{d['cat']}:{d['name']}"
        cat_hist[key] = cat_hist.get(key, 0) + 1
        for k in d.get("kwargs", {}):
            opt_hist[k] = opt_hist.get(k, 0) + 1
        for o in d["operands"]:
            if o["lay"] != "c":
                opt_hist["layout:" + o["lay"]] = opt_hist.get("layout:" + o["lay"], 0) + 1
            if o["k"] in ("pybool", "pyint", "pyfloat", "npscalar"):
                opt_hist["scalar:" + o["k"]] = opt_hist.get("scalar:" + o["k"], 0) + 1
            if 0 in o["shape"]:
                opt_hist["empty"] = opt_hist.get("empty", 0) + 1
        if d.get("kwargs") or any(o["lay"] != "c" or o["shape"] == [] or 0 in o["shape"] for o in d["operands"]):
            out.nontrivial.add(stable_hash(d))
        if r["fail"]:
            fail_hist[r["fail"]] = fail_hist.get(r["fail"], 0) + 1
            dd = dict(d)
            viol_raw.append((dd, r["fail"], r["detail"]))
        if len(out.samples) < 5 and d.get("kwargs") and out.evaluations % 97 == 0:
            out.samples.append({"call": key, "route": d["route"], "operands": [o_short(o) + str(o["shape"]) + o["lay"] for o in d["operands"]],
                                "kwargs": {k: (v if not isinstance(v, dict) else o_short(v)) for k, v in d["kwargs"].items()},
                                "numpy": r["np"], "mygrad": r["mg"]})
    out.stats["tv_calls_by_function"] = cat_hist
    out.stats["tv_options"] = opt_hist
    out.stats["tv_raw_failures"] = fail_hist
    out.stats["namesakes_without_template"] = untemplated
    out.stats["methods_without_template"] = untemplated_methods
    out.stats["discovered"] = {"ufuncs": len(disc["ufunc"]), "bool_only": len(disc["bool_only"]), "const_only": len(disc["const_only"]),
                               "numpy_overrides": len(disc["diff"]), "namesakes": len(disc["namesakes"]), "methods": len(disc["methods"])}

    # ---------------- shrink, sign
    groups = {}
    outside = 0
    for d, cls, detail in viol_raw:
        if cls == "harness":
            out.corr_breaks.append(CorrBreak("harness exception in a differential case", {"case": d, "detail": detail}))
            continue
        if cls == "accepts":
            outside += 1   # NumPy rejects the call: outside the property's quantifier ("combinations NumPy accepts")
            continue
        groups.setdefault(coarse_key(d, cls), (d, cls, detail))
    out.stats["calls_numpy_rejects_but_mygrad_accepts"] = outside
    memo, final = {}, {}
    shrunk = [shrink_case(d, cls, ctx.seed, memo, final) for d, cls, _ in groups.values()]
    out.stats["shrink_executions"] = len(memo)
    seen = {}
    attr_memo = {}
    for (d0, cls, detail), d in zip(groups.values(), shrunk):
        if pow_special_attribution(d, cls, ctx.seed) and not pow_special_attribution(d0, cls, ctx.seed):
            d = d0  # shrinking walked into the recorded 0-d family: report the case as it was found
        hk = (cls, stable_hash(d))
        if hk not in attr_memo:
            attr_memo[hk] = pow_special_attribution(d, cls, ctx.seed) or weak_scalar_attribution(d, cls, ctx.seed)
        r = run_case(d, ctx.seed)
        sig = signature(d, cls, attr_memo[hk], untracked_only=(d.get("track") == "both" and r.get("track_failed") is False))
        if sig in seen:
            continue
        seen[sig] = True
        out.violations.append(Violation(sig, f"{d['cat']}:{d['name']} route={d['route']} operands={[o_short(o) for o in d['operands']]} "
                                             f"kwargs={sorted(d.get('kwargs', {}))}: {cls}: {r['detail'] or detail}",
                                        {"case": d, "class": cls, "seed": ctx.seed}))
    out.stats["distinct_signatures"] = len(seen)
    out.extra["exhaustive_tables"] = True
    out.assumptions = [
        "NumPy 2 (NEP 50) is the oracle; the bits of its kernels are trusted",
        "options are drawn from the intersection of NumPy's and MyGrad's signatures (MyGrad's reductions take no dtype/where/out)",
        "creation routines, asarray/astype/copy aliasing are covered by C17; save/load by C18",
        "const-only ufuncs (floor, sign, mod, ...) are exercised on constant tensors (they refuse non-constant ones by design)",
    ]
    return out


def replay(data) -> bool:
    r = data["replay"]
    d, cls = r["case"], r["class"]
    res = run_case(d, r.get("seed", 0))
    print("case:", d["cat"], d["name"], "route=" + d["route"], [o_short(o) + str(o["shape"]) for o in d["operands"]], d.get("kwargs"))
    print("numpy :", res["np"])
    print("mygrad:", res["mg"])
    print("failure class:", res["fail"], "-", res["detail"])
    return res["fail"] == cls


MANIFEST = {
    "category": "translation_validation",
    "design_ref": "DESIGN.md §5 C03",
    "technique": "Lean 4 proofs over the complete finite dtype x operand-kind tables (NumPy-2/NEP-50 promotion, MyGrad's operand "
                 "casting, ufunc loop classes, dtype=; broadcasting by induction) + exhaustive check of those tables against "
                 "NumPy and MyGrad + seeded differential execution of every function/method/operator with a NumPy namesake "
                 "against NumPy (values bitwise, shape, dtype; tracked and untracked)",
    "text": "Proved in Lean (MG.C03): dtype_parity_exact / dtype_parity_partial — MyGrad's result dtype equals NumPy's for every "
            "operand-kind x dtype pair exactly outside the cells where a weak Python int/float meets a narrower strong operand "
            "(dtype_parity_neg: the full statement is false, F2); ufunc_parity_exact / unary_parity_exact — the same per ufunc "
            "loop class and dtype= (incl. the cells where MyGrad raises and NumPy does not); shape_parity — the broadcasting rule "
            "is NumPy's per-axis rule, commutative and associative, for all shapes; tracking_invariance; cast_preserves_value. "
            "The tables are checked exhaustively against numpy.promote_types/result_type/can_cast/broadcast_shapes and against "
            "MyGrad's actual results on every run. Values are validated by translation validation only: the NumPy kernels are "
            "called on both sides and compared bitwise; their bits are trusted.",
    "note": "Trusted: Lean kernel (axioms propext, Quot.sound), NumPy kernels, the harness' operand builders and comparison. "
            "The value/shape clauses for non-ufunc functions are differential (seeded), not proved. Open findings on the "
            "unchanged tree (known_findings/C03.json): the F2 family (Python scalars cast to 0-d int64/float64 arrays; 5 "
            "signatures, attributed by an intervention that hands NumPy the same cast), Tensor.__pow__ special-casing of "
            "exponents 1 and 2, where() with a Tensor condition (RecursionError), linalg.norm(ord=+-inf) inside no_autodiff "
            "(AttributeError), clip(..., out=ndarray) with both bounds (read-only error). Calls NumPy itself rejects are outside "
            "the quantifier and only counted.",
}

MANIFEST_ADDENDUM = "Generator additions: operands and out= targets that are tensor views reached through a layout-dependent reshape of a Fortran-ordered base; dtype= together with where= and/or out=; tensor-valued where masks; exponents of one element in 0..3 dimensions; Tensor.__pow__'s value-dependent routing is attributed by intervention (the failure vanishes through mg.power). Round 5: methods (outer/reduce/accumulate) of the ufuncs that act on the tensors' arrays; 0-d operands reduced over an explicit integer axis; linalg.norm over integer/boolean operands and ord=-inf."
