"""C16 — nnet layers equal their documented equations for every valid configuration.

(i)  correspondence: accept/reject (exception class), output shape, element strides, read-only flag and
     integer values of sliding_window_view / conv_nd / max_pool, real MyGrad vs the Lean model (M9) through
     the driver (`nnet …` lines);
(ii) direct oracle, independent of the model: documented validity predicate == acceptance, elementwise
     `out[g,n,k] == arr[n, g*s+k*d]`, byte bounds of the view inside `arr`, writeable False, conv/pool
     forward + backward vs naive loops (exact on integers, 1e-10 on floats), batchnorm / gru / softmax /
     logsoftmax / losses vs their documented formulas at 1e-10;
(iii) the witnesses of the `_neg` theorems replayed on the implementation.
"""
from __future__ import annotations

import itertools
import math
import random

import numpy as np

import mygrad as mg
from mygrad.nnet.layers.utils import sliding_window_view
from mygrad.nnet.layers import conv_nd, max_pool, batchnorm
from mygrad.nnet.activations import softmax, logsoftmax
from mygrad.nnet.losses import (focal_loss, margin_ranking_loss, multiclass_hinge, negative_log_likelihood,
                                softmax_crossentropy, softmax_focal_loss)

from ..core import CorrBreak, Ctx, Outcome, Violation, pmap, stable_hash
from ..leanbuild import run_driver

ID = "C16"
LEVEL = "proof"
THEOREMS = {
    "MG.Proofs.C16": [
        "MG.C16.swv_accepts_iff",
        "MG.C16.swvSeq_accepts_iff",
        "MG.C16.swvSeq_rejects_length_mismatch",
        "MG.C16.swv_shape",
        "MG.C16.swv_offset",
        "MG.C16.swv_element",
        "MG.C16.swv_in_bounds",
        "MG.C16.conv_accepts_iff",
        "MG.C16.conv_rejects_valid_neg",
        "MG.C16.conv_accepts_iff_tiles_partial",
        "MG.C16.dil_fits_of_dilation_one",
        "MG.C16.conv_get_impl_eq_naive",
        "MG.C16.conv_impl_eq_naive",
        "MG.C16.pool_accepts_iff",
        "MG.C16.pool_get_impl_eq_naive",
        "MG.C16.pool_impl_eq_naive",
        "MG.C16.softmax_shift",
        "MG.C16.logsoftmax_shift",
        "MG.C16.softmax_sum_one",
    ]
}

RTOL = 1e-10
SENT = 7777.0  # sentinel filling the slack around every test array (out-of-bounds reads stay inside `big`)
SLACK = 512
L_BAD = "layout:c-contiguous-flag,last-stride!=itemsize"


# ====================================================================== arrays with a chosen memory layout


def make_array(shape, layout, values):
    """An ndarray of `shape` holding `values` (row-major), living inside a larger sentinel-filled buffer.

    layouts: C  ordinary C-contiguous            T  transposed (non-contiguous when it matters)
             B  np.broadcast_to along the last axis (stride 0, read-only, non-contiguous)
             S  every second element of a wider buffer (non-contiguous)
             N0 `a[..., None]`   : last axis of size 1 with stride 0      (NumPy sets the C-contiguous flag)
             NT `a.swapaxes(-1,-2)` of a (…,1,m) array: last stride = m items (C-contiguous flag set)
             L  `a[::2]` of a buffer twice as long along the first axis (only a leading axis is strided)
             R  `a[::-1]` (negative stride on the first axis)
    Returns (arr, keepalive)."""
    shape = tuple(int(i) for i in shape)
    n = int(np.prod(shape)) if shape else 1
    vals = np.asarray(values, dtype=np.float64).reshape(-1)
    assert vals.size == n
    if layout == "S":
        big = np.full(2 * n + 2 * SLACK, SENT)
        big[SLACK:SLACK + 2 * n:2] = vals
        core = big[SLACK:SLACK + 2 * n]
        if not shape:
            return core[:1].reshape(()), big
        arr = core.reshape(shape[:-1] + (2 * shape[-1],))[..., ::2]
        return arr, big
    if layout == "L":  # every second index of the FIRST axis of a larger buffer: only a leading axis is strided
        big = np.full(2 * n + 2 * SLACK, SENT)
        arr = big[SLACK:SLACK + 2 * n].reshape((2 * shape[0],) + shape[1:])[::2]
        arr[...] = vals.reshape(shape)
        return arr, big
    if layout == "R":  # the first axis reversed (negative leading stride, trailing axes contiguous)
        big = np.full(n + 2 * SLACK, SENT)
        core = big[SLACK:SLACK + n].reshape(shape)
        core[...] = vals.reshape(shape)[::-1]
        return core[::-1], big
    big = np.full(n + 2 * SLACK, SENT)
    core = big[SLACK:SLACK + n]
    if layout == "C" or not shape:
        core[:] = vals
        return core.reshape(shape), big
    if layout == "T":
        perm = tuple(range(len(shape)))[::-1]
        src = vals.reshape(shape).transpose(perm)  # shape reversed
        core[:] = np.ascontiguousarray(src).reshape(-1)
        return core.reshape(src.shape).transpose(perm), big
    if layout == "N0":
        assert shape[-1] == 1
        core[:] = vals
        return core.reshape(shape[:-1])[..., None], big
    if layout == "NT":
        assert len(shape) >= 2 and shape[-1] == 1
        core[:] = vals
        return core.reshape(shape[:-2] + (1, shape[-2])).swapaxes(-1, -2), big
    if layout == "B":  # broadcast view: the last axis repeats one stored element (stride 0, read-only)
        assert shape[-1] > 1
        m = n // shape[-1]
        core[:m] = vals.reshape(shape)[..., 0].reshape(-1)
        return np.broadcast_to(core[:m].reshape(shape[:-1] + (1,)), shape), big
    raise ValueError(layout)


def layouts_for(shape, allow_b=True):
    ls = ["C"]
    if len(shape) >= 2:
        ls.append("T")
        if shape[0] > 1:
            ls += ["L", "R"]
    if len(shape) >= 1 and shape[-1] > 1:
        ls.append("S")
        if allow_b:
            ls.append("B")
    if len(shape) >= 1 and shape[-1] == 1:
        ls.append("N0")
        if len(shape) >= 2 and shape[-2] > 1:
            ls.append("NT")
    return ls


def layout_class(shape, layout):
    """C | noncontig | bad (C-contiguous flag set although the last stride is not the item size)"""
    shape = [int(i) for i in shape]
    if layout == "C" or not shape or layout not in layouts_for(shape):
        return "C"
    n = int(np.prod(shape))
    a, _ = make_array(shape, layout, np.zeros(n))
    if not a.flags["C_CONTIGUOUS"]:
        return "noncontig"
    return "bad" if a.strides[-1] != a.itemsize else "C"


def layout_feats(f, shape, layout):
    lc = layout_class(shape, layout)
    if lc == "bad":
        f.append(L_BAD)
    elif lc == "noncontig":
        f.append("layout:non-contiguous")
    return f


def sig_feats(f):
    """feature list as it enters a signature"""
    if L_BAD in f:
        # the structural features only say how the >= 2 elements needed to see the defect were obtained
        f = [x for x in f if x not in ("k>1", "batch", "batch/channels>1")]
    return f


def extent(a):
    """byte interval [lo, hi) an array can touch (computed from shape/strides only)"""
    if a.size == 0:
        return None
    p = a.__array_interface__["data"][0]
    lo = hi = p
    for n, st in zip(a.shape, a.strides):
        if st > 0:
            hi += (n - 1) * st
        else:
            lo += (n - 1) * st
    return lo, hi + a.itemsize


def owner(a):
    last = a
    b = a
    while getattr(b, "base", None) is not None:
        b = b.base
        if isinstance(b, np.ndarray):
            last = b
    return last


def csv(l):
    l = list(l)
    return ",".join(str(int(i)) for i in l) if l else "-"


def exc_name(e):
    n = type(e).__name__
    return n if n in ("TypeError", "ValueError", "AssertionError", "IndexError") else "Other:" + n


def parse_obs(o):
    if o.startswith("err "):
        return {"err": o[4:]}
    if not o.startswith("ok"):
        return {"bad": o}
    d = {}
    for tok in o.split()[1:]:
        k, _, v = tok.partition("=")
        d[k] = v
    return d


def form(vals, mode):
    """how a per-axis parameter is spelled: scalar when uniform and mode asks, else tuple/list/array"""
    vals = [int(v) for v in vals]
    if mode == "int" and len(set(vals)) == 1 and vals:
        return vals[0]
    if mode == "list":
        return list(vals)
    if mode == "array":
        return np.array(vals, dtype=int)
    return tuple(vals)


def close(a, b, scale=None):
    a = np.asarray(a, dtype=np.float64)
    b = np.asarray(b, dtype=np.float64)
    if a.shape != b.shape:
        return False
    if a.size == 0:
        return True
    s = np.maximum(np.abs(b), 1.0) if scale is None else np.maximum(scale, 1.0)
    return bool(np.all(np.abs(a - b) <= RTOL * s))


# ====================================================================== sliding_window_view


def swv_features(cfg):
    f = []
    ax = cfg["axes"]
    if len(ax) > 1:
        f.append("k>1")
    if cfg["batch"]:
        f.append("batch")
    if any(a[2] > 1 for a in ax):
        f.append("s>1")
    if any(a[3] > 1 for a in ax):
        f.append("d>1")
    if any(a[1] <= 0 or a[2] <= 0 or a[3] <= 0 for a in ax):
        f.append("nonpositive")
    return layout_feats(f, cfg_shape("swv", cfg), cfg.get("layout", "C"))


def swv_valid(cfg):
    """the documented rule: >= 1 windowed axis, positive window/step/dilation, window*dilation extent fits"""
    if not cfg["axes"]:
        return False
    return all(w >= 1 and s >= 1 and d >= 1 and w * d <= x for x, w, s, d in cfg["axes"])


def swv_values(cfg):
    shape = list(cfg["batch"]) + [a[0] for a in cfg["axes"]]
    n = int(np.prod(shape)) if shape else 1
    return list(range(1, n + 1))


def swv_run(cfg):
    """execute on the implementation; returns observation dict + list of (class, detail) oracle failures"""
    shape = list(cfg["batch"]) + [a[0] for a in cfg["axes"]]
    vals = swv_values(cfg)
    arr, keep = make_array(shape, cfg.get("layout", "C"), vals)
    ax = cfg["axes"]
    window = form([a[1] for a in ax], cfg.get("wform", "tuple"))
    if isinstance(window, int):
        window = (window,)
    step = form([a[2] for a in ax], cfg.get("sform", "tuple"))
    dil = [a[3] for a in ax]
    dform = cfg.get("dform", "tuple")
    dilation = None if (dform == "none" and all(d == 1 for d in dil)) else form(dil, "int" if dform == "none" else dform)
    vals = [int(v) for v in np.array(arr).reshape(-1)]  # logical content (differs from `vals` for layout B)
    obs = {"data": vals}
    fails = []
    valid = swv_valid(cfg)
    try:
        out = sliding_window_view(arr, window_shape=window, step=step, dilation=dilation)
    except Exception as e:
        obs["err"] = exc_name(e)
        if valid:
            fails.append(("valid-config-rejected", f"{obs['err']}: {str(e)[:80]}"))
        return obs, fails
    if not valid:
        fails.append(("invalid-config-accepted", f"returned shape {out.shape}"))
    obs["shape"] = list(out.shape)
    obs["wr"] = int(out.flags.writeable)
    isz = arr.itemsize
    obs["strides"] = [st // isz if st % isz == 0 else None for st in out.strides]
    if out.flags.writeable:
        fails.append(("writeable", "view is writeable"))
    if not valid:
        return obs, fails
    # ---- shape: number of placements counted naively
    G = [sum(1 for g in range(x + 1) if g * s + (w - 1) * d + 1 <= x) for x, w, s, d in ax]
    exp_shape = G + list(cfg["batch"]) + [a[1] for a in ax]
    if list(out.shape) != exp_shape:
        fails.append(("shape-mismatch", f"got {tuple(out.shape)} expected {tuple(exp_shape)}"))
        return obs, fails
    # ---- memory: the view must stay inside arr (or inside the private copy made for a non-contiguous arr)
    eo, ea = extent(out), extent(arr)
    oob = False
    if eo is not None:
        if eo[0] < ea[1] and ea[0] < eo[1]:  # overlaps arr: must be inside arr
            allowed = ea
        else:
            allowed = extent(owner(out))
        if not (allowed[0] <= eo[0] and eo[1] <= allowed[1]):
            oob = True
            fails.append(("out-of-bounds", f"view bytes [{eo[0] - ea[0]}, {eo[1] - ea[0]}) vs arr bytes [0, {ea[1] - ea[0]})"))
    # ---- elements
    k = len(ax)
    exp = np.empty(out.shape)
    for g in np.ndindex(*G):
        for kk in np.ndindex(*[a[1] for a in ax]):
            idx = tuple(gi * a[2] + ki * a[3] for gi, ki, a in zip(g, kk, ax))
            exp[g + (Ellipsis,) + kk] = arr[(Ellipsis,) + idx]
    got = np.array(out)
    obs["vals"] = [int(v) for v in got.reshape(-1)] if np.all(np.isfinite(got)) and np.all(got == np.round(got)) and np.all(np.abs(got) < 1e9) else None
    if not oob and not np.array_equal(got, exp):
        bad = np.argwhere(got != exp)[0]
        fails.append(("wrong-element", f"out{tuple(int(i) for i in bad)} = {got[tuple(bad)]} expected {exp[tuple(bad)]}"))
    return obs, fails


def swv_line(cfg, obs):
    ax = ";".join(":".join(str(int(v)) for v in a) for a in cfg["axes"]) or "-"
    return f"nnet swv {csv(cfg['batch'])} {ax} {csv(obs['data'])}"


def swv_diff(obs, m):
    """differences between the implementation's observation and the model's (public observables only)"""
    if "bad" in m:
        return {"model": m["bad"]}
    if "err" in obs or "err" in m:
        if obs.get("err") != m.get("err"):
            return {"impl": obs.get("err", "accepted"), "model": m.get("err", "accepted")}
        return None
    d = {}
    if csv(obs["shape"]) != m["shape"]:
        d["shape"] = (csv(obs["shape"]), m["shape"])
    if None in obs["strides"] or csv(obs["strides"]) != m["strides"]:
        # strides of axes of length 1 (and of empty views) are not observable behaviour
        sh = obs["shape"]
        ms = m["strides"].split(",") if m["strides"] != "-" else []
        rel = [i for i, n in enumerate(sh) if n > 1] if all(n > 0 for n in sh) else []
        if len(ms) != len(sh) or any(obs["strides"][i] is None or str(obs["strides"][i]) != ms[i] for i in rel):
            d["strides"] = (obs["strides"], m["strides"])
    if str(obs["wr"]) != m["wr"]:
        d["writeable"] = (obs["wr"], m["wr"])
    if m.get("oob") == "0" and "vals" in obs and obs["vals"] is not None and csv(obs["vals"]) != m["vals"]:
        d["vals"] = (csv(obs["vals"])[:80], m["vals"][:80])
    return d or None


# ====================================================================== conv_nd


def conv_features(cfg):
    f = []
    ax = cfg["axes"]
    if len(ax) > 1:
        f.append("k>1")
    if cfg["n"] > 1 or cfg["c"] > 1 or cfg["f"] > 1:
        f.append("batch/channels>1")
    if cfg["c"] != cfg["cw"]:
        f.append("c!=cw")
    if any(a[2] > 1 for a in ax):
        f.append("s>1")
    if any(a[3] > 0 for a in ax):
        f.append("p>0")
    if any(a[4] > 1 for a in ax):
        f.append("d>1")
    if any(a[1] * a[4] > a[0] + 2 * a[3] for a in ax if a[1] >= 1 and a[4] >= 1 and a[3] >= 0):
        f.append("w*d>x+2p")
    if any(a[2] <= 0 or a[3] < 0 or a[4] <= 0 or a[1] <= 0 for a in ax):
        f.append("nonpositive")
    return layout_feats(f, cfg_shape("conv", cfg), cfg.get("layout", "C"))


def conv_valid(cfg):
    """documented: every filter placement inside the padded data, placements tile it exactly"""
    if not cfg["axes"] or cfg["c"] != cfg["cw"]:
        return False
    for x, w, s, p, d in cfg["axes"]:
        if not (w >= 1 and s >= 1 and d >= 1 and p >= 0):
            return False
        e = (w - 1) * d + 1
        if e > x + 2 * p or (x + 2 * p - e) % s != 0:
            return False
    return True


def conv_naive(x, w, S, P, D):
    """out[n,f,g] = sum_{c,k} w[f,c,k] * xpad[n,c,g*s+k*d] — plain loops over placements and taps"""
    N, C = x.shape[:2]
    F = w.shape[0]
    X, W = x.shape[2:], w.shape[2:]
    xp = np.zeros((N, C) + tuple(xi + 2 * p for xi, p in zip(X, P)), dtype=np.float64)
    xp[(slice(None), slice(None)) + tuple(slice(p, p + xi) for xi, p in zip(X, P))] = x
    G = tuple((xi + 2 * p - ((wi - 1) * d + 1)) // s + 1 for xi, wi, s, p, d in zip(X, W, S, P, D))
    out = np.zeros((N, F) + G)
    mag = np.zeros((N, F) + G)
    for g in np.ndindex(*G):
        for k in np.ndindex(*W):
            pos = tuple(gi * s + ki * d for gi, ki, s, d in zip(g, k, S, D))
            a = xp[(slice(None), slice(None)) + pos]  # (N, C)
            b = w[(slice(None), slice(None)) + k]  # (F, C)
            for n in range(N):
                for f in range(F):
                    for c in range(C):
                        out[(n, f) + g] += b[f, c] * a[n, c]
                        mag[(n, f) + g] += abs(b[f, c] * a[n, c])
    return out, mag, xp, G


def conv_naive_grads(x, w, S, P, D, gout, xp, G):
    N, C = x.shape[:2]
    F = w.shape[0]
    X, W = x.shape[2:], w.shape[2:]
    dxp = np.zeros_like(xp)
    dw = np.zeros(w.shape)
    for g in np.ndindex(*G):
        for k in np.ndindex(*W):
            pos = tuple(gi * s + ki * d for gi, ki, s, d in zip(g, k, S, D))
            go = gout[(slice(None), slice(None)) + g]  # (N, F)
            dxp[(slice(None), slice(None)) + pos] += go @ w[(slice(None), slice(None)) + k]  # (N,F)@(F,C)
            dw[(slice(None), slice(None)) + k] += go.T @ xp[(slice(None), slice(None)) + pos]  # (F,N)@(N,C)
    dx = dxp[(slice(None), slice(None)) + tuple(slice(p, p + xi) for xi, p in zip(X, P))]
    return dx, dw


def conv_data(cfg, kind):
    rng = random.Random(f"convdata:{cfg.get('seed', 0)}:{stable_hash([cfg['n'], cfg['c'], cfg['cw'], cfg['f'], cfg['axes']])}:{kind}")
    xs = [cfg["n"], cfg["c"]] + [a[0] for a in cfg["axes"]]
    ws = [cfg["f"], cfg["cw"]] + [a[1] for a in cfg["axes"]]
    nx, nw = int(np.prod(xs)), int(np.prod(ws))
    if kind == "int" and "xdata" in cfg and len(cfg["xdata"]) == nx and len(cfg["wdata"]) == nw:
        return xs, ws, list(cfg["xdata"]), list(cfg["wdata"])
    if kind == "int":
        xv = [v for v in range(-(nx // 2) - 1, nx + 2) if v != 0][:nx]  # distinct, non-zero
        rng.shuffle(xv)
        return xs, ws, xv, [rng.choice([-3, -2, -1, 1, 2, 3]) for _ in range(nw)]
    return xs, ws, [rng.uniform(-3, 3) for _ in range(nx)], [rng.uniform(-2, 2) for _ in range(nw)]


def conv_run(cfg, kind="int"):
    xs, ws, xv, wv = conv_data(cfg, kind)
    xarr, keep = make_array(xs, cfg.get("layout", "C"), xv)
    warr = np.array(wv, dtype=np.float64).reshape(ws)
    ax = cfg["axes"]
    S, P, D = [a[2] for a in ax], [a[3] for a in ax], [a[4] for a in ax]
    xlog = np.array(xarr, dtype=np.float64)  # logical content (differs from `xv` for layout B)
    xv = [int(v) for v in xlog.reshape(-1)] if kind == "int" else list(xlog.reshape(-1))
    obs = {"xdata": xv, "wdata": wv}
    fails = []
    valid = conv_valid(cfg)
    xt, wt = mg.astensor(xarr), mg.astensor(warr)
    try:
        out = conv_nd(xt, wt, stride=form(S, cfg.get("sform", "tuple")), padding=form(P, cfg.get("pform", "tuple")),
                      dilation=form(D, cfg.get("dform", "tuple")))
    except Exception as e:
        obs["err"] = exc_name(e)
        if valid:
            fails.append(("valid-config-rejected", f"{obs['err']}: {str(e)[:60]!r}"))
        return obs, fails
    if not valid:
        fails.append(("invalid-config-accepted", f"returned shape {out.shape}"))
        obs["shape"] = list(out.shape)
        return obs, fails
    got = np.array(out.data)
    obs["shape"] = list(got.shape)
    if kind == "int" and np.all(np.isfinite(got)) and np.all(got == np.round(got)) and np.all(np.abs(got) < 1e12):
        obs["vals"] = [int(v) for v in got.reshape(-1)]
    exp, mag, xp, G = conv_naive(np.array(xv, dtype=np.float64).reshape(xs), warr, S, P, D)
    if got.shape != exp.shape:
        fails.append(("shape-mismatch", f"got {got.shape} expected {exp.shape}"))
        return obs, fails
    okv = np.array_equal(got, exp) if kind == "int" else close(got, exp, mag)
    if not okv:
        bad = np.argwhere(~np.isclose(got, exp, rtol=RTOL, atol=0))[0]
        fails.append(("value-mismatch", f"out{tuple(int(i) for i in bad)} = {got[tuple(bad)]} expected {exp[tuple(bad)]}"))
        return obs, fails
    # ---- backward: d/dx and d/dw of sum(out * gout)
    rng = random.Random(f"convg:{cfg.get('seed', 0)}:{kind}")
    gv = [rng.randint(-3, 3) if kind == "int" else rng.uniform(-2, 2) for _ in range(exp.size)]
    gout = np.array(gv, dtype=np.float64).reshape(exp.shape)
    try:
        (out * gout).sum().backward()
        dx, dw = np.array(xt.grad), np.array(wt.grad)
    except Exception as e:
        fails.append(("grad-raised", exc_name(e) + ": " + str(e)[:60]))
        return obs, fails
    edx, edw = conv_naive_grads(np.array(xv, dtype=np.float64).reshape(xs), warr, S, P, D, gout, xp, G)
    sc = float(np.abs(gout).sum() * max(np.abs(warr).max(initial=0), np.abs(xp).max(initial=0), 1.0))
    for nm, a, b in (("dx", dx, edx), ("dw", dw, edw)):
        if a.shape != b.shape or not (np.array_equal(a, b) if kind == "int" else close(a, b, np.full(b.shape, sc))):
            fails.append(("grad-mismatch", f"{nm} differs from the naive derivative"))
            break
    return obs, fails


def conv_line(cfg, obs):
    ax = ";".join(":".join(str(int(v)) for v in a) for a in cfg["axes"]) or "-"
    return (f"nnet conv {cfg['n']} {cfg['c']} {cfg['cw']} {cfg['f']} {ax} "
            f"{csv(obs['xdata'])} {csv(obs['wdata'])}")


def op_diff(obs, m):
    if "bad" in m:
        return {"model": m["bad"]}
    if "err" in obs or "err" in m:
        if obs.get("err") != m.get("err"):
            return {"impl": obs.get("err", "accepted"), "model": m.get("err", "accepted")}
        return None
    d = {}
    if csv(obs["shape"]) != m["shape"]:
        d["shape"] = (csv(obs["shape"]), m["shape"])
    if m.get("oob") == "0" and obs.get("vals") is not None and csv(obs["vals"]) != m.get("vals"):
        d["vals"] = (csv(obs["vals"])[:80], m.get("vals", "")[:80])
    return d or None


# ====================================================================== max_pool


def pool_features(cfg):
    f = []
    ax = cfg["axes"]
    if len(ax) > 1:
        f.append("k>1")
    if cfg["batch"]:
        f.append("batch")
    if any(a[2] > 1 for a in ax):
        f.append("s>1")
    if any(a[1] <= 0 or a[2] <= 0 for a in ax):
        f.append("nonpositive")
    return layout_feats(f, cfg_shape("pool", cfg), cfg.get("layout", "C"))


def pool_valid(cfg):
    if not cfg["axes"]:
        return False
    return all(w >= 1 and s >= 1 and w <= x and (x - w) % s == 0 for x, w, s in cfg["axes"])


def pool_data(cfg, kind):
    shape = list(cfg["batch"]) + [a[0] for a in cfg["axes"]]
    n = int(np.prod(shape)) if shape else 1
    rng = random.Random(f"pooldata:{cfg.get('seed', 0)}:{stable_hash([cfg['batch'], cfg['axes']])}:{kind}")
    if kind == "int" and "data" in cfg and len(cfg["data"]) == n:
        return shape, list(cfg["data"])
    vals = list(range(-(n // 2), n - n // 2))  # distinct: the arg-max of every window is unique
    rng.shuffle(vals)
    if kind == "float":
        vals = [v + rng.uniform(-0.3, 0.3) for v in vals]
    return shape, vals


def pool_run(cfg, kind="int"):
    shape, vals = pool_data(cfg, kind)
    arr, keep = make_array(shape, cfg.get("layout", "C"), vals)
    ax = cfg["axes"]
    obs = {"data": vals}
    fails = []
    valid = pool_valid(cfg)
    xt = mg.astensor(arr)
    pool = form([a[1] for a in ax], cfg.get("wform", "tuple"))
    if isinstance(pool, int):
        pool = (pool,)
    try:
        out = max_pool(xt, pool, form([a[2] for a in ax], cfg.get("sform", "tuple")))
    except Exception as e:
        obs["err"] = exc_name(e)
        if valid:
            fails.append(("valid-config-rejected", f"{obs['err']}: {str(e)[:60]!r}"))
        return obs, fails
    if not valid:
        fails.append(("invalid-config-accepted", f"returned shape {out.shape}"))
        obs["shape"] = list(out.shape)
        return obs, fails
    got = np.array(out.data)
    obs["shape"] = list(got.shape)
    if kind == "int" and np.all(np.isfinite(got)) and np.all(got == np.round(got)) and np.all(np.abs(got) < 1e9):
        obs["vals"] = [int(v) for v in got.reshape(-1)]
    x = np.array(vals, dtype=np.float64).reshape(shape)
    G = [(xi - w) // s + 1 for xi, w, s in ax]
    B = tuple(cfg["batch"])
    exp = np.empty(B + tuple(G))
    gv_rng = random.Random(f"poolg:{cfg.get('seed', 0)}")
    gout = np.array([gv_rng.randint(-3, 3) for _ in range(exp.size)], dtype=np.float64).reshape(exp.shape)
    edx = np.zeros(x.shape)
    for b in np.ndindex(*B):
        for g in np.ndindex(*G):
            best, where = None, None
            for kk in np.ndindex(*[a[1] for a in ax]):
                idx = b + tuple(gi * a[2] + ki for gi, ki, a in zip(g, kk, ax))
                if best is None or x[idx] > best:
                    best, where = x[idx], idx
            exp[b + g] = best
            edx[where] += gout[b + g]
    if got.shape != exp.shape:
        fails.append(("shape-mismatch", f"got {got.shape} expected {exp.shape}"))
        return obs, fails
    if not np.array_equal(got, exp):
        bad = np.argwhere(got != exp)[0]
        fails.append(("value-mismatch", f"out{tuple(int(i) for i in bad)} = {got[tuple(bad)]} expected {exp[tuple(bad)]}"))
        return obs, fails
    try:
        (out * gout).sum().backward()
        dx = np.array(xt.grad)
    except Exception as e:
        fails.append(("grad-raised", exc_name(e) + ": " + str(e)[:60]))
        return obs, fails
    if dx.shape != edx.shape or not np.array_equal(dx, edx):
        fails.append(("grad-mismatch", "dx differs from routing each output gradient to its window's maximum"))
    return obs, fails


def pool_line(cfg, obs):
    ax = ";".join(":".join(str(int(v)) for v in a) for a in cfg["axes"]) or "-"
    return f"nnet pool {csv(cfg['batch'])} {ax} {csv(obs['data'])}"


# ---------------------------------------------------------------------- argument sequences of any length


def seq_features(cfg):
    k = len(cfg["window"])
    f = []
    if k == 0:
        f.append("empty-window")
    if k > len(cfg["shape"]):
        f.append("len(window_shape)>ndim")
    if not isinstance(cfg["step"], int) and len(cfg["step"]) != k:
        f.append("len(step)>len(window_shape)" if len(cfg["step"]) > k else "len(step)<len(window_shape)")
    if cfg["dil"] is not None and not isinstance(cfg["dil"], int) and len(cfg["dil"]) != k:
        f.append("len(dilation)!=len(window_shape)")
    return f


def seq_expand(cfg):
    k = len(cfg["window"])
    step = [cfg["step"]] * k if isinstance(cfg["step"], int) else list(cfg["step"])
    dil = None if cfg["dil"] is None else ([cfg["dil"]] * k if isinstance(cfg["dil"], int) else list(cfg["dil"]))
    return step, dil


def seq_run(cfg, kind="int"):
    """sliding_window_view on raw argument sequences (lengths need not agree)"""
    shape, window = list(cfg["shape"]), list(cfg["window"])
    step, dil = seq_expand(cfg)
    k = len(window)
    aligned = 1 <= k <= len(shape) and len(step) == k and (dil is None or len(dil) == k)
    if aligned:  # an ordinary per-axis configuration: the full oracle applies
        d = dil if dil is not None else [1] * k
        sub = {"batch": shape[:len(shape) - k], "axes": [[x, w, s_, d_] for x, w, s_, d_ in zip(shape[len(shape) - k:], window, step, d)],
               "layout": "C", "sform": "int" if isinstance(cfg["step"], int) else "tuple",
               "dform": "none" if cfg["dil"] is None else ("int" if isinstance(cfg["dil"], int) else "tuple")}
        return swv_run(sub)
    n = int(np.prod(shape)) if shape else 1
    vals = list(range(1, n + 1))
    arr, keep = make_array(shape, "C", vals)
    obs = {"data": vals}
    fails = []
    try:
        out = sliding_window_view(arr, window_shape=tuple(window), step=cfg["step"] if isinstance(cfg["step"], int) else tuple(cfg["step"]),
                                  dilation=cfg["dil"] if (cfg["dil"] is None or isinstance(cfg["dil"], int)) else tuple(cfg["dil"]))
    except Exception as e:
        obs["err"] = exc_name(e)
        return obs, fails
    obs["shape"] = list(out.shape)
    obs["wr"] = int(out.flags.writeable)
    obs["strides"] = [st // arr.itemsize if st % arr.itemsize == 0 else None for st in out.strides]
    eo, ea = extent(out), extent(arr)
    if eo is not None and not (ea[0] <= eo[0] and eo[1] <= ea[1]):
        fails.append(("out-of-bounds", f"accepted (shape {tuple(out.shape)}); view bytes [{eo[0] - ea[0]}, {eo[1] - ea[0]}) vs arr bytes [0, {ea[1] - ea[0]})"))
    else:
        fails.append(("invalid-config-accepted", f"returned shape {tuple(out.shape)}"))
        got = np.array(out)
        obs["vals"] = [int(v) for v in got.reshape(-1)]
    return obs, fails


def seq_line(cfg, obs):
    step, dil = seq_expand(cfg)
    return (f"nnet swvseq {csv(cfg['shape'])} {csv(cfg['window'])} {csv(step)} "
            f"{'none' if dil is None else csv(dil)} {csv(obs['data'])}")


def gen_seq(rng):
    nd = rng.choice([1, 1, 2, 3])
    shape = [rng.randint(2, 5) for _ in range(nd)]
    window = [rng.choice([1, 2]) for _ in range(rng.choice([0, 1, 1, 2, 2, 3]))]
    step = rng.choice([1, 2]) if rng.random() < 0.2 else [rng.choice([1, 2]) for _ in range(rng.choice([0, 1, 2, 2, 3, 4]))]
    r = rng.random()
    dil = None if r < 0.4 else (rng.choice([1, 2]) if r < 0.5 else [rng.choice([1, 2]) for _ in range(rng.choice([0, 1, 2, 3]))])
    return {"shape": shape, "window": window, "step": step, "dil": dil}


def enum_seq():
    def seqs(maxlen):
        for n in range(maxlen + 1):
            yield from (list(t) for t in itertools.product([1, 2], repeat=n))

    for shape in ([5], [4, 5], [2, 3, 4]):
        for window in seqs(3):
            for step in [1, 2] + list(seqs(4)):
                for dil in [None] + list(seqs(3)):
                    yield {"shape": shape, "window": window, "step": step, "dil": dil}


RUN1 = {"swv": swv_run, "conv": conv_run, "pool": pool_run, "seq": seq_run}


def run_both(kind, cfg):
    """integer data (exact; also feeds the correspondence) and, for conv/pool, random float data (1e-10)"""
    obs, fails = RUN1[kind](cfg)
    if kind in ("conv", "pool") and "err" not in obs and all(c == "grad-mismatch" for c, _ in fails):
        _, ff = RUN1[kind](cfg, "float")
        fails = fails + [(c, "float data: " + d) for c, d in ff]
    # one failure class per case, the most basic first (a wrong forward value explains a wrong gradient)
    for cls in SEVERITY:
        sel = [(c, d) for c, d in fails if c == cls]
        if sel:
            return obs, sel[:1]
    return obs, fails[:1]


SEVERITY = ["valid-config-rejected", "invalid-config-accepted", "writeable", "shape-mismatch", "out-of-bounds",
            "wrong-element", "value-mismatch", "grad-raised", "grad-mismatch"]


RUN = {k: (lambda cfg, k=k: run_both(k, cfg)) for k in RUN1}
LINE = {"swv": swv_line, "conv": conv_line, "pool": pool_line, "seq": seq_line}
DIFF = {"swv": swv_diff, "conv": op_diff, "pool": op_diff, "seq": swv_diff}
FEATS = {"swv": swv_features, "conv": conv_features, "pool": pool_features, "seq": seq_features}
FUNC = {"swv": "sliding_window_view", "conv": "conv_nd", "pool": "max_pool", "seq": "sliding_window_view"}


# ====================================================================== shrinking, signatures


def candidates(kind, cfg):
    """strictly simpler configurations (feature-monotone: never introduces a feature)"""
    def mk(**kw):
        c = dict(cfg)
        c.update(kw)
        return c

    if kind == "seq":
        return
    if cfg.get("layout", "C") != "C":
        yield mk(layout="C")
    for key in ("wform", "sform", "dform", "pform"):
        if cfg.get(key, "tuple") != "tuple":
            yield mk(**{key: "tuple"})
    if kind in ("swv", "pool"):
        b = cfg["batch"]
        for i in range(len(b)):
            yield mk(batch=b[:i] + b[i + 1:])
            if b[i] > 1:
                yield mk(batch=b[:i] + [1] + b[i + 1:])
    else:
        for key in ("n", "f"):
            if cfg[key] > 1:
                yield mk(**{key: 1})
        if cfg["c"] > 1 and cfg["c"] == cfg["cw"]:
            yield mk(c=1, cw=1)
    ax = cfg["axes"]
    if len(ax) > 1:
        for i in range(len(ax)):
            rest = ax[:i] + ax[i + 1:]
            # dropping the last axis of an N0/NT layout changes what the layout means; keep it simple
            if cfg.get("layout", "C") in ("N0", "NT") and i == len(ax) - 1:
                continue
            yield mk(axes=rest)
    unit = {"swv": {2: 1, 3: 1}, "conv": {2: 1, 3: 0, 4: 1}, "pool": {2: 1}}[kind]
    for i, a in enumerate(ax):
        for j, u in unit.items():
            if a[j] != u and a[j] > u:
                yield mk(axes=ax[:i] + [a[:j] + [u] + a[j + 1:]] + ax[i + 1:])
        if kind == "conv" and a[3] > 0:
            yield mk(axes=ax[:i] + [[a[0] + 2 * a[3], a[1], a[2], 0, a[4]]] + ax[i + 1:])
        if a[1] > 1:
            yield mk(axes=ax[:i] + [[a[0], a[1] - 1] + a[2:]] + ax[i + 1:])
        if a[0] > 1 and not (cfg.get("layout", "C") in ("N0", "NT") and i == len(ax) - 1):
            yield mk(axes=ax[:i] + [[a[0] - 1] + a[1:]] + ax[i + 1:])


def classes_of(kind, cfg):
    try:
        _, fails = RUN[kind](cfg)
    except Exception as e:  # a configuration the harness itself cannot build
        return set()
    return {c for c, _ in fails}


def shrink(kind, cfg, cls):
    cur = cfg
    feats = set(FEATS[kind](cur))
    for _ in range(200):
        for cand in candidates(kind, cur):
            if cand.get("layout", "C") not in layouts_for(cfg_shape(kind, cand)):
                continue
            cf = set(FEATS[kind](cand))
            if not cf <= feats:
                continue
            if cls in classes_of(kind, cand):
                cur, feats = cand, cf
                break
        else:
            break
    return cur


def cfg_shape(kind, cfg):
    if kind == "seq":
        return list(cfg["shape"])
    if kind == "conv":
        return [cfg["n"], cfg["c"]] + [a[0] for a in cfg["axes"]]
    return list(cfg["batch"]) + [a[0] for a in cfg["axes"]]


def violation_for(kind, cfg, cls, detail):
    small = shrink(kind, cfg, cls)
    _, fails = RUN[kind](small)
    det = next((d for c, d in fails if c == cls), detail)
    feats = sig_feats(FEATS[kind](small))
    sig = f"C16|{FUNC[kind]}|{cls}|{','.join(feats) if feats else 'plain'}"
    what = f"{FUNC[kind]} {cls}: {describe(kind, small)} -> {det}"
    return Violation(sig, what, {"kind": kind, "cfg": small, "class": cls})


def describe(kind, cfg):
    if kind == "seq":
        return f"arr.shape={tuple(cfg['shape'])} window_shape={cfg['window']} step={cfg['step']} dilation={cfg['dil']}"
    ax = cfg["axes"]
    if kind == "swv":
        return (f"arr.shape={tuple(cfg_shape(kind, cfg))} layout={cfg.get('layout', 'C')} window={[a[1] for a in ax]} "
                f"step={[a[2] for a in ax]} dilation={[a[3] for a in ax]}")
    if kind == "conv":
        return (f"x.shape={tuple(cfg_shape(kind, cfg))} layout={cfg.get('layout', 'C')} w.shape={(cfg['f'], cfg['cw'], *[a[1] for a in ax])} "
                f"stride={[a[2] for a in ax]} padding={[a[3] for a in ax]} dilation={[a[4] for a in ax]}")
    return (f"x.shape={tuple(cfg_shape(kind, cfg))} layout={cfg.get('layout', 'C')} pool={[a[1] for a in ax]} "
            f"stride={[a[2] for a in ax]}")


# ====================================================================== generators


def gen_swv(rng, exhaustive_axes=None):
    k = rng.choice([1, 1, 2])
    axes = []
    for _ in range(k):
        x = rng.randint(1, 7)
        w = rng.randint(1, 4)
        s = rng.randint(1, 3)
        d = rng.choice([1, 1, 2, 3])
        axes.append([x, w, s, d])
    if exhaustive_axes is not None:
        axes = exhaustive_axes
    if rng.random() < 0.08:  # malformed: a non-positive entry
        i = rng.randrange(len(axes))
        axes[i][rng.choice([1, 2, 3])] = rng.choice([0, -1])
    nb = rng.choice([0, 0, 1, 1, 2])
    batch = [rng.choice([1, 2, 3]) for _ in range(nb)]
    if rng.random() < 0.04 and batch:
        batch[0] = 0
    cfg = {"batch": batch, "axes": axes, "wform": rng.choice(["tuple", "list", "array"]),
           "sform": rng.choice(["tuple", "int", "list", "array"]), "dform": rng.choice(["tuple", "int", "none", "array"])}
    if rng.random() < 0.25 and axes:
        axes[-1][0] = 1  # a last axis of length 1 admits the special layouts
    ls = layouts_for(cfg_shape("swv", cfg))
    cfg["layout"] = rng.choice(ls) if rng.random() < 0.55 else "C"
    return cfg


def gen_conv(rng):
    k = rng.choice([1, 1, 2])
    axes = []
    for _ in range(k):
        # mostly valid: choose w, d, s, p, number of placements, derive x
        w = rng.randint(1, 4)
        d = rng.choice([1, 1, 2, 3])
        s = rng.randint(1, 3)
        p = rng.choice([0, 0, 1, 2])
        g = rng.randint(1, 3)
        x = (w - 1) * d + 1 + (g - 1) * s - 2 * p
        if x < 1 or x > 7 or rng.random() < 0.25:
            x = rng.randint(1, 7)
        axes.append([x, w, s, p, d])
    r = rng.random()
    if r < 0.05:
        i = rng.randrange(k)
        j = rng.choice([2, 3, 4])
        axes[i][j] = rng.choice([0, -1]) if j != 3 else -1
    n, c, f = rng.randint(1, 2), rng.randint(1, 2), rng.randint(1, 2)
    cw = c if rng.random() > 0.04 else c + 1
    cfg = {"n": n, "c": c, "cw": cw, "f": f, "axes": axes, "sform": rng.choice(["tuple", "int", "list"]),
           "pform": rng.choice(["tuple", "int"]), "dform": rng.choice(["tuple", "int"]), "seed": rng.randrange(10 ** 6)}
    if rng.random() < 0.2:
        axes[-1][0] = 1
    ls = layouts_for(cfg_shape("conv", cfg))
    cfg["layout"] = rng.choice(ls) if rng.random() < 0.4 else "C"
    return cfg


def gen_pool(rng):
    k = rng.choice([1, 1, 2])
    axes = []
    for _ in range(k):
        w = rng.randint(1, 4)
        s = rng.randint(1, 3)
        g = rng.randint(1, 3)
        x = w + (g - 1) * s
        if x > 7 or rng.random() < 0.25:
            x = rng.randint(1, 7)
        axes.append([x, w, s])
    if rng.random() < 0.05:
        i = rng.randrange(k)
        axes[i][rng.choice([1, 2])] = rng.choice([0, -1])
    nb = rng.choice([0, 1, 1, 2])
    batch = [rng.choice([1, 2, 3]) for _ in range(nb)]
    if nb and rng.random() < 0.1:
        batch[rng.randrange(nb)] = 0   # an empty batch / channel axis: a valid configuration with an empty result
    cfg = {"batch": batch, "axes": axes, "wform": rng.choice(["tuple", "list"]), "sform": rng.choice(["tuple", "int"]),
           "seed": rng.randrange(10 ** 6)}
    if rng.random() < 0.2:
        axes[-1][0] = 1
    ls = layouts_for(cfg_shape("pool", cfg), allow_b=False)  # repeated values would make the arg-max ambiguous
    cfg["layout"] = rng.choice(ls) if rng.random() < 0.4 else "C"
    return cfg


def enum_axes_swv(k):
    one = [[x, w, s, d] for x in range(1, 8) for w in range(1, 5) for s in range(1, 4) for d in range(1, 4)]
    if k == 1:
        for a in one:
            yield [list(a)]
    else:
        for a in one:
            for b in one:
                yield [list(a), list(b)]


def enum_conv_1d():
    for x in range(1, 8):
        for w in range(1, 5):
            for s in range(1, 4):
                for p in range(0, 3):
                    for d in range(1, 4):
                        yield [[x, w, s, p, d]]


def enum_pool(k):
    one = [[x, w, s] for x in range(1, 8) for w in range(1, 5) for s in range(1, 4)]
    if k == 1:
        for a in one:
            yield [list(a)]
    else:
        for a in one:
            for b in one:
                yield [list(a), list(b)]


# ====================================================================== workers


def work_chunk(items):
    """items: [(kind, cfg)] -> [(kind, cfg, slim obs, oracle fails, driver line)]"""
    out = []
    for kind, cfg in items:
        try:
            obs, fails = RUN[kind](cfg)
        except Exception as e:
            out.append((kind, cfg, {"harness_error": repr(e)[:200]}, [], None))
            continue
        line = LINE[kind](cfg, obs)
        slim = {k: v for k, v in obs.items() if k not in ("data", "xdata", "wdata")}
        out.append((kind, cfg, slim, fails, line))
    return out


def task(t):
    """one unit of parallel work: ("cfg", [(kind,cfg)…]) | ("float", seed, [k…]) | ("gru", seed, [k…]) | ("drv", lines)"""
    if t[0] == "cfg":
        return work_chunk(t[1])
    if t[0] == "float":
        return [float_case((t[1], k)) for k in t[2]]
    if t[0] == "gru":
        return [gru_case((t[1], k)) for k in t[2]]
    return run_driver(t[1])


# ====================================================================== float layers


def naive_softmax(x, axes):
    x = np.asarray(x, dtype=np.longdouble)
    e = np.exp(x)
    return e / e.sum(axis=axes, keepdims=True)


def float_case(args):
    seed, k = args
    rng = random.Random(f"c16f:{seed}:{k}")
    nrng = np.random.default_rng(rng.randrange(2 ** 32))
    layer = FLOAT_LAYERS[k % len(FLOAT_LAYERS)]
    fails = []
    info = {"layer": layer}
    try:
        if layer in ("softmax", "logsoftmax"):
            nd = rng.randint(1, 3)
            shape = tuple(rng.randint(1, 4) for _ in range(nd))
            axis = rng.choice([-1, None, 0, nd - 1] + ([tuple(sorted(rng.sample(range(nd), 2)))] if nd >= 2 else []))
            scale = rng.choice([1.0, 10.0, 200.0])
            x = nrng.uniform(-1, 1, size=shape) * scale + rng.choice([0.0, 300.0, -300.0])
            info.update(shape=shape, axis=axis, scale=scale)
            axes = tuple(range(nd)) if axis is None else axis
            xs = x - x.max()  # a common shift does not change the documented quotient; keeps exp() finite
            ref = naive_softmax(xs, axes)
            if layer == "softmax":
                got = softmax(x, axis=axis).data
                if not close(got, ref.astype(np.float64)):
                    fails.append("softmax != exp(x)/sum(exp(x))")
            else:
                got = logsoftmax(x, axis=axis).data
                # log of a ratio that may underflow: evaluate the documented formula in extended precision
                xl = np.asarray(xs, dtype=np.longdouble)
                refl = xl - np.log(np.exp(xl).sum(axis=axes, keepdims=True))
                if not close(got, refl.astype(np.float64)):
                    fails.append("logsoftmax != log(exp(x)/sum(exp(x)))")
        elif layer == "batchnorm":
            nd = rng.randint(2, 4)
            shape = (rng.randint(1, 4), rng.randint(1, 3)) + tuple(rng.randint(1, 3) for _ in range(nd - 2))
            if int(np.prod(shape)) // shape[1] < 2:
                shape = (shape[0] + 1,) + shape[1:]
            x = nrng.normal(size=shape) * rng.choice([1.0, 5.0]) + rng.choice([0.0, 3.0])
            xdt = "float64"
            if rng.random() < 0.3:
                # integer-valued batches are accepted and normalised in floating point
                xdt = rng.choice(["int64", "int32", "uint8"])
                x = np.round(np.abs(x) * 3 if xdt == "uint8" else x * 3).astype(xdt)
            info.update(dtype=xdt)
            C = shape[1]
            gamma = nrng.normal(size=C) if rng.random() < 0.6 else None
            beta = nrng.normal(size=C) if rng.random() < 0.6 else None
            eps = rng.choice([0.0, 1e-8, 1e-3, 0.5])
            info.update(shape=shape, gamma=gamma is not None, beta=beta is not None, eps=eps)
            got = batchnorm(x, gamma=gamma, beta=beta, eps=eps).data
            ref = np.empty(shape)
            for c in range(C):
                xc = [float(x[idx]) for idx in np.ndindex(*shape) if idx[1] == c]
                m = math.fsum(xc) / len(xc)
                v = math.fsum((t - m) ** 2 for t in xc) / len(xc)
                for idx in np.ndindex(*shape):
                    if idx[1] == c:
                        y = (x[idx] - m) / math.sqrt(v + eps)
                        if gamma is not None:
                            y = y * gamma[c]
                        if beta is not None:
                            y = y + beta[c]
                        ref[idx] = y
            # conditioning: y's sensitivity to rounding in mean/var grows like |x-m|/(var+eps)
            if min(np.var(x, axis=tuple(i for i in range(nd) if i != 1)) + eps) > 1e-3 and not close(got, ref, np.abs(ref) + np.abs(x).max() + 1):
                fails.append("batchnorm != gamma*(x-E[x])/sqrt(Var[x]+eps)+beta")
        elif layer == "softmax_crossentropy":
            N, C = rng.randint(1, 5), rng.randint(1, 5)
            x = nrng.normal(size=(N, C)) * rng.choice([1.0, 20.0])
            y = nrng.integers(0, C, size=N)
            info.update(N=N, C=C)
            got = softmax_crossentropy(x, y).data
            p = naive_softmax(x - x.max(), 1)
            xl = np.asarray(x - x.max(), dtype=np.longdouble)
            lp = xl - np.log(np.exp(xl).sum(axis=1, keepdims=True))
            ref = -sum(lp[i, y[i]] for i in range(N)) / N
            if not close(got, np.float64(ref)):
                fails.append("softmax_crossentropy != -(1/N) sum log softmax(x)[i, y_i]")
        elif layer == "multiclass_hinge":
            N, C = rng.randint(1, 5), rng.randint(2, 5)
            x = nrng.normal(size=(N, C)) * 2
            xdt = "float64"
            if rng.random() < 0.3:
                # integer-valued scores are valid inputs of the documented formula
                xdt = rng.choice(["int64", "int32"])
                x = np.round(x * 2).astype(xdt)
            y = nrng.integers(0, C, size=N)
            hinge = rng.choice([1.0, 0.5, 2.0, 2])
            info.update(N=N, C=C, hinge=hinge, dtype=xdt)
            got = multiclass_hinge(x, y, hinge=hinge).data
            ref = sum(max(0.0, x[i, j] - x[i, y[i]] + hinge) for i in range(N) for j in range(C) if j != y[i]) / N
            if not close(got, ref):
                fails.append("multiclass_hinge != (1/N) sum_{j != y_i} max(0, s_j - s_{y_i} + hinge)")
        elif layer == "margin_ranking_loss":
            N = rng.randint(1, 5)
            D = rng.choice([None, 1, 3])
            shape = (N,) if D is None else (N, D)
            x1, x2 = nrng.normal(size=shape), nrng.normal(size=shape)
            ys = rng.choice(["scalar", "vector"])
            y = rng.choice([1, -1]) if ys == "scalar" else nrng.choice([1, -1], size=N)
            margin = rng.choice([0.0, 0.5, 1.0])
            info.update(shape=shape, y=ys, margin=margin)
            got = margin_ranking_loss(x1, x2, y, margin).data
            tot, cnt = 0.0, 0
            for idx in np.ndindex(*shape):
                yi = y if ys == "scalar" else y[idx[0]]
                tot += max(0.0, margin - yi * (x1[idx] - x2[idx]))
                cnt += 1
            if not close(got, tot / cnt):
                fails.append("margin_ranking_loss != mean(max(0, margin - y*(x1-x2)))")
        elif layer in ("focal_loss", "softmax_focal_loss"):
            N, C = rng.randint(1, 5), rng.randint(2, 5)
            alpha = rng.choice([1, 0.25, 2.0])
            gamma = rng.choice([0, 1, 2.0, 0.5])
            y = nrng.integers(0, C, size=N)
            info.update(N=N, C=C, alpha=alpha, gamma=gamma)
            if layer == "focal_loss":
                p = nrng.uniform(0.05, 0.95, size=(N, C))
                got = focal_loss(p, y, alpha=alpha, gamma=gamma).data
            else:
                s = nrng.normal(size=(N, C)) * 2
                p = naive_softmax(s, 1).astype(np.float64)
                got = softmax_focal_loss(s, y, alpha=alpha, gamma=gamma).data
            ref = np.array([-alpha * (1 - p[i, y[i]]) ** gamma * math.log(p[i, y[i]]) for i in range(N)])
            if not close(got, ref):
                fails.append(f"{layer} != -alpha*(1-p)**gamma*log(p)")
        elif layer == "negative_log_likelihood":
            N, C = rng.randint(1, 5), rng.randint(1, 5)
            x = -np.abs(nrng.normal(size=(N, C)))
            y = nrng.integers(0, C, size=N)
            w = nrng.uniform(0.5, 2, size=C) if rng.random() < 0.5 else None
            info.update(N=N, C=C, weights=w is not None)
            got = negative_log_likelihood(x, y, weights=w).data
            ref = -sum(x[i, y[i]] * (1.0 if w is None else w[y[i]]) for i in range(N)) / N
            if not close(got, ref):
                fails.append("negative_log_likelihood != -(1/N) sum w[y_i] * x[i, y_i]")
        elif layer == "reject":
            # malformed inputs of the losses / layers must be rejected with an error
            which = rng.choice(["ce-ndim", "ce-float-labels", "ce-len", "focal-gamma", "margin-neg", "margin-shape",
                                "nll-weights", "hinge-ndim"])
            info.update(which=which)
            x = nrng.normal(size=(3, 4))
            try:
                if which == "ce-ndim":
                    softmax_crossentropy(x[0], np.array([0]))
                elif which == "ce-float-labels":
                    softmax_crossentropy(x, np.array([0.0, 1.0, 2.0]))
                elif which == "ce-len":
                    softmax_crossentropy(x, np.array([0, 1]))
                elif which == "focal-gamma":
                    focal_loss(np.full((3, 4), 0.25), np.array([0, 1, 2]), gamma=-1.0)
                elif which == "margin-neg":
                    margin_ranking_loss(x, x, 1, -0.5)
                elif which == "margin-shape":
                    margin_ranking_loss(x, x[:2], 1, 0.5)
                elif which == "nll-weights":
                    negative_log_likelihood(x, np.array([0, 1, 2]), weights=np.ones(3))
                elif which == "hinge-ndim":
                    multiclass_hinge(x[0], np.array([0]))
                fails.append(f"malformed input accepted: {which}")
            except (ValueError, TypeError, AssertionError, IndexError):
                pass
    except Exception as e:
        fails.append(f"{layer} raised {type(e).__name__}: {str(e)[:80]}")
    return {"seed": seed, "k": k, "info": info, "fails": fails}


FLOAT_LAYERS = ["softmax", "logsoftmax", "batchnorm", "softmax_crossentropy", "multiclass_hinge", "margin_ranking_loss",
                "focal_loss", "softmax_focal_loss", "negative_log_likelihood", "reject"]


def gru_case(args):
    """gru forward vs the documented recurrence (run serially: the numba kernels are compiled once)"""
    from mygrad.nnet.layers import gru

    seed, k = args
    rng = random.Random(f"c16gru:{seed}:{k}")
    nrng = np.random.default_rng(rng.randrange(2 ** 32))
    T, N, C, D = rng.randint(1, 4), rng.randint(1, 3), rng.randint(1, 4), rng.randint(1, 4)
    X = nrng.normal(size=(T, N, C))
    Uz, Ur, Uh = (nrng.normal(size=(C, D)) for _ in range(3))
    Wz, Wr, Wh = (nrng.normal(size=(D, D)) for _ in range(3))
    bz, br, bh = (nrng.normal(size=(D,)) for _ in range(3))
    s0 = nrng.normal(size=(N, D)) if rng.random() < 0.5 else None
    fails = []
    info = {"layer": "gru", "T": T, "N": N, "C": C, "D": D, "s0": s0 is not None}
    try:
        got = gru(X, Uz, Wz, bz, Ur, Wr, br, Uh, Wh, bh, s0=s0, constant=True).data
        sig = lambda v: 1.0 / (1.0 + math.exp(-v))
        S = np.zeros((T + 1, N, D))
        if s0 is not None:
            S[0] = s0
        for t in range(T):
            for n in range(N):
                z = [sig(sum(X[t, n, c] * Uz[c, j] for c in range(C)) + sum(S[t, n, i] * Wz[i, j] for i in range(D)) + bz[j]) for j in range(D)]
                r = [sig(sum(X[t, n, c] * Ur[c, j] for c in range(C)) + sum(S[t, n, i] * Wr[i, j] for i in range(D)) + br[j]) for j in range(D)]
                h = [math.tanh(sum(X[t, n, c] * Uh[c, j] for c in range(C)) + sum(r[i] * S[t, n, i] * Wh[i, j] for i in range(D)) + bh[j]) for j in range(D)]
                for j in range(D):
                    S[t + 1, n, j] = (1 - z[j]) * h[j] + z[j] * S[t, n, j]
        if got.shape != S.shape or not close(got, S, np.full(S.shape, 1.0 + np.abs(X).max() * max(np.abs(Uz).max(), np.abs(Uh).max(), 1) * C)):
            fails.append("gru != documented recurrence Z,R,H,S")
    except Exception as e:
        fails.append(f"gru raised {type(e).__name__}: {str(e)[:80]}")
    return {"seed": seed, "k": k, "info": info, "fails": fails}


# ====================================================================== special probes


def probe_step_longer():
    """`step` longer than `window_shape` on a 1-d array is accepted by accident and the view leaves `arr`"""
    arr, keep = make_array([5], "C", [1, 2, 3, 4, 5])
    try:
        out = sliding_window_view(arr, (2,), (1, 2))
    except Exception:
        return None
    eo, ea = extent(out), extent(arr)
    if eo is not None and not (ea[0] <= eo[0] and eo[1] <= ea[1]):
        return (f"sliding_window_view(np.arange(5.), window_shape=(2,), step=(1, 2)) is accepted (shape {out.shape}) and "
                f"addresses bytes [{eo[0] - ea[0]}, {eo[1] - ea[0]}) of a {ea[1] - ea[0]}-byte array")
    return None


def conv_mixed_dtype_cases(only=None):
    """conv_nd / max_pool on operands of *different* dtypes (integer or low-precision data with real-valued filters):
    the documented sum over the placement, evaluated on the exact values of both operands, in NumPy's result dtype.
    -> [(name, message)]"""
    out = []
    pairs = [("int64", "float64"), ("uint8", "float64"), ("int32", "float32"), ("float32", "float64"), ("float16", "float32"),
             ("float64", "float32"), ("bool", "float64"), ("int8", "float64")]
    rng = random.Random("c16-mixed")
    for xd, wd in pairs:
        for nd in (1, 2):
            name = f"conv:{xd}*{wd}:{nd}d"
            if only is not None and name != only:
                continue
            X = (5,) if nd == 1 else (4, 4)
            K = (3,) if nd == 1 else (2, 2)
            xs, ws = (2, 2) + X, (3, 2) + K
            if xd == "bool":
                xv = np.array([rng.random() < 0.5 for _ in range(int(np.prod(xs)))]).reshape(xs)
            elif xd.startswith("uint"):
                xv = np.array([rng.randint(0, 250) for _ in range(int(np.prod(xs)))]).reshape(xs).astype(xd)
            elif xd.startswith("int"):
                xv = np.array([rng.randint(-9, 9) for _ in range(int(np.prod(xs)))]).reshape(xs).astype(xd)
            else:
                xv = np.array([rng.uniform(-3, 3) for _ in range(int(np.prod(xs)))]).reshape(xs).astype(xd)
            wv = np.array([rng.choice([-1.75, -0.25, 0.25, 0.5, 1.3, -2.6]) for _ in range(int(np.prod(ws)))]).reshape(ws).astype(wd)
            try:
                got = conv_nd(xv, wv, stride=1).data
            except Exception as e:  # noqa: BLE001
                out.append((name, f"raised {type(e).__name__}: {str(e)[:80]}"))
                continue
            exp, mag, _xp, _G = conv_naive(xv.astype(np.float64), wv.astype(np.float64), [1] * nd, [0] * nd, [1] * nd)
            rdt = np.result_type(xv.dtype, wv.dtype)
            eps = float(np.finfo(rdt).eps) if np.issubdtype(rdt, np.floating) else 0.0
            if got.shape != exp.shape:
                out.append((name, f"shape {got.shape}, expected {exp.shape}"))
            elif got.dtype != rdt:
                out.append((name, f"result dtype {got.dtype}, NumPy's result type of the two operands is {rdt}"))
            elif not np.all(np.abs(got.astype(np.float64) - exp) <= 8 * eps * np.maximum(mag, 1.0) + 1e-300):
                k = np.unravel_index(np.argmax(np.abs(got.astype(np.float64) - exp)), exp.shape)
                out.append((name, f"out{tuple(int(i) for i in k)} = {got[k]!r}, the documented sum gives {exp[k]!r} "
                            f"(data {xd}, filters {wd})"))
    return out


def probe_malformed(rng):
    """argument errors outside the per-axis model: must be rejected (any exception) or stay in bounds"""
    fails = []
    arr, keep = make_array([4, 5], "C", list(range(20)))
    calls = [
        ("window longer than ndim", dict(window_shape=(1, 1, 1), step=1)),
        ("float window", dict(window_shape=(2.0,), step=1)),
        ("float step", dict(window_shape=(2,), step=1.5)),
        ("float dilation", dict(window_shape=(2,), step=1, dilation=1.5)),
        ("scalar window", dict(window_shape=2, step=1)),
        ("dilation wrong length", dict(window_shape=(2, 2), step=1, dilation=(1,))),
        ("step shorter", dict(window_shape=(2, 2), step=(1,))),
        ("step longer", dict(window_shape=(2,), step=(1, 1))),
        ("step longer 3", dict(window_shape=(2, 2), step=(1, 1, 1))),
        ("empty window", dict(window_shape=(), step=1)),
        ("None step", dict(window_shape=(2,), step=None)),
    ]
    # non-integer entries in any of the three arguments, in every sequence form: there is no arr[n, g*step + w*dilation]
    # for them, so they must be rejected (not truncated)
    for argname in ("window_shape", "step", "dilation"):
        for vals in ((1.5, 2.5), (2.5, 1.0), (1.0, 1.5)):
            for form_name, mk in (("tuple", tuple), ("list", list), ("array", np.array)):
                kw = dict(window_shape=(2, 2), step=1)
                kw[argname] = mk(vals)
                try:
                    out = sliding_window_view(arr, **kw)
                except Exception:
                    continue
                fails.append((f"non-integer {argname}", f"{argname}={vals} given as a {form_name} was accepted (result shape {out.shape}) "
                              "although no element equation exists for a fractional window/step/dilation"))
    for name, kw in calls:
        try:
            out = sliding_window_view(arr, **kw)
        except Exception:
            continue
        eo, ea = extent(out), extent(arr)
        if eo is not None and not (ea[0] <= eo[0] and eo[1] <= ea[1]):
            fails.append((name, f"accepted and out of bounds: shape {out.shape}"))
        elif out.flags.writeable:
            fails.append((name, "accepted and writeable"))
    # conv / pool argument errors
    x = np.zeros((1, 2, 5))
    for name, fn in [
        ("conv ndim<3", lambda: conv_nd(np.zeros((2, 5)), np.zeros((2, 2)), stride=1)),
        ("conv ndim mismatch", lambda: conv_nd(x, np.zeros((1, 2, 2, 2)), stride=1)),
        ("conv stride wrong length", lambda: conv_nd(x, np.zeros((1, 2, 2)), stride=(1, 1))),
        ("conv padding wrong length", lambda: conv_nd(x, np.zeros((1, 2, 2)), stride=1, padding=(1, 1))),
        ("conv float stride", lambda: conv_nd(x, np.zeros((1, 2, 2)), stride=1.5)),
        ("pool more axes than ndim", lambda: max_pool(np.zeros((4,)), (2, 2), 1)),
        ("pool stride wrong length", lambda: max_pool(np.zeros((4, 4)), (2, 2), (1,))),
        ("pool float pool", lambda: max_pool(np.zeros((4, 4)), (2.0, 2.0), 1)),
    ]:
        try:
            fn()
            fails.append((name, "accepted"))
        except Exception:
            pass
    return fails


# the witness of the `_neg` theorem (MG/Proofs/C16.lean), as a configuration of the implementation
NEG_WITNESSES = [
    ("conv_rejects_valid_neg", "conv", {"n": 1, "c": 1, "cw": 1, "f": 1, "axes": [[5, 3, 1, 0, 2]], "layout": "C"}),
]

# regression probes: the inputs on which F15 / F16 (repaired in /repo e458ff4) showed; ordinary oracle cases now
REGRESSION_CASES = [
    ("swv", {"batch": [3], "axes": [[1, 1, 1, 1]], "layout": "N0"}),                       # a[:, None]
    ("swv", {"batch": [], "axes": [[3, 2, 1, 1], [1, 1, 1, 1]], "layout": "NT"}),          # row.T
    ("swv", {"batch": [3], "axes": [[4, 2, 1, 2]], "layout": "B"}),                        # broadcast view
    ("conv", {"n": 1, "c": 1, "cw": 1, "f": 1, "axes": [[2, 2, 1, 0, 1], [1, 1, 1, 0, 1]], "layout": "N0",
              "xdata": [1, 2], "wdata": [1, 1]}),
    ("conv", {"n": 1, "c": 2, "cw": 2, "f": 1, "axes": [[3, 2, 1, 0, 1], [1, 1, 1, 0, 1]], "layout": "NT"}),
    ("pool", {"batch": [], "axes": [[3, 2, 1], [1, 1, 1]], "layout": "N0", "data": [1, 2, 3]}),
    ("pool", {"batch": [2], "axes": [[3, 2, 1], [1, 1, 1]], "layout": "NT"}),
    ("seq", {"shape": [5], "window": [2], "step": [1, 2], "dil": None}),                   # over-long step
    ("seq", {"shape": [5], "window": [2], "step": [1, 2, 1], "dil": [1]}),
]


# ====================================================================== run


def run(ctx: Ctx) -> Outcome:
    out = Outcome()
    out.rule = ("configurations = (batch sizes, per windowed axis: size<=7, window<=4, step<=3, dilation<=3, padding<=2, "
                "<=2 windowed axes, memory layout C / transposed / strided / newaxis-last / swapped-last, spelling of the "
                "arguments); quick: all 1-axis configurations + seeded sample; thorough: all 2-axis sliding_window_view "
                "configurations as well. non-trivial = accepted configuration with step>1 or dilation>1 or padding>0 or 2 "
                "axes or a batch axis; distinct by canonical configuration.")
    big = ctx.thorough or bool(ctx.lean_broken)
    rng = ctx.rng("cfg")
    items = []
    # ---- exhaustive cores
    for axes in enum_axes_swv(1):
        items.append(("swv", {"batch": [], "axes": axes, "layout": "C"}))
        items.append(("swv", {"batch": [2], "axes": [list(a) for a in axes], "layout": rng.choice(["C", "T", "S"]) if axes[0][0] > 1 else rng.choice(["C", "N0", "NT"]),
                              "dform": rng.choice(["tuple", "int", "none"]), "sform": rng.choice(["tuple", "int"])}))
    for axes in enum_conv_1d():
        items.append(("conv", {"n": 1, "c": 1, "cw": 1, "f": 1, "axes": axes, "layout": "C", "seed": 1}))
    for k in (1, 2):
        for axes in enum_pool(k):
            items.append(("pool", {"batch": [], "axes": axes, "layout": "C", "seed": 1}))
    n_exh = len(items)
    if big:
        for axes in enum_axes_swv(2):
            items.append(("swv", {"batch": [], "axes": axes, "layout": "C"}))
        one = [a[0] for a in enum_conv_1d() if a[0][3] <= 1 and a[0][4] <= 2]
        for a in one:  # every 2-axis conv configuration with padding <= 1, dilation <= 2
            for b in one:
                items.append(("conv", {"n": 1, "c": 1, "cw": 1, "f": 1, "axes": [list(a), list(b)], "layout": "C", "seed": 2}))
        out.extra["exhaustive"] = True
    out.extra["exhaustive_configs"] = len(items)
    # ---- seeded samples
    for _ in range(ctx.n(8000, 80000)):
        items.append(("swv", gen_swv(rng)))
    for _ in range(ctx.n(9000, 150000)):
        items.append(("conv", gen_conv(rng)))
    for _ in range(ctx.n(4000, 50000)):
        items.append(("pool", gen_pool(rng)))
    if big:
        items += [("seq", c) for c in enum_seq()]
    else:
        for _ in range(2500):
            items.append(("seq", gen_seq(rng)))
    for kind, cfg in REGRESSION_CASES:
        items.append((kind, dict(cfg)))
    # ---- witnesses of the _neg theorems (last)
    for name, kind, cfg in NEG_WITNESSES:
        items.append((kind, dict(cfg)))

    nf, ngru = ctx.n(2000, 30000), ctx.n(40, 600)
    tasks = [("gru", ctx.seed, list(range(ngru)))]  # first: its numba compilation overlaps with everything else
    tasks += [("cfg", items[i:i + 150]) for i in range(0, len(items), 150)]
    tasks += [("float", ctx.seed, list(range(i, min(i + 100, nf)))) for i in range(0, nf, 100)]
    done = pmap(task, tasks)
    results = [r for t, d in zip(tasks, done) if t[0] == "cfg" for r in d]
    fres = [r for t, d in zip(tasks, done) if t[0] in ("float", "gru") for r in d]

    # ---- model side
    lines, idx = [], []
    for i, (kind, cfg, obs, fails, line) in enumerate(results):
        if line is not None:
            lines.append(line)
            idx.append(i)
    model = [o for ch in pmap(task, [("drv", lines[i:i + 1500]) for i in range(0, len(lines), 1500)]) for o in ch]

    hist = {"swv": {}, "conv": {}, "pool": {}, "seq": {}}
    seen_viol = {}
    n_corr = 0
    for j, i in enumerate(idx):
        kind, cfg, obs, fails, line = results[i]
        m = parse_obs(model[j])
        out.traces_validated += 1
        if kind == "seq" and not cfg["window"] and "err" in obs and "err" in m:
            # no windowed axis: rejected by whatever NumPy broadcasting/casting error comes first (ValueError, or a
            # casting TypeError when dilation=() is spelled out); only the rejection itself is behaviour
            obs = dict(obs, err=m["err"])
        d = DIFF[kind](obs, m)
        if kind in ("conv", "pool") and m.get("naive") == "0":
            d = dict(d or {}, model_naive="model's window evaluation differs from its own naive evaluation")
        if d:
            n_corr += 1
            if len(out.corr_breaks) < 20:
                out.corr_breaks.append(CorrBreak(f"Nnet model vs {FUNC[kind]}", {"config": describe(kind, cfg), "cfg": cfg, "diff": d}))
    for kind, cfg, obs, fails, line in results:
        out.evaluations += 1
        if "harness_error" in obs:
            raise RuntimeError(f"harness could not build {kind} {cfg}: {obs['harness_error']}")
        acc = "err" not in obs
        key = ("accepted" if acc else obs["err"])
        hist[kind][key] = hist[kind].get(key, 0) + 1
        lay = cfg.get("layout", "C")
        hist[kind]["layout:" + lay] = hist[kind].get("layout:" + lay, 0) + 1
        feats = FEATS[kind](cfg)
        if kind == "seq":
            if feats:
                out.nontrivial.add(stable_hash(["seq", cfg]))
            for cls, detail in fails:
                seen_viol.setdefault((kind, cls, tuple(feats)), (cfg, detail))
            continue
        if acc and feats:
            out.nontrivial.add(stable_hash([kind, cfg.get("batch"), cfg.get("n"), cfg.get("c"), cfg.get("f"), cfg["axes"], lay]))
        if (acc and len(cfg["axes"]) == 2 and len(feats) >= 3 and all(a[0] >= 4 for a in cfg["axes"])
                and sum(1 for s_ in out.samples if s_.get("call") == FUNC[kind]) < (1 if kind == "swv" else 2)):
            out.samples.append({"call": FUNC[kind], "config": describe(kind, cfg), "out_shape": obs.get("shape")})
        for cls, detail in fails:
            fk = (kind, cls, tuple(FEATS[kind](cfg)))
            seen_viol.setdefault(fk, (cfg, detail))
    # one shrink per (kind, class, feature set): members of a family collapse to one signature
    for (kind, cls, _), (cfg, detail) in sorted(seen_viol.items(), key=lambda kv: str(kv[0])):
        out.violations.append(violation_for(kind, cfg, cls, detail))
    out.stats["configs"] = hist
    # the _neg witnesses are the last items: does the implementation still fail on them?
    out.extra["neg_witnesses_replayed"] = {
        name: ("fails on the implementation: " + "; ".join(c for c, _ in r[3]) if r[3] else "NOT reproduced on the implementation")
        for (name, _, _), r in zip(NEG_WITNESSES, results[-len(NEG_WITNESSES):])}
    out.stats["model_disagreements"] = n_corr

    # ---- probes outside the per-axis model
    msg = probe_step_longer()
    if msg:
        out.violations.append(Violation("C16|sliding_window_view|out-of-bounds|len(step)>len(window_shape)", msg,
                                        {"kind": "probe", "probe": "step_longer"}))
    for name, detail in probe_malformed(rng):
        out.evaluations += 1
        out.violations.append(Violation(f"C16|malformed-argument-accepted|{name}", f"{name}: {detail}",
                                        {"kind": "probe", "probe": "malformed", "name": name}))

    for name, detail in conv_mixed_dtype_cases():
        out.violations.append(Violation(f"C16|mixed-dtype|{name}", f"{name}: {detail}", {"kind": "probe", "probe": "mixed", "name": name}))
    out.evaluations += 16
    for k in range(16):
        out.nontrivial.add(stable_hash(["conv-mixed", k]))

    # ---- float layers (tolerance comparison — the part the proofs do not reach)
    lhist = {}
    for r in fres:
        out.evaluations += 1
        lay = r["info"]["layer"]
        lhist[lay] = lhist.get(lay, 0) + 1
        out.nontrivial.add(stable_hash(r["info"]))
        for f in r["fails"]:
            out.violations.append(Violation(f"C16|{lay}|formula-mismatch|{f.split(' raised ')[0][:60]}", f"{lay}: {f} ({r['info']})",
                                            {"kind": "float", "layer": lay, "seed": r["seed"], "k": r["k"]}))
    out.stats["float_layers"] = lhist
    out.samples.append({"float_case": fres[0]["info"]})
    out.assumptions = [
        "stride/padding/dilation sequences of conv_nd and pool/stride of max_pool of unequal length are outside the Lean model "
        "(direct oracle: must be rejected); for sliding_window_view they are modelled (swvSeq)",
        "axis sizes < 2**53 (conv_nd/max_pool test divisibility in float64)",
        "float layers (batchnorm, gru, softmax, logsoftmax, losses) are compared numerically at 1e-10 relative; only the "
        "algebraic shift identity of softmax/logsoftmax is proved",
        "np.pad, np.tensordot, ndarray.max and as_strided are NumPy's; the model reproduces their index semantics",
    ]
    return out


def replay(data) -> bool:
    r = data.get("replay")
    if r is None:
        print("nothing to re-execute: this replay names a broken obligation / correspondence:")
        print({k: data.get(k) for k in ("broken_obligations", "broken_correspondence")})
        bc = data.get("broken_correspondence") or []
        again = False
        for b in bc:
            cfg = b.get("detail", {}).get("cfg")
            if cfg is None:
                continue
            kind = "seq" if "window" in cfg else "conv" if "n" in cfg else ("swv" if cfg["axes"] and len(cfg["axes"][0]) == 4 else "pool")
            obs, fails = RUN[kind](cfg)
            m = parse_obs(run_driver([LINE[kind](cfg, obs)])[0])
            d = DIFF[kind](obs, m)
            print("config:", describe(kind, cfg), "\n implementation:", {k: v for k, v in obs.items() if k not in ('data', 'xdata', 'wdata')},
                  "\n model:", m, "\n diff:", d)
            again = again or bool(d)
        return again
    if r["kind"] == "probe":
        if r["probe"] == "step_longer":
            msg = probe_step_longer()
            print(msg or "not reproduced")
            return bool(msg)
        if r["probe"] == "mixed":
            fl = conv_mixed_dtype_cases(only=r.get("name"))
            print(fl or "not reproduced")
            return bool(fl)
        fl = [f for f in probe_malformed(random.Random(0)) if f[0] == r.get("name")]
        print(fl or "not reproduced")
        return bool(fl)
    if r["kind"] == "float":
        res = (gru_case if r["layer"] == "gru" else float_case)((r["seed"], r["k"]))
        print(res)
        return bool(res["fails"])
    kind, cfg = r["kind"], r["cfg"]
    obs, fails = RUN[kind](cfg)
    print("call:    ", FUNC[kind], describe(kind, cfg))
    print("observed:", {k: v for k, v in obs.items() if k not in ("data", "xdata", "wdata")})
    valid = {"swv": swv_valid, "conv": conv_valid, "pool": pool_valid, "seq": lambda c: not seq_features(c)}[kind](cfg)
    print("expected:", "accepted (if the per-axis rule holds), equal to the documented formula, inside arr" if valid else "rejected with an error")
    print("failures:", fails)
    return any(c == r["class"] for c, _ in fails) or bool(fails)


def check_witness(w):
    """re-establish an open known finding on the current tree (harness/main.py calls this every run)"""
    kind, cfg = w["kind"], w["cfg"]
    _, fails = RUN[kind](cfg)
    for cls, detail in fails:
        if cls == w.get("class", cls):
            return violation_for(kind, cfg, cls, detail)
    return None


MANIFEST = {
    "category": "proof",
    "design_ref": "DESIGN.md §5 C16",
    "technique": "Lean 4 proofs (omega-style integer arithmetic, structural induction over axis lists) about an executable model "
                 "of sliding_window_view / conv_nd / max_pool (M9), tied to /repo by differential execution over all small "
                 "configurations; direct oracle (naive loops, byte bounds, validity predicate) on the implementation; "
                 "tolerance comparison for the float layers",
    "text": "Proved for every number of axes and all sizes/steps/dilations/paddings (unbounded integers) and every memory "
            "content: sliding_window_view accepts iff window, step, dilation are positive and window*dilation <= axis on each "
            "windowed axis (swv_accepts_iff), and on raw argument sequences iff additionally step/dilation have the length of "
            "window_shape <= ndim (swvSeq_accepts_iff, swvSeq_rejects_length_mismatch); the view has shape (placements.., "
            "batch.., window..) with the greedy placement count and is read-only (swv_shape); view index (g,n,k) addresses "
            "arr[n, g*s+k*d] (swv_offset, swv_element) inside arr (swv_in_bounds: memory safety of as_strided); conv_nd accepts "
            "iff the placements tile the padded data AND w*d <= x+2p (conv_accepts_iff), max_pool iff they tile "
            "(pool_accepts_iff); window-view + tensordot/moveaxis resp. max/transpose equals the naive formula for all "
            "configurations and data (conv_impl_eq_naive, pool_impl_eq_naive). One full statement is FALSE of the code and is "
            "proved so from a witness that the check replays on the implementation: conv_rejects_valid_neg (x=5,w=3,d=2; known "
            "finding F10), with conv_accepts_iff_tiles_partial under H_dil_fits. softmax_shift / logsoftmax_shift (stabilised = "
            "documented formula) are proved over the reals.",
    "note": "NOT reached by proof, compared numerically at 1e-10 relative on random inputs only: batchnorm, gru (numba kernels), "
            "softmax/logsoftmax in floating point, softmax_crossentropy, multiclass_hinge, margin_ranking_loss, focal_loss, "
            "softmax_focal_loss, negative_log_likelihood, and the backward passes of conv_nd/max_pool (exact on integer data). "
            "The model is hand-written; its tie to /repo is the correspondence (exhaustive for 1 windowed axis in quick, for <=2 "
            "axes of sliding_window_view in thorough, sizes<=7, window<=4, step<=3, dilation<=3; inputs with non-canonical strides — "
            "a[:,None], row.T, broadcast and transposed views — are part of every run since F15). Trusted: Lean kernel, axioms {propext, Classical.choice, Quot.sound}, NumPy's "
            "as_strided/pad/tensordot/max index semantics, the harness.",
}

MANIFEST_ADDENDUM = 'Oracle additions: inputs strided on a leading axis only (a[::2], a[::-1]); fractional window/step/dilation sequences must be rejected. Round 5: integer-valued batches for batchnorm. Round 7: empty batch/channel axes for pooling (forward and backward), integer-valued scores and integer hinge for multiclass_hinge.'
