"""C13 — a failed operation leaves no trace."""
from __future__ import annotations

import gc

import numpy as np

import mygrad as mg
import mygrad._utils.lock_management as _mem

from .. import engcheck, progs
from ..core import Ctx, Outcome, Violation

ID = "C13"
LEVEL = "proof"
EXTRA_TARGETS = ["MG.DriverEng"]
THEOREMS = {
    "MG.Proofs.C13": [
        "MG.C13.failed_op_is_noop",
        "MG.C13.reroute_spec",
        "MG.C13.restore_reroutes_back",
        "MG.C13.restore_inverts_duplicate",
        "MG.C13.mkDupGraph_no_views",
        "MG.C13.restore_inverts_mkDupGraph",
        "MG.C13.duplicate_post",
        "MG.C13.mkDupGraph_discards_family_grads",
    ],
    "MG.Proofs.Lemmas.InPlaceViewFail": [
        "MG.C04V.inplace_through_view_failure_leaves_no_trace",
        "MG.C04V.inplace_on_base_with_view_failure_leaves_no_trace",
        "MG.C04V.restore_two_inverts",
        "MG.C04V.restore_after_copy",
        "MG.C04V.mutate_two_fail",
        "MG.C04V.mutate_base2_fail",
    ],
    "MG.Proofs.Lemmas.InPlaceRefine": [
        "MG.C04R.inplace_on_owner_failure_leaves_no_trace",
        "MG.C04R.mutate_single_fail",
    ],
}

GEN = dict(inplace=True, p_inplace=0.25, p_view=0.25, p_fail=0.22, p_const=0.12, n_stmts=10, ro_leaves=True)


def snapshot(ex):
    snap = {}
    for n, t in ex.v.items():
        b = t.base
        snap[n] = (t.shape, t.data.copy(), t.constant, None if b is None else ex.name_of(b), t.creator is None, id(t))
    share = {(n, m): bool(np.shares_memory(ex.v[n].data, ex.v[m].data)) for n in ex.v for m in ex.v if n < m}
    return snap, share


def snap_diff(a, b, skip=()):
    """first difference between two snapshots as 'category: message' (categories: gone, value, constant, base, creator,
    identity, sharing); differences in the categories listed in `skip` are ignored"""
    (sa, ha), (sb, hb) = a, b
    for n in sa:
        if n not in sb:
            return f"gone: t{n} disappeared"
        x, y = sa[n], sb[n]
        if x[0] != y[0] or not np.array_equal(x[1], y[1]):
            return f"value: t{n} changed value: {x[1].tolist()} -> {y[1].tolist()}"
        if x[2] != y[2]:
            return f"constant: t{n}.constant changed {x[2]} -> {y[2]}"
        if x[3] != y[3] and "base" not in skip:
            return f"base: t{n}.base changed t{x[3]} -> t{y[3]}"
        if x[4] != y[4]:
            return f"creator: t{n} {'lost' if y[4] else 'gained'} its creator"
        if x[5] != y[5] and "identity" not in skip:
            return f"identity: t{n} is a different object"
    for k in ha:
        if k in hb and ha[k] != hb[k]:
            return f"sharing: memory sharing of t{k[0]},t{k[1]} changed {ha[k]} -> {hb[k]}"
    return None


INPLACE_K = ("set", "aug", "outb", "outu")


def oracle(prog, idx):
    """(1) every failing statement leaves every existing tensor as it was; (2) the program with the failing statements
    removed ends in the same state with the same gradients; (3) no array stays locked on behalf of a failed op.

    One family of differences is classed apart (`failed-inplace-discards-stale-links`): `_in_place_op` decides, before
    it knows whether the update will succeed, that state left over from an *earlier graph epoch* is void — the
    gradients of the target's view family, and the `.base` link of a view whose base no longer records it — and a
    failing update does not bring them back.  Only differences in `.base` and `.grad`, and only after a failing
    in-place update that follows a backward()/clear_graph(), belong to it; values, flags, creators, identities, memory
    sharing and locks are held to the property in every history."""
    fails = []
    gc.collect()
    ex = progs.RealExec()
    ro_names = {st[1] for st in prog if st[0] == "leaf" and len(st) > 5 and st[5] == "RO"}
    outcomes = []
    boundary_seen = False
    stale_mode = False      # a failing in-place update has happened after an epoch boundary
    stale_msg = None
    for st in prog:
        if st[0] in ("back", "clear"):
            boundary_seen = True
        before = snapshot(ex) if st[0] != "back" else None
        # every `.grad` is read before every statement, in this run and in the twin run alike (reading the gradient
        # of a view caches it, so the two runs must read at the same points to be comparable)
        grads_before = {n: (None if t.grad is None else np.array(t.grad)) for n, t in ex.v.items()}
        r = ex.step(st)
        outcomes.append(r)
        if any(ex.v[n].data.flags.writeable for n in ro_names if n in ex.v):
            # a natively read-only array has become writeable: the memory guard's recorded defect (C08, id re-use). Whether
            # a later write to it is refused then depends on object addresses; the history is outside this oracle.
            return []
        if r != "ok" and st[0] != "back":
            after = snapshot(ex)
            if st[0] in INPLACE_K and boundary_seen:
                stale_mode = True
            d = snap_diff(before, after, skip=("base",) if stale_mode else ())
            if d:
                fails.append(("trace-left", f"failing `{progs.to_line(st)}` ({r}): {d}"))
                return fails
            if stale_mode and stale_msg is None:
                d = snap_diff(before, after)
                if d:
                    stale_msg = f"failing `{progs.to_line(st)[:80]}` ({r}): {d}"
                else:
                    for n, g in grads_before.items():
                        if g is not None and n in ex.v and ex.v[n].grad is None:
                            stale_msg = f"failing `{progs.to_line(st)[:80]}` ({r}): t{n} lost the gradient it held from an earlier backward"
                            break
            if not stale_mode:
                for n, g in grads_before.items():
                    g2 = ex.v[n].grad if n in ex.v else None
                    if n != st[1] and ((g is None) != (g2 is None) or (g is not None and not np.array_equal(g, g2))):
                        fails.append(("trace-left", f"failing `{progs.to_line(st)}` ({r}): grad: t{n}.grad changed"))
                        return fails
    nfail = sum(1 for r, st in zip(outcomes, prog) if r != "ok" and st[0] != "back")
    if nfail == 0:
        return []
    twin = [st for st, r in zip(prog, outcomes) if r == "ok" or st[0] == "back"]
    ex2 = progs.RealExec()
    for st in twin:
        for t in ex2.v.values():
            _ = t.grad
        ex2.step(st)
        if any(ex2.v[n].data.flags.writeable for n in ro_names if n in ex2.v):
            return fails  # (as above)
    sa, sb = snapshot(ex)[0], snapshot(ex2)[0]
    d = snap_diff((sa, {}), (sb, {}), skip=("identity", "base") if stale_mode else ("identity",))
    if d is not None and stale_msg is not None:
        pass  # a stale link was already seen to be dropped by a failing update: later differences are its consequences
    elif d is not None:
        fails.append(("final-state-differs", f"with the {nfail} failing statement(s) removed: {d}"))
    else:
        g = engcheck.same_grads(engcheck.grads_of(ex), engcheck.grads_of(ex2))
        if stale_mode:
            d = snap_diff((sa, {}), (sb, {}), skip=("identity",))
            if (d or g) and stale_msg is None:
                stale_msg = f"with the {nfail} failing statement(s) removed: {d or g}"
        elif g:
            fails.append(("final-grads-differ", f"with the {nfail} failing statement(s) removed: {g}"))
    if stale_msg:
        fails.append(("failed-inplace-discards-stale-links!", stale_msg))
    # locks: after everything is dropped no array may remain locked / counted
    ro = {st[1] for st in prog if st[0] == "leaf" and len(st) > 5 and st[5] == "RO"}  # natively read-only: stays so
    arrs = [t.data for n, t in ex.v.items() if n not in ro]
    del ex, ex2
    gc.collect()
    for a in arrs:
        if a.base is None and not a.flags.writeable:
            fails.append(("array-left-locked", "an array is still read-only after every graph was dropped"))
            break
    return fails


def nontrivial(prog):
    f = progs.features(prog)
    return len(prog) >= 6


# direct scripted failure kinds on a richer op set (beyond the integer fragment)
def scripted_cases():
    out = []

    def check(name, build, bad, temporaries=False):
        # temporaries: the failing statement first builds a temporary tensor from an input (`a[0]`, `a - 1.0`); while the
        # exception is referenced its traceback keeps that temporary, hence its creator, hence the input's lock, alive —
        # a lock held on behalf of a *successful* operation, so the flags are then compared only after the handler
        gc.collect()
        ts = build()
        # every non-constant input first receives a gradient from an earlier, finished graph epoch
        for t in ts:
            if t.constant is False and t.base is None:
                (t * 3.0).sum().backward()
        gc.collect()
        snap = [(t.data.copy(), t.constant, t.base, t.creator, id(t), None if t.grad is None else np.array(t.grad)) for t in ts]
        flags = [t.data.flags.writeable for t in ts]
        inplace = name.split("-")[0] in ("setitem", "iadd", "out", "view", "idiv", "custom") or "inplace" in name
        try:
            bad(*ts)
            out.append((name, "did-not-raise", "the statement was expected to raise"))
            return
        except Exception as e:  # noqa: F841  (the exception is deliberately kept referenced while the flags are read)
            held = [t.data.flags.writeable for t in ts]
        now = [t.data.flags.writeable for t in ts]
        for t, f, fh, fn in zip(ts, flags, held, now):
            if t.data.base is None and ((fh != f and not temporaries) or fn != f):
                out.append((name, "lock-left", f"{name}: the writeable flag of an input is {f} before the failing statement, {fh} in its "
                            f"exception handler and {fn} after it"))
                return
        for t, s in zip(ts, snap):
            if not np.array_equal(t.data, s[0], equal_nan=True) or t.constant != s[1] or t.base is not s[2] or t.creator is not s[3]:
                out.append((name, "trace-left", f"{name}: an input tensor changed (value/flag/base/creator)"))
                return
            g = t.grad
            if not inplace and not temporaries and ((g is None) != (s[5] is None) or (g is not None and not np.array_equal(g, s[5]))):
                # (a failing *in-place* update voids the gradients of its target's family beforehand: the recorded
                # finding failed-inplace-discards-stale-links; every other failing statement must leave them)
                out.append((name, "trace-left", f"{name}: the gradient an input held from an earlier backward changed: "
                            f"{None if s[5] is None else s[5].tolist()} -> {None if g is None else g.tolist()}"))
                return
        # a later correct use still works and gives right gradients
        y = ts[0] * 2.0
        y.sum().backward()
        if ts[0].constant is False and (ts[0].grad is None or not np.allclose(ts[0].grad, 2.0)):
            out.append((name, "graph-corrupted", f"{name}: gradients are wrong after the failed statement"))
        del y
        gc.collect()
        for t, f in zip(ts, flags):
            if t.data.flags.writeable != f and t.data.base is None:
                out.append((name, "lock-left", f"{name}: writeable flag not restored after the failure"))
                return

    T = lambda *s: mg.tensor(np.arange(float(np.prod(s))).reshape(s) + 1.0)
    check("matmul-shape", lambda: (T(2, 3), T(2, 3)), lambda a, b: a @ b)
    check("einsum-bad", lambda: (T(2, 3), T(3, 2)), lambda a, b: mg.einsum("ij,jk->iz", a, b))
    check("concatenate-shape", lambda: (T(2, 3), T(3, 2)), lambda a, b: mg.concatenate([a, b]))
    check("sum-bad-axis", lambda: (T(2, 3),), lambda a: a.sum(axis=5))
    check("reshape-bad", lambda: (T(2, 3),), lambda a: a.reshape(4, 4))
    check("transpose-bad", lambda: (T(2, 3),), lambda a: a.transpose(0, 0))
    check("getitem-oob", lambda: (T(2, 3),), lambda a: a[5])
    check("setitem-oob", lambda: (T(2, 3),), lambda a: a.__setitem__(5, 1.0))
    check("setitem-shape", lambda: (T(2, 3), T(4)), lambda a, b: a.__setitem__(Ellipsis, b))
    check("iadd-shape", lambda: (T(2, 3), T(4)), lambda a, b: a.__iadd__(b))
    check("out-shape", lambda: (T(2, 3), T(4)), lambda a, b: np.add(a, a, out=b))
    check("out-dtype", lambda: (T(2, 3),), lambda a: np.add(a, a, out=a, dtype=np.int32))
    check("view-setitem-shape", lambda: (T(2, 3), T(4)), lambda a, b: a[0].__setitem__(Ellipsis, b), temporaries=True)
    check("conv-shape", lambda: (T(1, 1, 5), T(1, 2, 3)), lambda a, b: __import__("mygrad.nnet.layers", fromlist=["conv_nd"]).conv_nd(a, b, stride=1))
    check("int-nonconstant", lambda: (T(2, 3),), lambda a: mg.add(a.astype(int), 1, constant=False), temporaries=True)
    Ti = lambda *s: mg.tensor(np.arange(int(np.prod(s))).reshape(s) + 1)
    # failures raised *after* the forward pass succeeded: the output cannot be made a tensor
    check("int-nonconstant-named", lambda: (Ti(2, 3), Ti(3)), lambda a, b: mg.add(a, b, constant=False))
    check("dtype-complex", lambda: (T(2, 3),), lambda a: mg.sqrt(a, dtype="complex64"))
    check("dtype-complex-binary", lambda: (T(2, 3), T(3)), lambda a, b: mg.multiply(a, b, dtype=complex))
    check("int-view-nonconstant", lambda: (Ti(2, 3),), lambda a: mg.transpose(a, constant=False))

    # failures of a kind other than shape/index/cast errors: floating-point traps and exceptions of user-defined operations
    def fp(f):
        def g(*ts):
            with np.errstate(all="raise"):
                return f(*ts)
        return g

    Z = lambda *s: mg.tensor(np.zeros(s))
    check("fp-divide", lambda: (T(2, 3), Z(3)), fp(lambda a, z: a / z))
    check("fp-log", lambda: (T(2, 3),), fp(lambda a: mg.log(a - 1.0)), temporaries=True)
    check("idiv-fp", lambda: (T(2, 3), Z(3)), fp(lambda a, z: a.__itruediv__(z)))
    check("out-fp-log-view", lambda: (T(2, 3),), fp(lambda a: np.log(a[0] - 1.0, out=a[0])), temporaries=True)

    class _Boom(mg.operation_base.Operation):
        def __call__(self, a, out=None):
            raise KeyError("an exception class of the operation's own")

        def backward_var(self, grad, index, **kwargs):  # pragma: no cover
            return grad

    check("custom-op-raises", lambda: (T(2, 3),), lambda a: mg.Tensor._op(_Boom, a))
    check("custom-op-raises-inplace", lambda: (T(2, 3),), lambda a: mg.Tensor._op(_Boom, a, out=a))
    # rejected keyword values: a non-boolean `constant=` (checked by Tensor.__init__ / Tensor._op), on plain and view ops
    check("constant-nonbool", lambda: (T(2, 3), T(3)), lambda a, b: mg.add(a, b, constant=1))
    check("constant-nonbool-str", lambda: (T(2, 3), T(3)), lambda a, b: mg.multiply(a, b, constant="no"))
    check("constant-nonbool-view", lambda: (T(2, 3),), lambda a: mg.transpose(a, constant=0))
    check("constant-nonbool-getitem", lambda: (T(2, 3),), lambda a: mg.reshape(a, (3, 2), constant=1))
    check("constant-nonbool-sum", lambda: (T(2, 3),), lambda a: mg.sum(a, constant="yes"))

    def _nd_operand():
        # ... the user's own ndarray operand is locked on behalf of the op as well
        a, arr = T(2, 3), np.ones(3)
        try:
            mg.add(a, arr, constant=1)
            out.append(("constant-nonbool-ndarray", "did-not-raise", "the statement was expected to raise"))
        except Exception:
            pass
        if not arr.flags.writeable or not a.data.flags.writeable:
            out.append(("constant-nonbool-ndarray", "lock-left", "constant-nonbool-ndarray: the caller's ndarray operand (or the tensor) is "
                        "left read-only by an operation that was rejected for its constant= argument"))

    _nd_operand()
    # multi-pass functions writing into a Tensor target: a failure in a later pass must not leave the earlier pass's result
    check("clip-inplace-second-bound", lambda: (T(2, 3), T(2, 3)), lambda t, x: mg.clip(x, 0.5, np.ones(4), out=t), temporaries=True)
    check("clip-inplace-second-bound-self", lambda: (T(2, 3),), lambda t: np.clip(t, 2.5, np.ones((5, 5)), out=t), temporaries=True)
    check("clip-inplace-second-bound-method", lambda: (T(2, 3), T(2, 3)), lambda t, x: x.clip(0.5, np.ones(4), out=t), temporaries=True)
    check("clip-inplace-first-bound", lambda: (T(2, 3), T(2, 3)), lambda t, x: mg.clip(x, np.ones(4), 0.5, out=t))
    # a rejected constant= next to out=: nothing may have been written into the target, with tracking on or suspended
    def _untracked(f):
        def g(*ts):
            with mg.no_autodiff:
                return f(*ts)
        return g
    check("out-constant-nonbool", lambda: (T(2, 3), T(2, 3)), lambda t, x: mg.add(x, x, out=t, constant=1))
    check("out-constant-nonbool-untracked", lambda: (T(2, 3), T(2, 3)), _untracked(lambda t, x: mg.add(x, x, out=t, constant=1)))
    check("out-constant-nonbool-unary-untracked", lambda: (T(2, 3), T(2, 3)), _untracked(lambda t, x: mg.exp(x, out=t, constant="no")))
    check("out-view-constant-nonbool-untracked", lambda: (T(2, 3), T(3)), _untracked(lambda t, x: mg.multiply(x, x, out=t[0], constant=1)), temporaries=True)
    check("where-shape", lambda: (T(2, 3), T(4)), lambda a, b: mg.where(np.ones((2, 3), bool), a, b))
    check("stack-shape", lambda: (T(2, 3), T(4)), lambda a, b: mg.stack([a, b]))
    # failures on natively read-only memory (NumPy refuses the write): the failing statement comes *after* ops that
    # consumed the target's whole view family; the earlier graph must still back-propagate exactly as without it
    def ro_build():
        arr = np.arange(1.0, 7.0)
        arr.flags.writeable = False
        x = mg.Tensor(arr, copy=False)
        v = x[1:5]
        w = v[::2]
        return arr, x, v, w, x * x, v * v * 3.0, w * w * 5.0

    def ro_finish(st):
        arr, x, v, w, sx, sv, sw = st
        (sx.sum() + sv.sum() + sw.sum()).backward()
        return [None if t.grad is None else np.array(t.grad) for t in (x, v, w)], [np.array(t.data) for t in (x, v, w)], \
               (v.base is x, w.base is x, x.base is None, x.constant, v.constant, w.constant)

    def w_build():
        arr = np.arange(1.0, 7.0)
        x = mg.Tensor(arr, copy=False)
        v = x[1:5]
        w = v[::2]
        return arr, x, v, w, x * x, v * v * 3.0, w * w * 5.0

    def _raising(f):
        def g(*st):
            with np.errstate(all="raise"):
                return f(*st)
        return g

    refw = ro_finish(w_build())
    for name, bad in [("fp-base-idiv", _raising(lambda arr, x, v, w, *_: x.__itruediv__(mg.tensor(np.zeros(6))))),
                      ("fp-view-idiv", _raising(lambda arr, x, v, w, *_: v.__itruediv__(0.0))),
                      ("fp-viewofview-out-log", _raising(lambda arr, x, v, w, *_: np.log(w - 10.0, out=w))),
                      ("fp-base-out-sqrt", _raising(lambda arr, x, v, w, *_: np.sqrt(x - 10.0, out=x)))]:
        gc.collect()
        st = w_build()
        try:
            bad(*st)
            out.append((name, "did-not-raise", f"{name}: a floating-point trap was expected"))
            continue
        except Exception:
            pass
        got = ro_finish(st)
        same = (all((a is None) == (b is None) and (a is None or np.array_equal(a, b)) for a, b in zip(got[0], refw[0]))
                and all(np.array_equal(a, b) for a, b in zip(got[1], refw[1])) and got[2] == refw[2])
        if not same:
            out.append((name, "graph-corrupted", f"{name}: after the failed in-place update the earlier graph back-propagates differently: "
                        f"grads {[None if g is None else g.tolist() for g in got[0]]} vs {[None if g is None else g.tolist() for g in refw[0]]}; "
                        f"values {[a.tolist() for a in got[1]]}; links {got[2]} vs {refw[2]}"))
        del st, got
        gc.collect()

    # a rejected `.shape =` (wrong size; a layout that cannot be re-shaped in place) on a base, on a view and on a view of a
    # view: links, values, the reach of later in-place updates and the gradients are those of the program without it
    def sh_build():
        x = mg.tensor(np.arange(1.0, 7.0))
        v = x[:4]
        w = v[1:]
        y = mg.tensor(np.arange(1.0, 7.0).reshape(2, 3))
        yt = y.T
        return x, v, w, y, yt, x * x, v * v * 3.0, w * w * 5.0, yt * yt

    def sh_finish(st):
        x, v, w, y, yt, sx, sv, sw, sy = st
        links = (v.base is x, w.base is x, yt.base is y, x.base is None, v.shape, w.shape, yt.shape)
        x[:2] = -1.0  # an in-place update of the base must still reach every member of the family
        reach = (np.array(v.data), np.array(w.data), bool(np.shares_memory(v.data, x.data)), bool(np.shares_memory(w.data, x.data)),
                 v.base is x, w.base is x)
        (sx.sum() + sv.sum() + sw.sum() + sy.sum()).backward()
        grads = [None if t.grad is None else np.array(t.grad) for t in (x, v, w, y, yt)]
        return links, reach, grads

    def _same(a, b):
        if isinstance(a, np.ndarray) or isinstance(b, np.ndarray):
            return isinstance(a, np.ndarray) and isinstance(b, np.ndarray) and a.shape == b.shape and np.array_equal(a, b)
        if isinstance(a, (tuple, list)):
            return len(a) == len(b) and all(_same(p, q) for p, q in zip(a, b))
        return a is b or a == b

    refs = sh_finish(sh_build())
    for name, bad in [("shape-setter-view-wrong-size", lambda x, v, w, y, yt, *_: setattr(v, "shape", (3,))),
                      ("shape-setter-view-too-big", lambda x, v, w, y, yt, *_: setattr(v, "shape", (5, 5))),
                      ("shape-setter-viewofview-wrong-size", lambda x, v, w, y, yt, *_: setattr(w, "shape", (2, 2))),
                      ("shape-setter-base-wrong-size", lambda x, v, w, y, yt, *_: setattr(x, "shape", (4,))),
                      ("shape-setter-transposed-view-layout", lambda x, v, w, y, yt, *_: setattr(yt, "shape", (6,)))]:
        gc.collect()
        st = sh_build()
        try:
            bad(*st)
            out.append((name, "did-not-raise", f"{name}: the shape assignment was expected to raise"))
            continue
        except Exception:
            pass
        got = sh_finish(st)
        if not _same(got[0], refs[0]):
            out.append((name, "trace-left", f"{name}: base links / shapes after the rejected assignment: {got[0]}, without it: {refs[0]}"))
        elif not _same(got[1], refs[1]):
            out.append((name, "graph-corrupted", f"{name}: after the rejected assignment a later in-place update of the base reaches the family "
                        f"differently: views {[a.tolist() for a in got[1][:2]]} sharing/base {got[1][2:]}, without it "
                        f"{[a.tolist() for a in refs[1][:2]]} {refs[1][2:]}"))
        elif not _same(got[2], refs[2]):
            out.append((name, "graph-corrupted", f"{name}: gradients differ after the rejected assignment: "
                        f"{[None if g is None else g.tolist() for g in got[2]]} vs {[None if g is None else g.tolist() for g in refs[2]]}"))
        del st, got
        gc.collect()

    ref = ro_finish(ro_build())
    for name, bad in [("readonly-view-setitem", lambda arr, x, v, w, *_: v.__setitem__(Ellipsis, 0.0)),
                      ("readonly-base-imul", lambda arr, x, v, w, *_: x.__imul__(2.0)),
                      ("readonly-viewofview-iadd", lambda arr, x, v, w, *_: w.__iadd__(1.0)),
                      ("readonly-out", lambda arr, x, v, w, *_: np.add(v, 1.0, out=v)),
                      ("readonly-base-setitem-index", lambda arr, x, v, w, *_: x.__setitem__(np.array([0, 0, 3]), 2.0))]:
        gc.collect()
        st = ro_build()
        try:
            bad(*st)
            out.append((name, "did-not-raise", f"{name}: a write to natively read-only memory was expected to raise"))
            continue
        except Exception:
            pass
        got = ro_finish(st)
        same = (all((a is None) == (b is None) and (a is None or np.array_equal(a, b)) for a, b in zip(got[0], ref[0]))
                and all(np.array_equal(a, b) for a, b in zip(got[1], ref[1])) and got[2] == ref[2])
        if not same:
            out.append((name, "graph-corrupted", f"{name}: after the failed write the earlier graph back-propagates differently: "
                        f"grads {[None if g is None else g.tolist() for g in got[0]]} vs {[None if g is None else g.tolist() for g in ref[0]]}"))
        if st[0].flags.writeable:
            out.append((name, "lock-left", f"{name}: the read-only array became writeable"))
    return out


N_SCRIPTED = 57


def run(ctx: Ctx) -> Outcome:
    n = ctx.n(800, 8000)
    out, results = engcheck.run_programs(ctx, n, dict(GEN, n_stmts=ctx.n(10, 18)), "oracle", nontrivial)
    out.rule = ("random programs with failing statements (non-view op with incompatible shapes, view op with bad index / "
                "bad reshape, in-place update with bad shape or index on a base or on a view, bad out=) inserted at random "
                "positions (22% of statements); non-trivial = >=1 failing statement actually raised; plus 38 scripted failure "
                "kinds on matmul/einsum/concatenate/conv/out=dtype, failures after the forward pass (unsupported result dtype, integer result with constant=False), "
                "floating-point traps and exceptions of user-defined operations, in-place or not, each on inputs that hold gradients of an earlier epoch, with the "
                "writeable flags read inside the exception handler and after it; and failing writes (read-only memory, floating-point traps) after the view family was consumed")
    nt = 0
    for r in results:
        if any(x != "ok" and x != "GUARD" and not x.startswith("v") for x in r["real"][1::2]):
            nt += 1
    out.stats["programs_with_a_raised_statement"] = nt
    engcheck.report(out, results, "C13", oracle)
    # the same with several graph epochs (backward / clear_graph / null_grad / dropped handles between the statements)
    out2, results2 = engcheck.run_programs(ctx, ctx.n(600, 5000), dict(GEN, n_stmts=ctx.n(12, 18), multi_back=True), "oracle",
                                           nontrivial, label="epochs:")
    engcheck.report(out2, results2, "C13", oracle)
    out.merge(out2)
    for name, cls, msg in scripted_cases():
        out.violations.append(Violation(f"C13|{cls}|{name}", msg, {"kind": "scripted", "name": name}))
    out.evaluations += N_SCRIPTED
    return out


def check_witness(w):
    for cls, msg in oracle(w["program"], 0):
        if cls.endswith("!"):
            return Violation(f"C13|{cls[:-1]}", msg, {"kind": "program", "program": w["program"], "class": cls})
    return None


def replay(data) -> bool:
    r = data["replay"]
    if r.get("kind") == "scripted":
        f = [x for x in scripted_cases() if x[0] == r["name"]]
        print(f)
        return bool(f)
    p = r["program"]
    for st in p:
        print(progs.to_line(st))
    f = oracle(p, 0)
    print("oracle:", f)
    return bool(f)


MANIFEST = {
    "category": "proof",
    "design_ref": "DESIGN.md §5 C13",
    "technique": "Lean 4: the engine model's failing steps are identities by construction for non-in-place ops and by a proved "
                 "restore lemma for in-place ops; correspondence on programs with failing statements; twin-program oracle",
    "text": "In the engine model a failing non-in-place op produces no heap at all, so the driver keeps its whole "
            "state (failed_op_is_noop). A failing in-place update has, when the kernel raises, already replaced "
            "the public tensor by a placeholder in every recorded consumer; reroute_spec characterises "
            "reroute_ops_through exactly (tensors and buffers untouched, variables mapped in the listed ops "
            "only), restore_reroutes_back shows routing through a fresh placeholder and back is the identity on "
            "every op's variables, and restore_inverts_duplicate concludes that DuplicatingGraph(x) followed by "
            "restore_old_graph leaves every pre-existing tensor (value, flag, base, creator, consumers, view "
            "children), every buffer and every op's variable list unchanged; restore_inverts_mkDupGraph states "
            "the same for the functions _in_place_op actually calls: mkDupGraph (which first discards x's "
            "gradient) succeeds with a one-node graph (mkDupGraph_no_views) and DupGraph.restore of its result is "
            "exactly the heap of x.null_grad() (tensor that owns its memory, no live views; the forest case is "
            "validated by correspondence); for any view forest, a successful DuplicatingGraph(base) leaves the base and "
            "every view in the graph without a gradient and gives no tensor one (mkDupGraph_discards_family_grads, by "
            "nested induction over the recursion and the loop over live view children), so the placeholder assertion "
            "cannot fire half-way through the re-routing any more. End to end, for the whole _in_place_op of the model on a "
            "tensor without live views and any operands: if the NumPy-level statement is rejected, the update raises "
            "that error and leaves every existing tensor exactly as x.null_grad() leaves it, every existing buffer "
            "unchanged and every op with its old variables (inplace_on_owner_failure_leaves_no_trace). The model with failures is run against MyGrad; the "
            "direct oracle snapshots all tensors around every failing statement, compares the final state and "
            "gradients with the program without the failing statements, and checks that no array stays locked.",
    "note": "Trusted: Lean kernel, standard axioms, correspondence harness. The target's own .grad is nulled before the attempt "
            "(the property does not list it). Lock release on failure is decided by the direct oracle and by C08's model.",
}

MANIFEST_ADDENDUM = "Also proved: inplace_through_view_failure_leaves_no_trace and inplace_on_base_with_view_failure_leaves_no_trace (the failure path of an update on a base with one live view, aimed at either: restore_old_graph on the two-placeholder graph gives back every tensor, the view link and every op's variable list; restore_two_inverts). Oracle additions: 48 scripted failure kinds incl. failures after the forward pass (unsupported result dtype, integer result with constant=False), rejected constant= values, floating-point traps and exceptions of user-defined operations, multi-pass clip into a tensor target — each on inputs holding gradients of an earlier epoch, flags read inside the exception handler and after it. Round 5: a rejected constant= next to out= (tracked, untracked, unary, view target) writes nothing."
