"""C18 — save/load round-trips a tensor's data, dtype and gradient; saving alters nothing.

Lean: MG/Core/SaveLoad.lean (model), MG/Proofs/C18.lean (theorems), MG/IO/SaveLoadIO.lean (driver tag `io`).
Tie: correspondence (the model's save/load is run against mygrad.save/mygrad.load on exact-integer data) +
direct oracle over the full grid (bitwise comparison incl. nan/inf/-0.0 data, twin-graph comparison for live graphs).
"""
from __future__ import annotations

import io as _io
import json
import os
import random
import shutil
import subprocess
import sys
import tempfile
from pathlib import Path

import numpy as np

import mygrad as mg

from ..core import CorrBreak, Ctx, Outcome, Violation, pmap, stable_hash
from ..leanbuild import run_driver

ID = "C18"
LEVEL = "proof"
THEOREMS = {
    "MG.Proofs.C18": [
        "MG.C18.save_is_frame",
        "MG.C18.load_save_data",
        "MG.C18.load_save_grad_none",
        "MG.C18.load_save_roundtrip_partial",
        "MG.C18.load_save_roundtrip_neg",
        "MG.C18.witness_load_raises",
        "MG.C18.witness2_load_broadcasts",
        "MG.C18.load_int_drops_grad",
        "MG.C18.load_constant_default",
    ]
}

DT = {"bool": "bool", "int8": "i8", "int16": "i16", "int32": "i32", "int64": "i64", "uint8": "u8", "uint16": "u16",
      "uint32": "u32", "uint64": "u64", "float16": "f16", "float32": "f32", "float64": "f64"}
DTYPES = list(DT)
FLOATS = ["float16", "float32", "float64"]
SHAPES = [(), (1,), (3,), (0,), (2, 3), (0, 2), (1, 1), (2, 1, 2), (2, 0, 3)]
IOS = ["path-npz", "path-noext", "pathlib-npz", "pathlib-noext", "bytesio", "openfile", "tempfile", "bytesio-offset", "tempfile-offset",
       "openfile-noext", "openfile-noext-pathlib", "namedtempfile", "duck-file"]
IO_CLASS = {"path-npz": "path", "path-noext": "path", "pathlib-npz": "path", "pathlib-noext": "path",
            "bytesio": "fileobj", "openfile": "fileobj", "tempfile": "fileobj",
            # the archive does not start at offset 0 of the file object (a caller's own header precedes it)
            "bytesio-offset": "fileobj", "tempfile-offset": "fileobj",
            # written through a file object opened on a name without ".npz", read back through that very name
            "openfile-noext": "fileobj", "openfile-noext-pathlib": "fileobj",
            # file objects that are not io.IOBase instances
            "namedtempfile": "fileobj", "duck-file": "fileobj"}
GRADS = ["none", "scalar", "nonscalar", "seed", "seed-bcast", "nulled", "scalar-reshaped-untracked"]
LIVE = ["consumer", "intermediate", "terminal-kept", "reused"]
VIEW_IDX = ["1:", "::-1", "...", "0", "reshape", "T", ":0", "0d"]
VIEW_GRAPH = ["base-backward", "view-backward", "no-backward", "base-backward-read", "stale-cache", "both-backward"]
_TMP = {"dir": None}


# ------------------------------------------------------------------------------------------ data


def _vals(rng, n, dtype, mode):
    if dtype == "bool":
        return np.array([rng.randint(0, 1) for _ in range(n)], dtype=bool)
    if dtype.startswith("uint"):
        return np.array([rng.randint(0, 9) for _ in range(n)], dtype=dtype)
    if dtype.startswith("int"):
        return np.array([rng.randint(-9, 9) for _ in range(n)], dtype=dtype)
    if mode == "int":
        return np.array([rng.randint(-9, 9) for _ in range(n)], dtype=dtype)
    special = [float("nan"), float("inf"), -float("inf"), -0.0, 0.0, 1e-7, 65504.0]
    return np.array([rng.choice(special) if rng.random() < 0.25 else rng.uniform(-4, 4) for _ in range(n)], dtype=dtype)


def _w(rng, shape, mode):
    n = int(np.prod(shape))
    if mode == "int":
        return np.array([rng.randint(-3, 3) for _ in range(n)], dtype=np.float64).reshape(shape)
    return np.array([rng.uniform(-2, 2) for _ in range(n)], dtype=np.float64).reshape(shape)


def _apply_idx(x, idx):
    """the same basic index on a tensor or an ndarray"""
    if idx == "1:":
        return x[1:]
    if idx == "::-1":
        return x[::-1]
    if idx == "...":
        return x[...]
    if idx == "0":
        return x[0]
    if idx == ":0":
        return x[:0]
    if idx == "0d":  # a 0-d *view* (an integer index followed by an Ellipsis returns a view, not a scalar copy)
        return x[(0,) * x.ndim + (Ellipsis,)]
    if idx == "T":
        return x.T
    if idx == "reshape":
        return x.reshape(-1) if x.ndim != 1 else x.reshape(1, -1)
    raise ValueError(idx)


# ------------------------------------------------------------------------------------------ scenarios


class Built:
    def __init__(self, t, others=(), finish=None, kind="own", view_expected=None, cache=0, keep=(), model_g=None):
        self.t = t  # tensor to save
        self.others = list(others)  # other tensors of the graph that must stay untouched
        self.finish = finish  # completes a live graph -> list of tensors whose grads are compared with the twin
        self.kind = kind  # own | view
        self.view_expected = view_expected  # callable -> ndarray|None : NumPy's view of the base gradient
        self.model_g = model_g or view_expected  # what the model is told (the replayed view, whatever the constant flag)
        self.cache = cache
        self.keep = keep  # references that keep the graph alive


def build(desc):
    """construct the tensor described by `desc` on the real implementation (deterministic in desc)"""
    rng = random.Random("c18:" + stable_hash({k: v for k, v in desc.items() if k != "io"}))
    kind, dtype, shape = desc["kind"], desc["dtype"], tuple(desc["shape"])
    mode = desc.get("vals", "int")
    n = int(np.prod(shape))
    const = desc.get("constant")
    if kind == "gru":
        from mygrad.nnet.layers import gru

        T, N, C, D = desc["T"], 1, 2, 2
        mk = lambda *s: mg.tensor(np.array([rng.randint(-2, 2) for _ in range(int(np.prod(s)))], dtype=float).reshape(s))
        args = [mk(T, N, C)]
        for _ in range(3):
            args += [mk(C, D), mk(D, D), mk(D)]
        X, Uz, Wz, bz, Ur, Wr, br, Uh, Wh, bh = args
        s = gru(X, Uz, Wz, bz, Ur, Wr, br, Uh, Wh, bh)
        s.sum().backward()
        return Built(s, others=[X])
    arr = _vals(rng, n, dtype, mode).reshape(shape)
    if kind == "leaf":
        t = mg.tensor(arr, constant=const)
        g = desc["grad"]
        w = _w(rng, shape, mode)
        if g in ("scalar", "nulled", "scalar-reshaped-untracked"):
            (t * w).sum().backward()
            if g == "nulled":
                t.null_grad()
            if g == "scalar-reshaped-untracked":
                # `.shape =` with tracking suspended re-shapes the tensor and the gradient it holds
                with mg.no_autodiff:
                    t.shape = (n,) if len(shape) != 1 else (1, n)
        elif g == "nonscalar":
            (t * w).backward()
        elif g == "seed":
            t.backward(w.astype(rng.choice(["float32", "float64", "int64"])) if mode == "int" else w)
        elif g == "seed-bcast":
            t.backward(float(rng.randint(-3, 3)) if mode == "int" else rng.uniform(-2, 2))
        return Built(t)
    if kind == "live":
        lv = desc["live"]
        w = _w(rng, shape, mode)
        if lv == "consumer":
            t = mg.tensor(arr, constant=const)
            y = t * w
            return Built(t, others=[y], finish=lambda: (y.sum().backward(), [t, y])[1], keep=(y,))
        if lv == "reused":
            t = mg.tensor(arr, constant=const)
            (t * w).sum().backward()
            y = t + 1.0  # nulls t.grad, t has a consumer again
            return Built(t, others=[y], finish=lambda: ((y * w).sum().backward(), [t, y])[1], keep=(y,))
        if lv == "intermediate":
            a = mg.tensor(arr, constant=const)
            t = a * w
            y = t + 1.0
            return Built(t, others=[a, y], finish=lambda: ((y * w).sum().backward(), [a, t, y])[1], keep=(a, y))
        if lv == "terminal-kept":
            a = mg.tensor(arr, constant=const)
            t = (a * w).sum()
            t.backward()
            return Built(t, others=[a])
    if kind in ("view", "constview", "ncview"):
        b = mg.tensor(arr, constant=True if kind == "ncview" else const)
        idx = desc["idx"]
        if kind in ("constview", "ncview"):
            # a view whose constant flag is forced against its base's (F11/F12 territory)
            newshape = (-1,) if arr.ndim != 1 else (1, -1)
            v = mg.reshape(b, newshape, constant=(kind == "constview"))
            npview = lambda a: a.reshape(newshape)
        else:
            v = _apply_idx(b, idx)
            npview = lambda a: _apply_idx(a, idx)
        gmode = desc["graph"]
        w = _w(rng, shape, mode)
        cache = 0
        keep = ()
        own = None
        if gmode in ("base-backward", "base-backward-read", "stale-cache"):
            (b * w).sum().backward()
            if gmode != "base-backward":
                _ = v.grad
                cache = 1
            if gmode == "stale-cache":
                (b * (w + 1.0)).sum().backward()  # b._grad is a new array; v._view_grad still points to the old one
                cache = 2
        elif gmode == "view-backward":
            wv = _w(rng, v.shape, mode)
            (v * wv).sum().backward()
            cache = 1  # clear_graph pulls the view gradient before dropping the creator
            own = None if v.constant else wv.astype(v.dtype)  # d(sum(v*wv))/dv
        elif gmode == "both-backward":
            # the view takes part in the graph *and* the base receives gradient by another route: the gradient that
            # flowed through the view node alone (v._grad) differs from the public v.grad (the view of b.grad)
            wv = _w(rng, v.shape, mode)
            ((v * wv).sum() + (b * w).sum()).backward()
            cache = 1
            own = None if v.constant else wv.astype(v.dtype)
        elif gmode == "no-backward":
            pass
        is_view = v.base is not None
        if b.constant:  # a view of a constant base owns its gradient (its base never gets one)
            exp = (lambda: own)
        else:  # a constant view has no gradient; otherwise NumPy's view of the base's gradient
            exp = (lambda: None if (b.grad is None or v.constant) else npview(b.grad))
        mexp = exp if b.constant else (lambda: None if b.grad is None else npview(b.grad))
        if not is_view:  # e.g. views of constant/int tensors still have a base; x[0] of 1-d is a 0-d view
            exp = mexp = None
        return Built(v, others=[b], kind="view" if is_view else "own", view_expected=exp, cache=cache, keep=(b,) + keep,
                     model_g=mexp)
    raise ValueError(kind)


# ------------------------------------------------------------------------------------------ io


class _DuckFile:
    """a binary file object by duck typing only (not an io.IOBase)"""

    def __init__(self, raw):
        self._raw = raw

    def write(self, b):
        return self._raw.write(b)

    def read(self, n=-1):
        return self._raw.read(n)

    def readinto(self, b):
        return self._raw.readinto(b)

    def seek(self, *a):
        return self._raw.seek(*a)

    def tell(self):
        return self._raw.tell()

    def seekable(self):
        return True

    def flush(self):
        return self._raw.flush()

    def close(self):
        return self._raw.close()


def do_save_load(t, iomode, tag):
    """-> (loaded tensor, sorted archive keys).  Everything lives in the check's own temp dir."""
    d = _TMP["dir"] or tempfile.gettempdir()
    base = os.path.join(d, f"c18-{os.getpid()}-{tag}")
    paths = [base, base + ".npz"]
    try:
        if iomode == "bytesio":
            f = _io.BytesIO()
            mg.save(f, t)
            f.seek(0)
            keys = sorted(np.load(f).files)
            f.seek(0)
            return mg.load(f), keys
        if iomode in ("bytesio-offset", "tempfile-offset"):
            header = b"MYCKPT\x00\x01" * 3
            f = _io.BytesIO() if iomode.startswith("bytesio") else tempfile.TemporaryFile(dir=d)
            try:
                f.write(header)
                mg.save(f, t)
                f.seek(len(header))
                keys = sorted(np.load(f).files)
                f.seek(len(header))
                return mg.load(f), keys
            finally:
                f.close()
        if iomode in ("namedtempfile", "duck-file"):
            # file objects that are not io.IOBase instances: the wrapper tempfile.NamedTemporaryFile returns, and a
            # user class that delegates write/read/seek/tell (np.savez / np.load accept both)
            if iomode == "namedtempfile":
                f = tempfile.NamedTemporaryFile(dir=d)
            else:
                f = _DuckFile(_io.BytesIO())
            try:
                mg.save(f, t)
                f.seek(0)
                keys = sorted(np.load(f).files)
                f.seek(0)
                return mg.load(f), keys
            finally:
                f.close()
        if iomode == "tempfile":
            with tempfile.TemporaryFile(dir=d) as f:
                mg.save(f, t)
                f.seek(0)
                keys = sorted(np.load(f).files)
                f.seek(0)
                return mg.load(f), keys
        if iomode.startswith("openfile-noext"):
            name = base + ".bin"
            paths.append(name)
            with open(name, "wb") as f:
                mg.save(f, t)
            with open(name, "rb") as f:
                keys = sorted(np.load(f).files)
            return mg.load(Path(name) if iomode.endswith("pathlib") else name), keys
        if iomode == "openfile":
            with open(base + ".npz", "wb") as f:
                mg.save(f, t)
            with open(base + ".npz", "rb") as f:
                keys = sorted(np.load(f).files)
            with open(base + ".npz", "rb") as f:
                return mg.load(f), keys
        p = base + (".npz" if iomode.endswith("-npz") else "")
        arg = Path(p) if iomode.startswith("pathlib") else p
        mg.save(arg, t)
        q = base + ".npz"  # "the file will be saved as a .npz file"
        with np.load(q) as z:
            keys = sorted(z.files)
        return mg.load(Path(q) if iomode.startswith("pathlib") else q), keys
    finally:
        for p in paths:
            try:
                os.remove(p)
            except OSError:
                pass


# ------------------------------------------------------------------------------------------ observation


def _bits(a):
    return None if a is None else (str(a.dtype), tuple(a.shape), np.ascontiguousarray(a).tobytes())


def snap(x, read_grad=True):
    d = x.data
    s = {
        "data": _bits(d), "constant": bool(x.constant), "creator": id(x.creator) if x.creator is not None else None,
        "base": id(x.base) if x.base is not None else None, "nops": len(getattr(x, "_ops", ())),
        "w": bool(d.flags.writeable), "wbase": None if d.base is None or not hasattr(d.base, "flags") else bool(d.base.flags.writeable),
        "data_id": id(d),
    }
    if read_grad:
        g = x.grad
        s["grad"] = _bits(g)
        s["grad_id"] = id(g) if g is not None else None
    return s


def garr(a):
    if a is None:
        return "none"
    return f"{DT[str(a.dtype)]};{_l(a.shape)};{_l([int(v) for v in np.asarray(a, dtype=np.float64).reshape(-1)])}"


def _l(xs):
    xs = list(xs)
    return ",".join(str(int(v)) for v in xs) if xs else "-"


def same_arr(a, b):
    """bitwise equal up to memory layout; None == None"""
    if a is None or b is None:
        return a is None and b is None
    return a.dtype == b.dtype and a.shape == b.shape and np.ascontiguousarray(a).tobytes() == np.ascontiguousarray(b).tobytes()


def run_case(desc, tag="x"):
    """-> dict(fails=[(class, what)], model_in, impl_obs, features)"""
    fails = []
    B = build(desc)
    t = B.t
    is_view = B.kind == "view"
    read_before = not (is_view and B.cache != 1)  # do not warm the `_view_grad` cache the scenario wants cold
    before = snap(t, read_grad=read_before)
    others_before = [snap(o) for o in B.others]
    if is_view:
        expected_grad = B.view_expected()
        expected_grad = None if expected_grad is None else np.array(expected_grad)
    else:
        g0 = t.grad
        expected_grad = None if g0 is None else g0.copy()
    exp_data = t.data.copy()
    h_wf = expected_grad is None or (np.issubdtype(t.dtype, np.floating) and expected_grad.dtype == t.dtype
                                     and expected_grad.shape == t.shape)
    # model input (public observables + the scenario's own knowledge)
    intmode = desc.get("vals", "int") == "int" and desc["kind"] != "gru"
    model_in = None
    if intmode:
        st = (f"{'view' if is_view else 'own'},{int(B.others[0].grad is not None) if is_view else 0},{int(t.creator is not None)},"
              f"{B.cache if is_view else 0},{before['nops']},{int(before['w'])},{int(B.others[0].constant) if is_view else 0}")
        mg_ = expected_grad
        if is_view:
            mg_ = B.model_g()
            mg_ = None if mg_ is None else np.array(mg_)
        model_in = f"io rt {DT[str(t.dtype)]} {_l(t.shape)} {_l([int(v) for v in np.asarray(t.data, dtype=np.float64).reshape(-1)])} {int(t.constant)} {garr(mg_)} {st}"

    # ---- save / load on the implementation
    err = None
    loaded, keys = None, None
    try:
        loaded, keys = do_save_load(t, desc["io"], tag)
    except Exception as e:  # noqa
        err = type(e).__name__
    after = snap(t)
    grad_after = None if t.grad is None else np.array(t.grad)
    others_after = [snap(o) for o in B.others]

    # ---- frame: saving does not alter t, its gradient or its graph
    for k in before:
        if before[k] != after.get(k):
            what = {"data": "data", "grad": "grad", "grad_id": "grad-object", "creator": "creator", "nops": "consumers",
                    "w": "writeable", "wbase": "writeable", "constant": "constant", "base": "base", "data_id": "data-object"}[k]
            fails.append(("save-alters", what))
    if not same_arr(t.grad, expected_grad):
        fails.append(("save-alters", "grad"))
    for ob, oa in zip(others_before, others_after):
        for k in ob:
            if ob[k] != oa[k]:
                fails.append(("save-alters", "graph-neighbour-" + {"grad_id": "grad", "data_id": "data", "wbase": "writeable", "w": "writeable", "nops": "consumers"}.get(k, k)))
    # ---- round trip
    if err is not None:
        fails.append(("load-raises", err))
    else:
        if not isinstance(loaded, mg.Tensor):
            fails.append(("roundtrip", "type"))
        else:
            if loaded.dtype != exp_data.dtype:
                fails.append(("roundtrip", "dtype"))
            if loaded.shape != exp_data.shape:
                fails.append(("roundtrip", "shape"))
            elif not same_arr(np.asarray(loaded.data), exp_data) and loaded.dtype == exp_data.dtype:
                fails.append(("roundtrip", "data"))
            lg = loaded.grad
            if (lg is None) != (expected_grad is None):
                fails.append(("roundtrip", "grad-missing" if lg is None else "grad-spurious"))
            elif lg is not None:
                if lg.dtype != expected_grad.dtype:
                    fails.append(("roundtrip", "grad-dtype"))
                if lg.shape != expected_grad.shape:
                    fails.append(("roundtrip", "grad-shape"))
                elif not np.array_equal(np.asarray(lg, dtype=np.float64), np.asarray(expected_grad, dtype=np.float64), equal_nan=True):
                    fails.append(("roundtrip", "grad-value"))
            if keys != (["data"] if expected_grad is None else ["data", "grad"]):
                fails.append(("archive", "keys"))
    # ---- the live graph still works exactly as an untouched twin
    if B.finish is not None and err is None:
        twin = build(desc)
        try:
            mine = [None if x.grad is None else x.grad.copy() for x in B.finish()]
            ok = True
        except Exception as e:  # noqa
            fails.append(("save-alters", "graph-unusable:" + type(e).__name__))
            ok = False
        if ok:
            theirs = [None if x.grad is None else x.grad.copy() for x in twin.finish()]
            if any(not same_arr(a, b) for a, b in zip(mine, theirs)):
                fails.append(("save-alters", "later-backward"))
    # ---- implementation observation line (same format as the driver's)
    impl_obs = None
    if intmode:
        frame = int(not any(c == "save-alters" for c, _ in fails))
        sv = (f"save: grad={garr(grad_after)} creator={int(after['creator'] is not None)} nops={after['nops']} w={int(after['w'])} "
              f"const={int(t.constant)} frame={frame} keys={','.join(keys) if keys else ('data,grad' if expected_grad is not None else 'data')}")
        if err is not None:
            ld = "load: " + err
        else:
            ld = (f"load: {garr(loaded.data)} const={int(loaded.constant)} grad={garr(loaded.grad)} "
                  f"creator={int(loaded.creator is not None)} nops={len(getattr(loaded, '_ops', ()))}")
        impl_obs = sv + " | " + ld
    feats = {"kind": desc["kind"], "view": is_view, "dtype": str(t.dtype), "shape": list(t.shape), "io": desc["io"],
             "has_grad": expected_grad is not None, "h_grad_wf": bool(h_wf), "live": B.finish is not None or t.creator is not None,
             "cache": B.cache if is_view else None}
    return {"fails": sorted(set(fails)), "model_in": model_in, "impl_obs": impl_obs, "features": feats, "desc": desc}


def forged_case(desc, tag="f"):
    """an archive written by np.savez directly (what `load` does with a grad entry of another dtype/shape, or on an
    integer tensor).  Correspondence only."""
    rng = random.Random("c18f:" + stable_hash(desc))
    dshape, gshape = tuple(desc["shape"]), tuple(desc["gshape"])
    data = _vals(rng, int(np.prod(dshape)), desc["dtype"], "int").reshape(dshape)
    grad = _vals(rng, int(np.prod(gshape)), desc["gdtype"], "int").reshape(gshape)
    f = _io.BytesIO()
    np.savez(f, data=data, grad=grad)
    f.seek(0)
    try:
        l = mg.load(f)
        obs = (f"load: {garr(l.data)} const={int(l.constant)} grad={garr(l.grad)} creator={int(l.creator is not None)} "
               f"nops={len(getattr(l, '_ops', ()))}")
    except ValueError:
        obs = "load: ValueError"
    except Exception as e:  # noqa
        obs = "load: " + type(e).__name__
    line = f"io load {DT[desc['dtype']]} {_l(dshape)} {_l(data.reshape(-1))} {garr(grad)}"
    return {"fails": [], "model_in": line, "impl_obs": obs, "features": {"kind": "forged"}, "desc": desc}


def _work(chunk):
    out = []
    for i, desc in chunk:
        try:
            r = forged_case(desc, str(i)) if desc["kind"] == "forged" else run_case(desc, str(i))
        except Exception as e:  # noqa  — a scenario that cannot be built is an infrastructure problem, reported as such
            r = {"fails": [("harness-error", f"{type(e).__name__}: {e}")], "model_in": None, "impl_obs": None,
                 "features": {"kind": desc["kind"]}, "desc": desc}
        out.append(r)
    return out


def _isolated(descs):
    """run cases that need the numba-compiled GRU kernels in a child process with NUMBA_DISABLE_JIT=1 (the kernels then
    run as plain Python: same code, no 30 s JIT compilation)"""
    from ..core import VERIF

    env = dict(os.environ, NUMBA_DISABLE_JIT="1")
    p = subprocess.run([sys.executable, "-W", "ignore", "-m", "harness.props.c18"], input=json.dumps(descs), cwd=VERIF,
                       env=env, capture_output=True, text=True, timeout=600)
    if p.returncode != 0:
        raise RuntimeError("isolated C18 cases failed: " + p.stderr[-1500:])
    res = json.loads(p.stdout.strip().splitlines()[-1])
    for r in res:
        r["fails"] = [tuple(f) for f in r["fails"]]
    return res


# ------------------------------------------------------------------------------------------ the grid


def cases(ctx: Ctx):
    rng = ctx.rng("grid")
    out = []
    reps = ctx.n(1, 4)
    for rep in range(reps):
        for vals in ("int", "float"):
            for dtype in DTYPES:
                if vals == "float" and dtype not in FLOATS:
                    continue
                consts = [None, True] + ([False] if dtype in FLOATS else [])
                for shape in SHAPES:
                    for const in consts:
                        for g in GRADS:
                            out.append({"kind": "leaf", "dtype": dtype, "shape": list(shape), "constant": const, "grad": g,
                                        "vals": vals, "io": rng.choice(IOS), "rep": rep})
                        for lv in LIVE:
                            out.append({"kind": "live", "dtype": dtype, "shape": list(shape), "constant": const, "live": lv,
                                        "vals": vals, "io": rng.choice(IOS), "rep": rep})
                        if len(shape) >= 1:
                            for idx in VIEW_IDX:
                                if idx == "0" and shape[0] == 0:
                                    continue
                                if idx == "0d" and 0 in shape:
                                    continue
                                for gm in VIEW_GRAPH:
                                    if dtype not in FLOATS and gm not in ("base-backward", "no-backward"):
                                        continue
                                    out.append({"kind": "view", "dtype": dtype, "shape": list(shape), "constant": const,
                                                "idx": idx, "graph": gm, "vals": vals, "io": rng.choice(IOS), "rep": rep})
                            if dtype in FLOATS and const is not True:
                                out.append({"kind": "constview", "dtype": dtype, "shape": list(shape), "constant": const,
                                            "idx": "reshape", "graph": "base-backward", "vals": vals, "io": rng.choice(IOS), "rep": rep})
                                for gm in ("view-backward", "no-backward"):
                                    out.append({"kind": "ncview", "dtype": dtype, "shape": list(shape), "constant": True,
                                                "idx": "reshape", "graph": gm, "vals": vals, "io": rng.choice(IOS), "rep": rep})
    # every io mode on a fixed representative set (so that no mode is left to chance)
    for iom in IOS:
        for dtype in ("float32", "float64", "float16", "int32", "bool"):
            for g in ("none", "nonscalar"):
                out.append({"kind": "leaf", "dtype": dtype, "shape": [2, 3], "constant": None, "grad": g, "vals": "int", "io": iom, "rep": 0})
            out.append({"kind": "view", "dtype": dtype, "shape": [3], "constant": None, "idx": "1:", "graph": "base-backward",
                        "vals": "int", "io": iom, "rep": 0})
            out.append({"kind": "live", "dtype": dtype, "shape": [3], "constant": None, "live": "intermediate", "vals": "float" if dtype in FLOATS else "int",
                        "io": iom, "rep": 0})
    # the witness of load_save_roundtrip_neg, on the implementation (F5: gru's hidden sequence)
    for T in (2, 1):
        out.append({"kind": "gru", "dtype": "float64", "shape": [T + 1, 1, 2], "T": T, "io": "bytesio", "vals": "int"})
    # forged archives (correspondence of `load` outside what `save` writes)
    gs = [(), (1,), (3,), (2, 3), (1, 3), (2, 1), (3, 2), (0,), (2, 1, 2), (1, 1, 2), (1, 2, 1, 2)]
    for dtype in ("float64", "float32", "float16", "int64", "int8", "uint8", "bool"):
        for gd in ("float64", "float32", "int64", "bool"):
            for ds in SHAPES:
                for s in gs:
                    if rng.random() < (1.0 if ctx.thorough else 0.25):
                        out.append({"kind": "forged", "dtype": dtype, "gdtype": gd, "shape": list(ds), "gshape": list(s)})
    # the exact witnesses of the Lean theorems
    out.append({"kind": "forged", "dtype": "float64", "gdtype": "float64", "shape": [3, 1, 2], "gshape": [2, 1, 2]})
    out.append({"kind": "forged", "dtype": "float64", "gdtype": "float64", "shape": [2, 1, 2], "gshape": [1, 1, 2]})
    return out


ORDER = {"kind": ["leaf", "live", "view", "constview", "ncview", "gru"], "dtype": ["float64", "float32", "float16", "int64", "int32", "int16", "int8", "uint8", "uint16", "uint32", "uint64", "bool"]}


def _size(desc):
    return (ORDER["kind"].index(desc["kind"]), 0 if desc.get("vals") == "int" else 1, int(0 in desc["shape"]),
            int(np.prod(desc["shape"]) if desc["shape"] else 1) + 10 * len(desc["shape"]),
            ORDER["dtype"].index(desc["dtype"]), IOS.index(desc["io"]), len(str(desc)), str(desc))


def signature(cls, what, desc, io_sensitive):
    """canonical: property | failure class | what | minimal feature list (scenario kind [+ io class when only that class fails])"""
    feat = desc["kind"]
    if desc["kind"] == "gru":
        feat = "gru-hidden-sequence(grad.shape!=shape)"
    return f"C18|{cls}|{what}|{feat}" + (f"|io={io_sensitive}" if io_sensitive else "")


def run(ctx: Ctx) -> Outcome:
    out = Outcome()
    out.rule = ("full grid kind{leaf,live,view,constview,ncview} x dtype(12) x shape(9 incl. 0-d/empty) x constant x gradient mode "
                "(none/scalar/non-scalar/seeded/broadcast seed/nulled) x view index x view graph state (incl. cold/warm/stale "
                "_view_grad cache), io mode drawn per case + every io mode on a fixed representative set; data exact "
                "integers (also piped to the Lean model) and random floats incl. nan/inf/-0.0 (oracle only). "
                "non-trivial = tensor carries a gradient, or is a view, or sits in a live graph; distinct by (kind, dtype, "
                "shape, constant, grad/graph mode, index, io class, value mode).")
    tmp = tempfile.mkdtemp(prefix="verif-c18-")
    _TMP["dir"] = tmp
    try:
        allc = cases(ctx)
        iso = [d for d in allc if d["kind"] == "gru"]
        cs = list(enumerate(d for d in allc if d["kind"] != "gru"))
        chunks = [cs[i:i + 150] for i in range(0, len(cs), 150)]
        results = [r for ch in pmap(_work, chunks) for r in ch] + _isolated(iso)
        # ---------------- correspondence
        idx = [i for i, r in enumerate(results) if r["model_in"] is not None]
        obs = run_driver([results[i]["model_in"] for i in idx]) if idx else []
        for i, o in zip(idx, obs):
            r = results[i]
            out.traces_validated += 1
            if o != r["impl_obs"]:
                r["corr"] = {"statement": r["model_in"], "model": o, "implementation": r["impl_obs"]}
        # ---------------- oracle
        hist = {"kind": {}, "dtype": {}, "io": {}, "ndim": {}, "has_grad": 0, "views": 0, "live": 0, "empty": 0,
                "h_grad_wf_false": 0, "forged": 0}
        failing = {}
        for r in results:
            out.evaluations += 1
            f, d = r["features"], r["desc"]
            for cls, what in r["fails"]:
                if cls == "harness-error":
                    raise RuntimeError(f"scenario could not be built: {d}: {what}")
            hist["kind"][f["kind"]] = hist["kind"].get(f["kind"], 0) + 1
            if f["kind"] == "forged":
                hist["forged"] += 1
            else:
                hist["dtype"][f["dtype"]] = hist["dtype"].get(f["dtype"], 0) + 1
                hist["io"][f["io"]] = hist["io"].get(f["io"], 0) + 1
                hist["ndim"][str(len(f["shape"]))] = hist["ndim"].get(str(len(f["shape"])), 0) + 1
                hist["has_grad"] += f["has_grad"]
                hist["views"] += f["view"]
                hist["live"] += f["live"]
                hist["empty"] += int(0 in f["shape"])
                hist["h_grad_wf_false"] += not f["h_grad_wf"]
                if f["has_grad"] or f["view"] or f["live"]:
                    out.nontrivial.add(stable_hash({k: v for k, v in d.items() if k not in ("rep", "io")} | {"ioc": IO_CLASS[d["io"]]}))
                if len(out.samples) < 5 and f["has_grad"] and f["view"]:
                    out.samples.append({"case": d, "model_statement": r["model_in"], "observation": r["impl_obs"]})
            for cls, what in r["fails"]:
                if cls == "archive" and len(r["fails"]) > 1:
                    continue  # the round-trip failure of the same case says it already
                failing.setdefault((cls, what, "gru" if d["kind"] == "gru" else ""), []).append(d)
            if "corr" in r:
                # a disagreement is evaluated by the oracle above (it ran on the same case); record the broken tie
                out.corr_breaks.append(CorrBreak("SaveLoad model vs mygrad.save/load", {"case": d, **r["corr"]}))
        for (cls, what, sig0), ds in failing.items():
            d = min(ds, key=_size)
            # is the failure specific to one io class?  re-run the minimal case under every io mode
            bad = []
            for iom in IOS if d["kind"] != "gru" else []:
                rr = run_case({**d, "io": iom}, "shrink")
                if (cls, what) in rr["fails"]:
                    bad.append(iom)
            io_s = None
            if bad and len(bad) < len(IOS):
                classes = sorted({IO_CLASS[b] for b in bad})
                io_s = classes[0] if len(classes) == 1 and all(IO_CLASS[m] != classes[0] or m in bad for m in IOS) else ",".join(bad)
                d = {**d, "io": bad[0]}
            sig = signature(cls, what, d, io_s)
            out.violations.append(Violation(sig, f"save/load: {cls}: {what} for {d}", {"case": d, "class": cls, "what": what}))
        out.stats = hist
        out.extra["exhaustive"] = True
        out.extra["neg_witness_replayed"] = {"theorem": "MG.C18.load_save_roundtrip_neg",
                                             "implementation_case": "gru hidden sequence (T=2): load(save(s)) raises ValueError",
                                             "reproduces": any(k[0] == "load-raises" and "gru" in k[2] for k in failing)}
    finally:
        _TMP["dir"] = None
        shutil.rmtree(tmp, ignore_errors=True)
    out.assumptions = ["np.savez / np.load return the arrays they were given (byte fidelity trusted)",
                       "H_grad_wf (a stored gradient is a float array of the tensor's dtype and shape) is evaluated on every "
                       "generated tensor; tensors outside it are decided by the direct oracle alone",
                       "complex / object dtypes are outside the quantifier (Tensor rejects them)"]
    return out


def replay(data) -> bool:
    r = data["replay"]
    tmp = tempfile.mkdtemp(prefix="verif-c18-")
    _TMP["dir"] = tmp
    try:
        res = _isolated([r["case"]])[0] if r["case"]["kind"] == "gru" else run_case(r["case"], "replay")
    finally:
        _TMP["dir"] = None
        shutil.rmtree(tmp, ignore_errors=True)
    print("case:", r["case"])
    print("expected: load(save(t)) returns equal data/dtype/shape/grad and save leaves t, t.grad and the graph untouched")
    print("observed failures:", res["fails"])
    print("implementation observation:", res["impl_obs"])
    return (r["class"], r["what"]) in [tuple(f) for f in res["fails"]]


MANIFEST = {
    "category": "proof",
    "design_ref": "DESIGN.md §5 C18",
    "technique": "Lean 4 proof over a model of save/load + the `.grad` getter + backward-seeding (all tensors of the model), "
                 "model/implementation correspondence on the full shape x dtype x constant x gradient x view x io grid, "
                 "direct bitwise oracle incl. twin-graph comparison for live graphs",
    "text": "save_is_frame (every tensor: save writes nothing but a view's _view_grad cache; .grad, creator, consumers, "
            "writeability unchanged; saving twice writes the same archive), load_save_data (every tensor: data, shape, dtype "
            "return), load_save_grad_none, load_save_roundtrip_partial (gradient value/shape/dtype return under H_grad_wf: the "
            "stored gradient has the tensor's float dtype and shape) are proved; the full statement is proved FALSE of the code "
            "(load_save_roundtrip_neg): a tensor whose gradient has another shape — reachable as gru's hidden sequence, F5 — "
            "makes load raise (or silently broadcast); the witness is replayed on the implementation on every run.",
    "note": "Trusted: Lean kernel; np.savez/np.load byte fidelity; the scenario builder that maps real tensors to model states "
            "(view gradients are computed by NumPy on the base's gradient, not read from the implementation). The constant "
            "flag is not round-tripped (load_constant_default) — the property does not ask for it.",
}


if __name__ == "__main__":  # child process of `_isolated`
    _descs = json.loads(sys.stdin.read())
    _TMP["dir"] = tempfile.mkdtemp(prefix="verif-c18-")
    try:
        _res = [run_case(d, f"iso{i}") for i, d in enumerate(_descs)]
    finally:
        shutil.rmtree(_TMP["dir"], ignore_errors=True)
    print(json.dumps(_res, default=str))

MANIFEST_ADDENDUM = "Oracle additions: archives that do not start at offset 0 of a file object (the caller's own header precedes them). Round 5: leaves re-shaped with tracking suspended after they acquired a gradient. Round 7: file objects that are not io.IOBase instances (tempfile.NamedTemporaryFile, a duck-typed wrapper)."
