"""Symbolic tracer of MyGrad's element-wise operations (used by c02_scalar).

`Sym` is a duck array that records every NumPy call made on it (arithmetic dunders, `__array_ufunc__`,
`__array_function__`) as an expression tree ("raw IR").  The real `Operation.__call__` and `backward_var` are executed
on `Sym` operands, so the tree *is* the formula the code computes.  Three consumers:

  * `ev(raw, env)`        – interpreter of the raw IR by the very same NumPy calls, used to validate the trace BITWISE
                            against the real method on random operands (the tie);
  * `lower(raw)`          – normalisation into a small typed "core IR" (real / bool sorted expressions with `ite`);
  * `lean(core)`          – pretty-printer of the core IR as a Lean term over ℝ (the ufunc ↦ Mathlib table below is part
                            of the trusted base); `core_eval(core, env)` evaluates the core IR with NumPy (validates
                            the lowering), and the core IR is what the mpmath oracle receives as JSON.
"""
from __future__ import annotations

import contextlib
import math

import numpy as np


class Untraceable(Exception):
    pass


# ------------------------------------------------------------------------------------------------ Sym


class Sym:
    __array_priority__ = 1000
    ndim = 1
    shape = (5,)
    size = 5
    base = None
    dtype = np.dtype("float64")

    def __init__(self, op, *args, kw=None):
        self.op = op
        self.args = args
        self.kw = kw or {}

    def __repr__(self):
        if self.op == "var":
            return self.args[0]
        if self.op == "const":
            return repr(self.args[0])
        return f"{self.op}({', '.join(map(repr, self.args))}{', **' + repr(self.kw) if self.kw else ''})"

    def _snapshot(self):
        return Sym(self.op, *self.args, kw=self.kw)

    def _become(self, r):
        self.op, self.args, self.kw = r.op, r.args, r.kw
        return self

    def __array_ufunc__(self, ufunc, method, *inputs, out=None, where=True, **kw):
        if method != "__call__":
            raise Untraceable(f"ufunc method {ufunc.__name__}.{method}")
        kw = {k: v for k, v in kw.items() if v is not None}
        if kw:
            raise Untraceable(f"ufunc keyword {sorted(kw)} in {ufunc.__name__}")
        o = None
        if out is not None:
            (o,) = out if isinstance(out, tuple) else (out,)
        old = o._snapshot() if isinstance(o, Sym) else o
        inputs = [old if i is o else i for i in inputs]
        r = Sym("uf:" + ufunc.__name__, *[lift(i) for i in inputs])
        if o is not None:
            if where is not True:
                r = Sym("fn:where3", lift(where), r, lift(old))
            if isinstance(o, Sym):
                return o._become(r)
            raise Untraceable("out= is not a traced operand")
        if where is not True:
            raise Untraceable("where= without out=")
        return r

    def __array_function__(self, func, types, args, kwargs):
        return Sym("fn:" + func.__name__, *[liftdeep(a) for a in args],
                   kw={k: liftdeep(v) for k, v in kwargs.items()})

    def _b(name):  # noqa
        def f(self, o):
            return Sym("uf:" + name, self, lift(o))

        def r(self, o):
            return Sym("uf:" + name, lift(o), self)

        def i(self, o):
            return self._become(Sym("uf:" + name, self._snapshot(), lift(o)))

        return f, r, i

    __add__, __radd__, __iadd__ = _b("add")
    __sub__, __rsub__, __isub__ = _b("subtract")
    __mul__, __rmul__, __imul__ = _b("multiply")
    __truediv__, __rtruediv__, __itruediv__ = _b("divide")
    __pow__, __rpow__, __ipow__ = _b("power")
    __lt__, _, _ = _b("less")
    __gt__, _, _ = _b("greater")
    __le__, _, _ = _b("less_equal")
    __ge__, _, _ = _b("greater_equal")
    __eq__, _, _ = _b("equal")
    __ne__, _, _ = _b("not_equal")
    __and__, __rand__, _ = _b("logical_and")
    __or__, __ror__, _ = _b("logical_or")
    __hash__ = object.__hash__
    del _b

    def __neg__(self):
        return Sym("uf:negative", self)

    def __pos__(self):
        return Sym("uf:positive", self)

    def __invert__(self):
        return Sym("uf:invert", self)

    def __abs__(self):
        return Sym("uf:absolute", self)

    def __bool__(self):
        raise Untraceable("Python control flow depends on operand values (bool() of a traced array)")

    def __float__(self):
        raise Untraceable("float() of a traced array")

    def __iter__(self):
        raise Untraceable("iteration over a traced array")

    def __getitem__(self, k):
        raise Untraceable("indexing of a traced array (not element-wise)")

    def __array__(self, *a, **k):
        raise Untraceable("conversion of a traced array to ndarray")

    def astype(self, dtype, **kw):
        return Sym("fn:asarray", self, kw={"dtype": Sym("const", np.dtype(dtype))})

    def copy(self):
        return self._snapshot()


def lift(x):
    return x if isinstance(x, Sym) else Sym("const", x)


def liftdeep(x):
    if isinstance(x, (list, tuple)):
        return type(x)(liftdeep(i) for i in x)
    if callable(x) and not isinstance(x, Sym):
        return Sym("callable", x)
    return lift(x)


class FakeT:
    """stands in for a mygrad Tensor operand: exposes `.data` (a Sym) and the attributes ops read"""

    shape = (5,)
    ndim = 1
    size = 5
    constant = False
    dtype = np.dtype("float64")

    def __init__(self, name):
        self.data = Sym("var", name)

    def __gt__(self, o):
        return self.data > _d(o)

    def __lt__(self, o):
        return self.data < _d(o)

    def __ge__(self, o):
        return self.data >= _d(o)

    def __le__(self, o):
        return self.data <= _d(o)

    def __eq__(self, o):
        return self.data == _d(o)

    def __ne__(self, o):
        return self.data != _d(o)

    __hash__ = object.__hash__


def _d(o):
    return o.data if isinstance(o, FakeT) else o


@contextlib.contextmanager
def patched_numpy():
    """`np.asarray`/`np.array`/`np.asanyarray` do not dispatch on `__array_function__`; intercept them while tracing"""
    saved = {n: getattr(np, n) for n in ("asarray", "array", "asanyarray", "ascontiguousarray")}

    def mk(orig):
        def f(a, dtype=None, *args, **kw):
            if isinstance(a, FakeT):
                a = a.data
            if isinstance(a, Sym):
                if dtype is None:
                    return a
                return Sym("fn:asarray", a, kw={"dtype": Sym("const", np.dtype(dtype))})
            return orig(a, dtype, *args, **kw) if dtype is not None else orig(a, *args, **kw)

        return f

    try:
        for n, o in saved.items():
            setattr(np, n, mk(o))
        yield
    finally:
        for n, o in saved.items():
            setattr(np, n, o)


# ------------------------------------------------------------------------------------------------ raw IR interpreter


def ev(s, env):
    """evaluate the raw IR with the very NumPy calls that were recorded"""
    if isinstance(s, (list, tuple)):
        return type(s)(ev(i, env) for i in s)
    if not isinstance(s, Sym):
        return s
    if s.op == "var":
        return env[s.args[0]]
    if s.op == "const":
        return s.args[0]
    if s.op == "callable":
        f = s.args[0]

        def traced(v, *a, **k):  # the callable's own body is traced and interpreted, too
            with patched_numpy():
                body = f(Sym("var", "_pw"), *a, **k)
            return ev(body, {**env, "_pw": v})

        return traced
    a = [ev(i, env) for i in s.args]
    kw = {k: ev(v, env) for k, v in s.kw.items()}
    if s.op.startswith("uf:"):
        return getattr(np, s.op[3:])(*a, **kw)
    if s.op == "fn:where3":
        m, new, old = a
        out = np.array(old, copy=True)
        np.copyto(out, new, where=m)
        return out
    return getattr(np, s.op[3:])(*a, **kw)


# ------------------------------------------------------------------------------------------------ lowering to core IR
#
# core IR (JSON-able nested lists):
#   real: ["var", name] | ["num", value] | ["sym", name] | ["un", f, a] | ["bin", f, a, b] | ["pown", a, n]
#         | ["ite", c, a, b] | ["b2r", c]
#   bool: ["cmp", rel, a, b] | ["not", c] | ["and", c, d] | ["or", c, d] | ["bite", c, p, q] | ["nz", a] | ["bool", v]

CMP = {"less": "lt", "greater": "gt", "less_equal": "le", "greater_equal": "ge", "equal": "eq", "not_equal": "ne"}
UNARY = {"negative", "positive", "exp", "exp2", "expm1", "log", "log2", "log10", "log1p", "sin", "cos", "tan",
         "arcsin", "arccos", "arctan", "sinh", "cosh", "tanh", "arcsinh", "arccosh", "arctanh", "sqrt", "cbrt",
         "absolute", "reciprocal", "square", "sinc"}
BINARY = {"add", "subtract", "multiply", "divide", "power", "maximum", "minimum", "logaddexp", "logaddexp2", "arctan2"}

# float literals that stand for symbolic constants: (name, value computed the way the source computes it).
# Verified bitwise at run time (`check_whitelist`); anything else is printed as the decimal literal it is.
WHITELIST = [
    ("log2", lambda: float(np.log(2))),
    ("log10", lambda: float(np.log(10))),
    ("pi", lambda: float(np.pi)),
    ("halfpi", lambda: float(np.pi / 2)),
]


def check_whitelist():
    """the whitelist maps a float to a symbol only if it is bit-identical to NumPy's value of that symbol and to the
    correctly rounded value known to `math`"""
    ref = {"log2": math.log(2), "log10": math.log(10), "pi": math.pi, "halfpi": math.pi / 2}
    ok = {}
    for name, f in WHITELIST:
        v = f()
        if v.hex() == ref[name].hex():
            ok[v.hex()] = name
    return ok


_WL = None


def _wl():
    global _WL
    if _WL is None:
        _WL = check_whitelist()
    return _WL


def is_bool(c):
    return c[0] in ("cmp", "not", "and", "or", "bite", "nz", "bool")


def as_real(c):
    return ["b2r", c] if is_bool(c) else c


def as_bool(c):
    return c if is_bool(c) else ["nz", c]


def lower(s, bound=None):
    bound = bound or {}
    if isinstance(s, (list, tuple)):
        raise Untraceable("sequence where an array was expected")
    if not isinstance(s, Sym):
        s = lift(s)
    if s.op == "var":
        n = s.args[0]
        return bound.get(n, ["var", n])
    if s.op == "const":
        v = s.args[0]
        if isinstance(v, (bool, np.bool_)):
            return ["bool", bool(v)]
        if isinstance(v, (int, np.integer)):
            return ["num", int(v)]
        if isinstance(v, (float, np.floating)):
            v = float(v)
            if v != v:
                return ["sym", "nan"]
            if v in (math.inf, -math.inf):
                raise Untraceable("infinite literal")
            if v == int(v) and abs(v) < 2 ** 53:
                return ["num", int(v)]
            name = _wl().get(v.hex())
            return ["sym", name] if name else ["num", v]
        if isinstance(v, np.ndarray) and v.ndim == 0:
            return lower(Sym("const", v[()]), bound)
        raise Untraceable(f"constant of type {type(v).__name__}")
    if s.op == "callable":
        raise Untraceable("callable outside piecewise")
    if s.op.startswith("uf:"):
        name = s.op[3:]
        if s.kw:
            raise Untraceable(f"keywords on ufunc {name}")
        if name in CMP:
            a, b = (as_real(lower(x, bound)) for x in s.args)
            return ["cmp", CMP[name], a, b]
        if name in ("logical_not", "invert"):
            return ["not", as_bool(lower(s.args[0], bound))]
        if name in ("logical_and", "logical_or", "bitwise_and", "bitwise_or"):
            a, b = (lower(x, bound) for x in s.args)
            if not (is_bool(a) and is_bool(b)):
                a, b = as_bool(a), as_bool(b)
            return ["and" if name.endswith("and") else "or", a, b]
        if name == "power":
            a, b = (as_real(lower(x, bound)) for x in s.args)
            if b[0] == "num" and isinstance(b[1], int) and 0 <= b[1] <= 64:
                return ["pown", a, b[1]]
            return ["bin", "power", a, b]
        if name in UNARY and len(s.args) == 1:
            return ["un", name, as_real(lower(s.args[0], bound))]
        if name in BINARY and len(s.args) == 2:
            a, b = (as_real(lower(x, bound)) for x in s.args)
            return ["bin", name, a, b]
        raise Untraceable(f"ufunc np.{name} has no entry in the ufunc table")
    fn = s.op[3:]
    if fn == "where3":
        m, new, old = (lower(x, bound) for x in s.args)
        m = as_bool(m)
        if is_bool(new) and is_bool(old):
            return ["bite", m, new, old]
        return ["ite", m, as_real(new), as_real(old)]
    if fn == "where":
        if len(s.args) != 3 or s.kw:
            raise Untraceable("np.where with other than 3 positional arguments")
        c, a, b = (lower(x, bound) for x in s.args)
        return ["ite", as_bool(c), as_real(a), as_real(b)]
    if fn == "select":
        args = list(s.args)
        kw = dict(s.kw)
        conds, vals = args[0], args[1]
        default = args[2] if len(args) > 2 else kw.pop("default", 0)
        if kw or len(conds) != len(vals):
            raise Untraceable("np.select form")
        out = as_real(lower(default, bound))
        for c, v in reversed(list(zip(conds, vals))):  # the first true condition wins
            out = ["ite", as_bool(lower(c, bound)), as_real(lower(v, bound)), out]
        return out
    if fn == "piecewise":
        if s.kw or len(s.args) != 3:
            raise Untraceable("np.piecewise with extra arguments")
        x, conds, funcs = s.args
        conds, funcs = list(conds), list(funcs)
        if len(funcs) == len(conds) + 1:
            default = _pw_branch(funcs.pop(), x, bound)
        elif len(funcs) == len(conds):
            default = ["num", 0]
        else:
            raise Untraceable("np.piecewise: function list length")
        out = default
        for c, f in zip(conds, funcs):  # later assignments overwrite earlier ones
            out = ["ite", as_bool(lower(c, bound)), _pw_branch(f, x, bound), out]
        return out
    if fn in ("asarray", "array", "asanyarray"):
        a = lower(s.args[0], bound)
        dt = s.kw.get("dtype")
        if dt is not None:
            dt = np.dtype(dt.args[0])
            if dt.kind == "f":
                return as_real(a)
            if dt.kind == "b":
                return as_bool(a)
            raise Untraceable(f"cast to {dt}")
        return a
    if fn == "isclose":
        a, b = (as_real(lower(x, bound)) for x in s.args[:2])
        rtol = s.kw.get("rtol", s.args[2] if len(s.args) > 2 else 1e-05)
        atol = s.kw.get("atol", s.args[3] if len(s.args) > 3 else 1e-08)
        rtol, atol = (as_real(lower(v, bound)) for v in (rtol, atol))
        # documented: absolute(a - b) <= (atol + rtol * absolute(b))
        return ["cmp", "le", ["un", "absolute", ["bin", "subtract", a, b]],
                ["bin", "add", atol, ["bin", "multiply", rtol, ["un", "absolute", b]]]]
    if fn == "zeros_like":
        return ["num", 0]
    if fn == "ones_like":
        return ["num", 1]
    if fn == "sinc":
        return ["un", "sinc", as_real(lower(s.args[0], bound))]
    if fn == "copy":
        return lower(s.args[0], bound)
    raise Untraceable(f"np.{fn} is not an element-wise function known to the tracer")


def _pw_branch(f, x, bound):
    if isinstance(f, Sym) and f.op == "callable":
        with patched_numpy():
            r = f.args[0](x)
        return as_real(lower(r, bound))
    return as_real(lower(f, bound))


# ------------------------------------------------------------------------------------------------ core IR -> NumPy


_NP_UN = {k: getattr(np, k) for k in UNARY}
_NP_BIN = {k: getattr(np, k) for k in BINARY}
_NP_CMP = {"lt": np.less, "gt": np.greater, "le": np.less_equal, "ge": np.greater_equal, "eq": np.equal,
           "ne": np.not_equal}
_SYMV = {"log2": np.log(2), "log10": np.log(10), "pi": np.pi, "halfpi": np.pi / 2, "nan": np.nan}


def core_eval(c, env):
    """evaluate the core IR element-wise with NumPy (both branches of `ite` are computed, then selected)"""
    k = c[0]
    if k == "var":
        return env[c[1]]
    if k == "num":
        return c[1]
    if k == "sym":
        return _SYMV[c[1]]
    if k == "un":
        return _NP_UN[c[1]](core_eval(c[2], env))
    if k == "bin":
        return _NP_BIN[c[1]](core_eval(c[2], env), core_eval(c[3], env))
    if k == "pown":
        return np.power(core_eval(c[1], env), c[2])
    if k == "ite":
        return np.where(core_eval(c[1], env), core_eval(c[2], env), core_eval(c[3], env))
    if k == "b2r":
        return np.asarray(core_eval(c[1], env), dtype=float)
    if k == "cmp":
        return _NP_CMP[c[1]](core_eval(c[2], env), core_eval(c[3], env))
    if k == "not":
        return np.logical_not(core_eval(c[1], env))
    if k == "and":
        return np.logical_and(core_eval(c[1], env), core_eval(c[2], env))
    if k == "or":
        return np.logical_or(core_eval(c[1], env), core_eval(c[2], env))
    if k == "bite":
        return np.where(core_eval(c[1], env), core_eval(c[2], env), core_eval(c[3], env))
    if k == "nz":
        return np.not_equal(core_eval(c[1], env), 0)
    if k == "bool":
        return c[1]
    raise ValueError(k)


def has_nan(c):
    return isinstance(c, list) and ((c[0] == "sym" and c[1] == "nan") or any(has_nan(x) for x in c[1:]))


def free_vars(c, acc=None):
    acc = set() if acc is None else acc
    if isinstance(c, list):
        if c[0] == "var":
            acc.add(c[1])
        else:
            for x in c[1:]:
                free_vars(x, acc)
    return acc


def literals(c, acc=None):
    """non-integer float literals printed as decimals (reported in the evidence)"""
    acc = [] if acc is None else acc
    if isinstance(c, list):
        if c[0] == "num" and isinstance(c[1], float):
            acc.append(c[1])
        for x in c[1:]:
            literals(x, acc)
    return acc


# ------------------------------------------------------------------------------------------------ core IR -> Lean
#
# THE TRUSTED TABLE  NumPy ufunc ↦ real function (Mathlib / MG.NP).  Domains are NumPy's: outside them NumPy returns
# NaN/inf while the Mathlib function has a junk value; every theorem carries the domain as a hypothesis.

LEAN_UN = {
    "negative": "(-{0})",
    "positive": "{0}",
    "exp": "Real.exp {0}",
    "exp2": "((2:ℝ) ^ ({0} : ℝ))",
    "expm1": "(Real.exp {0} - 1)",
    "log": "Real.log {0}",
    "log2": "(Real.log {0} / Real.log 2)",
    "log10": "(Real.log {0} / Real.log 10)",
    "log1p": "Real.log (1 + {0})",
    "sin": "Real.sin {0}",
    "cos": "Real.cos {0}",
    "tan": "Real.tan {0}",
    "arcsin": "Real.arcsin {0}",
    "arccos": "Real.arccos {0}",
    "arctan": "Real.arctan {0}",
    "sinh": "Real.sinh {0}",
    "cosh": "Real.cosh {0}",
    "tanh": "Real.tanh {0}",
    "arcsinh": "Real.arsinh {0}",
    "arccosh": "Real.arcosh {0}",
    "arctanh": "Real.artanh {0}",
    "sqrt": "Real.sqrt {0}",
    "cbrt": "MG.NP.cbrt {0}",
    "absolute": "|{0}|",
    "reciprocal": "{0}⁻¹",
    "square": "{0} ^ (2:ℕ)",
    "sinc": "MG.NP.sinc {0}",
}
LEAN_BIN = {
    "add": "({0} + {1})",
    "subtract": "({0} - {1})",
    "multiply": "({0} * {1})",
    "divide": "({0} / {1})",
    "power": "({0} ^ ({1} : ℝ))",
    "maximum": "max {0} {1}",
    "minimum": "min {0} {1}",
    "logaddexp": "Real.log (Real.exp {0} + Real.exp {1})",
    "logaddexp2": "(Real.log ((2:ℝ) ^ ({0} : ℝ) + (2:ℝ) ^ ({1} : ℝ)) / Real.log 2)",
    "arctan2": "MG.NP.arctan2 {0} {1}",
}
LEAN_SYM = {"log2": "Real.log 2", "log10": "Real.log 10", "pi": "Real.pi", "halfpi": "(Real.pi / 2)"}
LEAN_CMP = {"lt": "<", "gt": ">", "le": "≤", "ge": "≥", "eq": "=", "ne": "≠"}


def _atom(s):
    """parenthesise unless obviously atomic"""
    if s.startswith("(") and s.endswith(")") and _balanced(s[1:-1]):
        return s
    if s.startswith("|") and s.endswith("|") and s.count("|") == 2:
        return s
    if all(ch.isalnum() or ch in "_." for ch in s):
        return s
    return "(" + s + ")"


def _balanced(s):
    d = 0
    for ch in s:
        d += ch == "("
        d -= ch == ")"
        if d < 0:
            return False
    return d == 0


def lean_num(v):
    if isinstance(v, int):
        return f"({v} : ℝ)" if v >= 0 else f"(-{-v} : ℝ)"
    r = repr(float(v))
    if r.startswith("-"):
        return f"(-{r[1:]} : ℝ)"
    return f"({r} : ℝ)"


def lean(c):
    k = c[0]
    if k == "var":
        return c[1]
    if k == "num":
        return lean_num(c[1])
    if k == "sym":
        if c[1] == "nan":
            raise Untraceable("NaN literal in a real-valued formula")
        return LEAN_SYM[c[1]]
    if k == "un":
        return _atom(LEAN_UN[c[1]].format(_atom(lean(c[2]))))
    if k == "bin":
        return _atom(LEAN_BIN[c[1]].format(_atom(lean(c[2])), _atom(lean(c[3]))))
    if k == "pown":
        return f"({_atom(lean(c[1]))} ^ ({c[2]}:ℕ))"
    if k == "ite":
        return f"(if {lean(c[1])} then {lean(c[2])} else {lean(c[3])})"
    if k == "b2r":
        return f"(if {lean(c[1])} then (1 : ℝ) else 0)"
    if k == "cmp":
        return f"{_atom(lean(c[2]))} {LEAN_CMP[c[1]]} {_atom(lean(c[3]))}"
    if k == "not":
        return f"¬ ({lean(c[1])})"
    if k == "and":
        return f"(({lean(c[1])}) ∧ ({lean(c[2])}))"
    if k == "or":
        return f"(({lean(c[1])}) ∨ ({lean(c[2])}))"
    if k == "bite":
        return f"((({lean(c[1])}) ∧ ({lean(c[2])})) ∨ ((¬ ({lean(c[1])})) ∧ ({lean(c[3])})))"
    if k == "nz":
        return f"{_atom(lean(c[1]))} ≠ 0"
    if k == "bool":
        return "True" if c[1] else "False"
    raise ValueError(k)


def lean_opt(c):
    """Option-ℝ reading of a real-sorted core term in which NaN literals occur: NaN ↦ none, arithmetic is strict."""
    k = c[0]
    if not has_nan(c):
        return f"(some {_atom(lean(c))})"
    if k == "sym":
        return "(none : Option ℝ)"
    if k == "un":
        body = LEAN_UN[c[1]].format("a")
        return f"(Option.map (fun a : ℝ => {body}) {lean_opt(c[2])})"
    if k == "bin":
        body = LEAN_BIN[c[1]].format("a", "b")
        return f"(MG.NP.o2 (fun a b : ℝ => {body}) {lean_opt(c[2])} {lean_opt(c[3])})"
    if k == "pown":
        return f"(Option.map (fun a : ℝ => a ^ ({c[2]}:ℕ)) {lean_opt(c[1])})"
    if k == "ite":
        if has_nan(c[1]):
            raise Untraceable("NaN inside a condition")
        return f"(if {lean(c[1])} then {lean_opt(c[2])} else {lean_opt(c[3])})"
    raise Untraceable(f"NaN under {k}")


# ------------------------------------------------------------------------------------------------ definedness
#
# Lean's reals are total (x / 0 = 0, log 0 = 0, √(-1) = 0), NumPy's are not (inf / NaN).  `lean_dom(c)` is the
# proposition "evaluating `c` the way NumPy does yields a genuine finite real from the *selected* branches": every
# divisor is non-zero, every log argument positive, every sqrt argument non-negative, ... (unselected branches of
# where/select/piecewise are computed and discarded by NumPy, so they carry no obligation).  Convention theorems assert it
# next to the value, so that "0 rather than NaN" cannot be proved through a junk value.

_SIDE_UN = {
    "log": "0 < {0}", "log2": "0 < {0}", "log10": "0 < {0}", "log1p": "0 < 1 + {0}", "sqrt": "0 ≤ {0}",
    "reciprocal": "{0} ≠ 0", "arcsin": "(-1 ≤ {0} ∧ {0} ≤ 1)", "arccos": "(-1 ≤ {0} ∧ {0} ≤ 1)", "arccosh": "1 ≤ {0}",
    "arctanh": "(-1 < {0} ∧ {0} < 1)", "tan": "Real.cos {0} ≠ 0",
}
_SIDE_BIN = {
    "divide": "{1} ≠ 0",
    "power": "(0 < {0} ∨ ({0} = 0 ∧ 0 ≤ {1}) ∨ ∃ n : ℤ, {1} = (n : ℝ))",
}


def _conj(parts):
    parts = [p for p in parts if p != "True"]
    if not parts:
        return "True"
    if len(parts) == 1:
        return parts[0]
    return "(" + " ∧ ".join(parts) + ")"


def lean_dom(c):
    k = c[0]
    if k in ("var", "num", "bool"):
        return "True"
    if k == "sym":
        return "False" if c[1] == "nan" else "True"
    if k == "un":
        side = _SIDE_UN.get(c[1])
        return _conj([lean_dom(c[2])] + ([side.format(_atom(lean(c[2])))] if side else []))
    if k == "bin":
        side = _SIDE_BIN.get(c[1])
        return _conj([lean_dom(c[2]), lean_dom(c[3])]
                     + ([side.format(_atom(lean(c[2])), _atom(lean(c[3])))] if side else []))
    if k == "pown":
        return lean_dom(c[1])
    if k in ("ite", "bite"):
        a, b = lean_dom(c[2]), lean_dom(c[3])
        br = "True" if a == "True" and b == "True" else f"(if {lean(c[1])} then {a} else {b})"
        return _conj([lean_dom(c[1]), br])
    if k in ("b2r", "not", "nz"):
        return lean_dom(c[1])
    if k == "cmp":
        return _conj([lean_dom(c[2]), lean_dom(c[3])])
    if k in ("and", "or"):
        return _conj([lean_dom(c[1]), lean_dom(c[2])])
    raise ValueError(k)
