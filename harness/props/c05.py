"""C05 — gradients flow correctly through in-place updates and views."""
from __future__ import annotations

import numpy as np

import mygrad as mg

from .. import engcheck, progs
from ..core import Ctx, Outcome, Violation, pmap, stable_hash

ID = "C05"
LEVEL = "proof"
EXTRA_TARGETS = ["MG.DriverEng"]
THEOREMS = {
    "MG.Proofs.C05": [
        "MG.C05.setitem_vjp_adjoint",
        "MG.C05.unview_vjp_adjoint",
        "MG.C05.applyMask_vjp_adjoint",
        "MG.C05.model_vjp_setitem0",
        "MG.C05.model_vjp_setitem1",
        "MG.C05.model_setitem_fwd_eq",
        "MG.C05.model_unview_vjp_eq",
        "MG.C05.model_mask_eq",
        "MG.C05.placeholder_keeps_value",
    ],
    "MG.Proofs.C01": [
        "MG.C01.backward_sound",
    ],
    "MG.Proofs.Lemmas.InPlaceBase": [
        "MG.C04V.inplace_on_base_seen_through_view",
    ],
    "MG.Proofs.Lemmas.InPlaceWhere": [
        "MG.C04W.inplace_on_owner_where_refines_numpy",
    ],
    "MG.Proofs.Lemmas.InPlaceView": [
        "MG.C04V.inplace_through_view_refines_numpy",
    ],
    "MG.Proofs.Lemmas.InPlaceRefine": [
        "MG.C04R.inplace_on_owner_refines_numpy_general",
        "MG.C04R.inplace_on_owner_refines_numpy",
        "MG.C04R.inplace_on_owner_is_ssa_renaming",
        "MG.C04R.outRes_ops",
    ],
}

GEN = dict(inplace=True, p_inplace=0.35, p_view=0.25, p_fail=0.0, p_const=0.12, n_stmts=9)
INPLACE = ("set", "aug", "outb", "outu")


def oracle(prog, idx):
    return engcheck.dual_oracle(prog)


def nontrivial(prog):
    """an in-place update whose target is read by a statement before it and by one after it"""
    for i, st in enumerate(prog):
        if st[0] in INPLACE:
            t = st[1]
            refs = lambda s: any(isinstance(x, list) and len(x) == 2 and x[0] == "t" and x[1] == t for x in s[1:])
            if any(refs(s) for s in prog[:i]) and any(refs(s) or (s[0] == "back" and s[1] == t) for s in prog[i + 1:]):
                return True
    return False


def _fails_pred(cls):
    def pred(p):
        if p[-1][0] != "back":
            return False
        return any(c == cls for c, _ in oracle(p, 0))
    return pred


# ------------------------------------------------------------------ H_vars_only: ops must read inputs only via `variables`


def _r(rng, *shape, lo=-2.0, hi=2.0):
    return rng.uniform(lo, hi, size=shape)


def op_cases():
    """(name, builder(rng) -> (list of input tensors, output tensor))"""
    from mygrad.nnet import batchnorm
    from mygrad.nnet.layers import conv_nd, max_pool
    from mygrad.nnet.losses import softmax_crossentropy
    from mygrad.nnet.activations import softmax

    def mk(rng, *shape, **kw):
        return mg.tensor(_r(rng, *shape, **kw))

    cases = []

    def case(name):
        def deco(f):
            cases.append((name, f))
            return f
        return deco

    @case("multiply")
    def _(rng):
        a, b = mk(rng, 2, 3), mk(rng, 2, 3)
        return [a, b], a * b

    @case("divide")
    def _(rng):
        a, b = mk(rng, 2, 3), mk(rng, 2, 3, lo=1.0, hi=2.0)
        return [a, b], a / b

    @case("power")
    def _(rng):
        a, b = mk(rng, 2, 3, lo=0.5, hi=2.0), mk(rng, 2, 3)
        return [a, b], a ** b

    @case("matmul")
    def _(rng):
        a, b = mk(rng, 2, 3), mk(rng, 3, 2)
        return [a, b], a @ b

    @case("einsum")
    def _(rng):
        a, b = mk(rng, 2, 3), mk(rng, 3, 2)
        return [a, b], mg.einsum("ij,jk->ik", a, b)

    @case("maximum")
    def _(rng):
        a, b = mk(rng, 2, 3), mk(rng, 2, 3)
        return [a, b], mg.maximum(a, b)

    @case("where")
    def _(rng):
        a, b = mk(rng, 2, 3), mk(rng, 2, 3)
        return [a, b], mg.where(_r(rng, 2, 3) > 0, a, b)

    @case("arctan2")
    def _(rng):
        a, b = mk(rng, 2, 3), mk(rng, 2, 3, lo=0.5, hi=2.0)
        return [a, b], mg.arctan2(a, b)

    @case("logaddexp")
    def _(rng):
        a, b = mk(rng, 2, 3), mk(rng, 2, 3)
        return [a, b], mg.logaddexp(a, b)

    @case("multiply_sequence")
    def _(rng):
        a, b, c = mk(rng, 2, 3), mk(rng, 2, 3), mk(rng, 2, 3)
        return [a, b, c], mg.multiply_sequence(a, b, c)

    @case("batchnorm")
    def _(rng):
        x, g, b = mk(rng, 4, 3), mk(rng, 3), mk(rng, 3)
        return [x, g, b], batchnorm(x, gamma=g, beta=b, eps=1e-3)

    @case("conv_nd")
    def _(rng):
        x, w = mk(rng, 1, 2, 5), mk(rng, 2, 2, 3)
        return [x, w], conv_nd(x, w, stride=1)

    @case("softmax_crossentropy")
    def _(rng):
        x = mk(rng, 3, 4)
        return [x], softmax_crossentropy(x, np.array([0, 1, 3]))

    @case("softmax")
    def _(rng):
        x = mk(rng, 3, 4)
        return [x], softmax(x)

    @case("prod")
    def _(rng):
        x = mk(rng, 3, 2)
        return [x], mg.prod(x, axis=0)

    @case("var")
    def _(rng):
        x = mk(rng, 3, 2)
        return [x], mg.var(x, axis=0)

    @case("sqrt")
    def _(rng):
        x = mk(rng, 3, 2, lo=0.5, hi=2.0)
        return [x], mg.sqrt(x)

    @case("tanh")
    def _(rng):
        x = mk(rng, 3, 2)
        return [x], mg.tanh(x)

    @case("stack")
    def _(rng):
        a, b = mk(rng, 2, 3), mk(rng, 2, 3)
        return [a, b], mg.stack([a, b])

    @case("getitem_adv")
    def _(rng):
        a = mk(rng, 4, 3)
        return [a], a[np.array([0, 2, 2])]

    # where-masked ufuncs (written into a fresh ndarray so that the masked-out entries are defined): Add / Subtract /
    # Positive hand the incoming gradient through unchanged, Multiply computes a fresh one
    def masked(name, f, nin):
        @case(name)
        def _(rng):
            a, b = mk(rng, 2, 3), mk(rng, 2, 3)
            m = np.array([[True, False, True], [False, True, True]])
            args = (a, b) if nin == 2 else (a,)
            return list(args), f(*args, where=m, out=np.zeros((2, 3)))

    masked("add_where", mg.add, 2)
    masked("subtract_where", mg.subtract, 2)
    masked("positive_where", mg.positive, 1)
    masked("multiply_where", mg.multiply, 2)

    @case("gru")
    def _(rng):
        from mygrad.nnet.layers import gru

        T_, N_, C_, D_ = 3, 2, 2, 3
        X = mk(rng, T_, N_, C_)
        ps = [mk(rng, C_, D_), mk(rng, D_, D_), mk(rng, D_), mk(rng, C_, D_), mk(rng, D_, D_), mk(rng, D_),
              mk(rng, C_, D_), mk(rng, D_, D_), mk(rng, D_)]
        return [X] + ps, gru(X, *ps)

    return cases


MUTATIONS = [("imul", lambda t: t.__imul__(3.0)), ("setitem0", lambda t: t.__setitem__(Ellipsis, 0.5)),
             ("iadd", lambda t: t.__iadd__(1.5))]


def vars_only_case(args):
    """forward; mutate input i in place; backward — the gradients of the *other* inputs (and, for a multiplicative
    update, the functional expectation for the mutated one) must equal those of the run without the mutation."""
    seed, ci, which, mi = args
    cases = op_cases()
    name, build = cases[ci % len(cases)]
    fails = []
    rngA, rngB = np.random.default_rng([seed, ci]), np.random.default_rng([seed, ci])
    ins_ref, out_ref = build(rngA)
    w = np.random.default_rng([seed, ci, 7]).uniform(-1, 1, size=out_ref.shape)
    (out_ref * w).sum().backward()
    ref = [None if t.grad is None else t.grad.copy() for t in ins_ref]
    ins, out = build(rngB)
    i = which % len(ins)
    mname, mut = MUTATIONS[mi % len(MUTATIONS)]
    before = out.data.copy()
    try:
        mut(ins[i])
    except Exception as e:
        return {"name": name, "mut": mname, "fails": [f"in-place update of an input raised {type(e).__name__}"], "args": args}
    if not np.array_equal(out.data, before, equal_nan=True):
        fails.append("value computed before the mutation changed")
    try:
        (out * w).sum().backward()
    except Exception as e:  # noqa: BLE001
        fails.append(f"backward() after input {i} was mutated in place raised {type(e).__name__}: {str(e)[:80]}")
        return {"name": name, "mut": mname, "fails": fails, "args": args, "i": i}
    for j, t in enumerate(ins):
        if j == i:
            continue
        g = t.grad
        if (g is None) != (ref[j] is None) or (g is not None and not np.allclose(g, ref[j], rtol=1e-12, atol=1e-12)):
            fails.append(f"gradient of input {j} differs after input {i} was mutated following the forward pass")
    return {"name": name, "mut": mname, "fails": fails, "args": args, "i": i}


def discover_extra_refs():
    """object-graph scan: op attributes (other than `variables`) that hold input *Tensor* objects"""
    found = {}
    rng = np.random.default_rng(0)
    for name, build in op_cases():
        ins, out = build(rng)
        op = out.creator
        if op is None:
            continue
        ids = {id(t) for t in ins}
        for k, v in vars(op).items():
            if k == "variables":
                continue
            vs = v if isinstance(v, (list, tuple)) else [v]
            if any(id(x) in ids for x in vs if isinstance(x, mg.Tensor)):
                found.setdefault(type(op).__name__, []).append(k)
    return found


# ------------------------------------------------------------------ the index of x[index] / x[index] = v is an input too


def index_mutation_cases(only=None):
    """forward through `x[index]` / `z[index] = v`; then the *index object* is changed in place (an integer or boolean
    tensor through MyGrad's own in-place update, an ndarray or a list by the caller); backward must still differentiate
    the recorded selection.  -> [(name, message)]"""
    out = []

    def mk_index(kind):
        if kind == "int-tensor":
            i = mg.tensor([0, 1])
            return i, lambda: i.__setitem__(Ellipsis, np.array([2, 3]))
        if kind == "int-array":
            i = np.array([0, 1])
            return i, lambda: i.__setitem__(Ellipsis, [2, 3])
        if kind == "list":
            i = [0, 1]
            return i, lambda: i.__setitem__(slice(None), [2, 3])
        if kind == "bool-array":
            i = np.array([True, True, False, False])
            return i, lambda: i.__setitem__(Ellipsis, [False, False, True, True])
        if kind == "bool-tensor":
            i = mg.tensor([True, True, False, False])
            return i, lambda: i.__setitem__(Ellipsis, np.array([False, False, True, True]))
        if kind == "tuple-array-slice":
            a = np.array([0, 1])
            return (a,), lambda: a.__setitem__(Ellipsis, [2, 3])
        if kind in ("slice-tensor-bound", "slice-0d-array-bound", "tuple-slice-tensor-bound"):
            # a slice whose bound is an integer-valued 0-d tensor / array (NumPy uses its __index__)
            i = mg.tensor(0) if "tensor" in kind else np.array(0)
            sl = slice(i, i + 2) if "tuple" not in kind else (slice(i, i + 2),)
            return sl, (lambda: i.__iadd__(2)) if "tensor" in kind else (lambda: i.__setitem__(Ellipsis, 2))
        if kind == "0d-tensor-in-list":
            i = mg.tensor(0)
            return [i, 1], lambda: i.__iadd__(2)
        raise KeyError(kind)

    for op in ("getitem", "setitem"):
        for kind in ("int-tensor", "int-array", "list", "bool-array", "bool-tensor", "tuple-array-slice",
                     "slice-tensor-bound", "slice-0d-array-bound", "tuple-slice-tensor-bound", "0d-tensor-in-list"):
            name = f"{op}:{kind}"
            if only is not None and name != only:
                continue
            grads = []
            for mutate in (False, True):
                x = mg.tensor([1.0, 2.0, 3.0, 4.0])
                w = mg.tensor([10.0, 20.0])
                idx, change = mk_index(kind)
                try:
                    if op == "getitem":
                        L = (x[idx] * w).sum()
                    else:
                        z = +x
                        z[idx] = w
                        L = (z * mg.tensor([1.0, 2.0, 3.0, 4.0])).sum()
                    if mutate:
                        try:
                            change()
                        except Exception:  # noqa: BLE001  (a refused write is fine: the index then cannot change)
                            pass
                    L.backward()
                except Exception as e:  # noqa: BLE001
                    out.append((name, f"raised {type(e).__name__}: {str(e)[:80]}"))
                    grads = None
                    break
                grads.append((np.array(x.grad), None if w.grad is None else np.array(w.grad)))
            if grads is None:
                continue
            (gx0, gw0), (gx1, gw1) = grads
            if not np.array_equal(gx0, gx1) or (gw0 is None) != (gw1 is None) or (gw0 is not None and not np.array_equal(gw0, gw1)):
                out.append((name, f"changing the index object after the forward pass changed the gradients: x.grad {gx0.tolist()} -> "
                            f"{gx1.tolist()}, value.grad {None if gw0 is None else gw0.tolist()} -> {None if gw1 is None else gw1.tolist()}"))
    return out


N_INDEX_CASES = 20


# operations whose *argument objects* are mutable (a list or an array giving axes, shifts, repeats, a shape, a condition):
# the caller changes the object between the forward pass and backward(); backward must differentiate what was evaluated
ARG_MUT_CASES = [
    ("moveaxis", (2, 3, 4), lambda: [[0], [2]], lambda x, m: mg.moveaxis(x, m[0], m[1]), lambda m: m[1].__setitem__(0, 1)),
    ("roll-shift", (2, 3, 4), lambda: [[1, 2], [0, 2]], lambda x, m: mg.roll(x, m[0], m[1]), lambda m: m[0].__setitem__(0, 0)),
    ("roll-axis", (2, 3, 4), lambda: [[1, 2], [0, 2]], lambda x, m: mg.roll(x, m[0], m[1]), lambda m: m[1].__setitem__(0, 1)),
    ("transpose", (2, 3, 4), lambda: [[2, 0, 1]], lambda x, m: mg.transpose(x, m[0]), lambda m: m[0].__setitem__(slice(None), [0, 1, 2])),
    ("reshape", (2, 3, 4), lambda: [[6, 4]], lambda x, m: mg.reshape(x, m[0]), lambda m: m[0].__setitem__(slice(None), [4, 6])),
    ("repeat-list", (2, 3, 4), lambda: [[1, 2]], lambda x, m: mg.repeat(x, m[0], axis=0), lambda m: m[0].__setitem__(0, 2)),
    ("repeat-array", (2, 3, 4), lambda: [np.array([1, 2])], lambda x, m: mg.repeat(x, m[0], axis=0), lambda m: m[0].__setitem__(0, 2)),
    ("broadcast_to", (2, 3, 4), lambda: [[2, 2, 3, 4]], lambda x, m: mg.broadcast_to(x, m[0]), lambda m: m[0].__setitem__(0, 3)),
    ("einsum-sublists", (2, 3, 4), lambda: [[0, 1, 2], [2, 0]], lambda x, m: mg.einsum(x, m[0], m[1]), lambda m: m[1].__setitem__(slice(None), [0, 2])),
    ("where-condition-array", (2, 3, 4), lambda: [np.arange(24).reshape(2, 3, 4) % 2 == 0], lambda x, m: mg.where(m[0], x, 0.0),
     lambda m: m[0].__setitem__(Ellipsis, True)),
    ("where-condition-list", (4,), lambda: [[True, False, True, False]], lambda x, m: mg.where(m[0], x, 0.0),
     lambda m: m[0].__setitem__(slice(None), [False] * 4)),
]


def argument_mutation_cases(only=None):
    """-> [(name, message)]"""
    out = []
    for name, shape, mk, f, mutate in ARG_MUT_CASES:
        if only is not None and name != only:
            continue
        gs = []
        for mut in (False, True):
            x = mg.tensor(np.arange(float(np.prod(shape))).reshape(shape) + 1)
            m = mk()
            try:
                y = f(x, m)
                L = (y * np.arange(float(y.size)).reshape(y.shape)).sum()
            except Exception as e:  # noqa: BLE001
                out.append((name, f"the forward pass raised {type(e).__name__}"))
                gs = None
                break
            if mut:
                try:
                    mutate(m)
                except Exception:  # noqa: BLE001  (a refused write is fine: the object then cannot change)
                    pass
            try:
                L.backward()
                gs.append(np.array(x.grad))
            except Exception as e:  # noqa: BLE001
                gs.append(f"backward raised {type(e).__name__}: {str(e)[:80]}")
        if gs is None:
            continue
        if isinstance(gs[0], str) or isinstance(gs[1], str) or not np.array_equal(gs[0], gs[1]):
            out.append((name, "changing the argument object after the forward pass changed what backward() computed: "
                        f"{gs[0] if isinstance(gs[0], str) else gs[0].tolist()} -> {gs[1] if isinstance(gs[1], str) else gs[1].tolist()}"))
    return out


# ------------------------------------------------------------------ run


def run(ctx: Ctx) -> Outcome:
    n = ctx.n(2000, 10000)
    out, results = engcheck.run_programs(ctx, n, dict(GEN, n_stmts=ctx.n(9, 16)), "oracle", nontrivial)
    out.rule = ("random programs interleaving reads, views and in-place writes (item assignment with basic/int-array incl. "
                "repeated/boolean keys and broadcast values, augmented assignment, ufunc out= with optional where=) on bases, "
                "views and views of views, one final backward; non-trivial = an in-place update whose target is read before and "
                "after it; distinct by program hash.  Plus forward/mutate-input/backward cases for 25 op / layer classes (incl. the GRU, which back-propagates by itself), and 12 cases in which "
                "the index object of x[index] / x[index] = v (integer/boolean tensor, ndarray, list) is changed after the forward pass.")
    seen = engcheck.report(out, results, "C05", oracle)
    # the same with memory guarding switched off (`mem_guard_off`)
    outg, resultsg = engcheck.run_programs(ctx, ctx.n(500, 3000), dict(GEN, n_stmts=ctx.n(9, 16), _guard_off=True),
                                           "oracle", nontrivial, label="guard-off:")
    seen |= engcheck.report(outg, resultsg, "C05", oracle)
    out.merge(outg)
    # H_vars_only
    ncases = len(op_cases())
    items = [(ctx.seed, ci, w, mi) for ci in range(ncases) for w in range(3) for mi in range(ctx.n(2, 3))]
    res = pmap(vars_only_case, items)
    ophist = {}
    for r in res:
        out.evaluations += 1
        ophist[r["name"]] = ophist.get(r["name"], 0) + 1
        out.nontrivial.add(stable_hash([r["name"], r["mut"], r.get("i")]))
        for f in r["fails"]:
            sig = f"C05|op-reads-input-outside-variables|{r['name']}"
            if sig not in seen:
                seen.add(sig)
                out.violations.append(Violation(sig, f"{r['name']}: {f} ({r['mut']})", {"kind": "vars_only", "args": list(r["args"])}))
    out.stats["vars_only_ops"] = ophist
    for name, msg in index_mutation_cases():
        out.violations.append(Violation(f"C05|index-changed-after-forward|{name}", f"{name}: {msg}", {"kind": "index", "name": name}))
    for name, msg in argument_mutation_cases():
        out.violations.append(Violation(f"C05|argument-object-changed-after-forward|{name}", f"{name}: {msg}", {"kind": "argmut", "name": name}))
    out.evaluations += len(ARG_MUT_CASES)
    for k in range(len(ARG_MUT_CASES)):
        out.nontrivial.add(stable_hash(["argmut-case", k]))
    out.evaluations += N_INDEX_CASES
    for k in range(N_INDEX_CASES):
        out.nontrivial.add(stable_hash(["index-case", k]))
    out.extra["ops_holding_inputs_outside_variables"] = discover_extra_refs()
    out.assumptions = ["exact-integer fragment for the program part; op-level mutation cases use float64 with 1e-12 tolerance",
                       "H_vars_only (backward reads inputs only through `variables`) is monitored per op class, not proved"]
    return out


def replay(data) -> bool:
    r = data["replay"]
    if r.get("kind") == "argmut":
        res = argument_mutation_cases(only=r["name"])
        print(res)
        return bool(res)
    if r.get("kind") == "index":
        res = index_mutation_cases(only=r["name"])
        print(res)
        return bool(res)
    if r.get("kind") == "vars_only":
        res = vars_only_case(tuple(r["args"]))
        print(res)
        return bool(res["fails"])
    p = r["program"]
    for st in p:
        print(progs.to_line(st))
    f = oracle(p, 0)
    print("oracle:", f)
    return bool(f)


MANIFEST = {
    "category": "proof",
    "design_ref": "DESIGN.md §5 C05",
    "technique": "Lean 4 adjointness proofs for the ops the in-place machinery inserts (UnView, ApplyMask, SetItem) + C01's "
                 "engine theorem over the placeholder graph; executable model of _in_place_op/DuplicatingGraph run against MyGrad; "
                 "exact dual-number oracle of the equivalent functional program; per-op-class mutation monitor for H_vars_only",
    "text": "The in-place machinery is modelled executably and compared with MyGrad after every statement of "
            "random mutation histories; C01's backward_sound applies to the resulting placeholder graph "
            "unchanged. Proved in Lean for all index lists, masks and values: the VJPs the engine model uses for "
            "SetItem (model_vjp_setitem0/1: zero the written positions; mask to the last write of every "
            "position), UnView and ApplyMask ARE the adjoints of the functional updates they stand for "
            "(setitem_vjp_adjoint incl. repeated indices, unview_vjp_adjoint, applyMask_vjp_adjoint, built on "
            "C02's setitem_vjp / where_mask_vjp), and a placeholder keeps pointing at the pre-mutation array "
            "without any buffer being written (placeholder_keeps_value). For an update on a tensor that owns its memory "
            "and has no live views the whole _in_place_op of the model is evaluated in closed form "
            "(inplace_on_owner_refines_numpy: the result heap is finalH) and that heap IS the single-assignment form of "
            "the statement (inplace_on_owner_is_ssa_renaming): x is the output of one new op of the given kind whose "
            "inputs are the operands with x replaced by a fresh placeholder p, every earlier consumer of x now "
            "consumes p, no other op changed, and p reads what x read before - so C01's backward_sound applies to the "
            "functional program. The direct oracle runs the same "
            "statements through plain NumPy on Fraction dual numbers (re-seeding the mutated family) and compares "
            "every owner's gradient exactly; a forward/mutate-input/backward monitor over 20 op classes checks "
            "that backward reads inputs only through Operation.variables.",
    "note": "Trusted: Lean kernel, standard axioms; correspondence harness. The graph-isomorphism between the placeholder graph and "
            "the SSA functional program is proved for updates on a tensor without live views (inplace_on_owner_is_ssa_renaming) "
            "and validated by the correspondence + exact oracle on every run for view forests (named gap inplace_graph_iso); H_vars_only is monitored per op class.",
}

MANIFEST_ADDENDUM = 'Oracle additions: the GRU and four where-masked ufuncs among the 25 op/layer classes of the forward/mutate-input/backward monitor; 12 cases in which the index object of x[index] / x[index] = v is changed after the forward pass. Round 5: index arrays given as MyGrad tensors / Python lists in item assignment (program IR); slices with tensor/array bounds among the index objects changed after the forward pass; 11 operations whose list/array argument is changed after the forward pass.'
