"""C10 — constant semantics: constants never receive or transmit gradients."""
from __future__ import annotations

import copy

import numpy as np

import mygrad as mg

from .. import engcheck, progs
from ..core import Ctx, Outcome, Violation, stable_hash

ID = "C10"
LEVEL = "proof"
EXTRA_TARGETS = ["MG.DriverEng"]
THEOREMS = {
    "MG.Proofs.C10": [
        "MG.C10.op_constant_rule",
        "MG.C10.opStep_result_flag",
        "MG.C10.wrapped_literals_are_constant",
        "MG.C10.constants_never_get_grad",
        "MG.C10.grads_only_on_reached_tensors",
        "MG.C10.backward_on_constant_only_clears",
    ],
    "MG.Proofs.Lemmas.InPlaceFlag": [
        "MG.C10F.inplace_ignores_explicit_constant",
        "MG.C10F.opStepOut_const",
    ],
    "MG.Proofs.Lemmas.InPlaceRefine": [
        "MG.C04R.inplace_on_owner_refines_numpy_general",
    ],
    "MG.Proofs.Lemmas.InPlaceView": [
        "MG.C04V.inplace_through_view_refines_numpy",
    ],
}

GEN = dict(inplace=True, p_inplace=0.2, p_view=0.2, p_fail=0.0, p_const=0.45, n_stmts=9)
INPLACE = ("set", "aug", "outb", "outu")


def arrays_for_constants(prog):
    """twin program: every constant *leaf* that is only ever used as a direct operand is replaced by the ndarray it
    wraps (a literal operand)"""
    const_leaves = {st[1]: st for st in prog if st[0] == "leaf" and st[4]}
    bad = set()
    for st in prog:
        k = st[0]
        if k in INPLACE + ("back", "clear", "null", "del") and st[1] in const_leaves:
            bad.add(st[1])
        if k in ("view", "take", "sum", "un"):
            for x in st[1:]:
                if isinstance(x, list) and len(x) == 2 and x[0] == "t" and x[1] in const_leaves:
                    bad.add(x[1])
    repl = {n: ["l", st[2], st[3]] for n, st in const_leaves.items() if n not in bad}
    q = []
    for st in prog:
        if st[0] == "leaf" and st[1] in repl:
            continue
        st2 = copy.deepcopy(st)
        for i, x in enumerate(st2):
            if i >= 1 and isinstance(x, list) and len(x) == 2 and x[0] == "t" and x[1] in repl:
                st2[i] = copy.deepcopy(repl[x[1]])
        q.append(st2)
    return q, set(repl)


def oracle(prog, idx):
    if not prog or prog[-1][0] != "back":
        return []
    fails = []
    ex = progs.RealExec()
    du = progs.DualExec()
    for st in prog[:-1]:
        flags_before = {n: t.constant for n, t in ex.v.items()}
        r = ex.step(st)
        if r != "ok":
            continue
        du.step(st)
        # the rule: result constant iff all inputs constant unless constant= is passed; in-place target keeps its flag
        for n, t in ex.v.items():
            if du.const.get(n) is not None and t.constant != du.const[n]:
                if st[0] in INPLACE and n != st[1] and ex.v[st[1]].base is t and du.const[n] and not du.const[st[1]]:
                    # family: in-place update through a view that was *forced* non-constant on a constant base
                    w_ = (st[5] if st[0] == "outb" else st[4]) if st[0] in ("outb", "outu") else None
                    how = st[0] + ("+where" if w_ is not None else "")
                    fails.append((f"base-flag-flips-under-forced-nonconstant-view:{how}!", f"`{progs.to_line(st)}` turned the constant base t{n} non-constant"))
                    return fails
                fails.append(("constant-rule", f"after `{progs.to_line(st)}` t{n}.constant = {t.constant}, the rule gives {du.const[n]}"))
                return fails
            if st[0] in INPLACE and n in flags_before and flags_before[n] != t.constant:
                fails.append(("inplace-flag", f"`{progs.to_line(st)}` changed t{n}.constant from {flags_before[n]} to {t.constant}"))
                return fails
    ex.step(prog[-1])
    for n, t in ex.v.items():
        if t.constant and t.grad is not None:
            fails.append(("constant-has-grad", f"constant tensor t{n} has .grad = {np.asarray(t.grad).tolist()} after backward"))
            return fails
    # exact derivative (constants transmit nothing)
    fails += engcheck.dual_oracle(prog, check_flags=True)
    # twin with constants replaced by plain arrays
    q, replaced = arrays_for_constants(prog)
    if replaced:
        ex2, _ = engcheck.run_all(q)
        g1, g2 = engcheck.grads_of(ex), engcheck.grads_of(ex2)
        d = engcheck.same_grads(g1, g2, names=[n for n in g2 if not ex.v[n].constant])
        if d:
            fails.append(("array-twin", f"gradients change when constant tensors {sorted(replaced)} are replaced by ndarrays: {d}"))
    return fails


def gate_cases():
    """dtype gate and default, with tracking on"""
    out = []
    for dt in [np.int8, np.int16, np.int32, np.int64, np.uint8, np.uint16, np.uint32, np.uint64, np.bool_]:
        for shape in [(), (2,), (0,), (2, 2)]:
            a = np.ones(shape, dtype=dt)
            t = mg.tensor(a)
            if not t.constant:
                out.append(("int-default", f"tensor of dtype {np.dtype(dt)} is not constant by default"))
            for mk in (lambda: mg.tensor(a, constant=False), lambda: mg.Tensor(a, constant=False), lambda: mg.astensor(a, constant=False)):
                try:
                    r = mk()
                    out.append(("int-nonconstant-accepted", f"constant=False accepted for dtype {np.dtype(dt)} (result constant={r.constant})"))
                except (ValueError, TypeError):
                    pass
    for dt in [np.float16, np.float32, np.float64]:
        t = mg.tensor(np.ones((2,), dtype=dt))
        if t.constant:
            out.append(("float-default", f"float tensor of dtype {np.dtype(dt)} is constant by default"))
        if not mg.tensor(np.ones((2,), dtype=dt), constant=True).constant:
            out.append(("float-flag", "constant=True ignored"))
        # integer result of an op on float non-constant input (e.g. comparison/argmax return arrays, not tensors)
    # ops: integer-valued results are constant whatever is asked
    x = mg.tensor([1.0, 2.0])
    i = mg.tensor([1, 2])
    r = i + i
    if not r.constant:
        out.append(("int-op-result", "int tensor + int tensor is not constant"))
    try:
        r = mg.add(i, i, constant=False)
        out.append(("int-op-nonconstant-accepted", f"mg.add(int, int, constant=False) accepted (constant={r.constant})"))
    except (ValueError, TypeError):
        pass
    r = mg.add(x, x, constant=True)
    if not r.constant:
        out.append(("force-true", "constant=True on an op with non-constant inputs ignored"))
    r = mg.add(mg.tensor([1.0], constant=True), 2.0, constant=False)
    if r.constant:
        out.append(("force-false", "constant=False on an op with constant float inputs ignored"))
    # python scalars / arrays never acquire grads (they are not tensors): a tensor*scalar graph backprops to the tensor only
    a = np.array([1.0, 2.0])
    (x * a * 3.0).sum().backward()
    if hasattr(a, "grad"):
        out.append(("array-grad", "ndarray acquired a grad attribute"))
    return out


def shared_array_cases():
    """a constant operand that holds the *same ndarray object* as a non-constant operand (x.data — the stop-gradient
    idiom —, astensor(x, constant=True), tensor(x.data, constant=True, copy=False)) must behave exactly like an
    independent ndarray with the same values: same result, same flag, same gradient for x"""
    from mygrad.nnet.layers import conv_nd

    rng = np.random.default_rng(3)
    sq = lambda: rng.uniform(0.5, 2.0, size=(3, 3))
    vec = lambda: rng.uniform(0.5, 2.0, size=(4,))
    ops = [("add", vec, lambda a, c: a + c), ("subtract", vec, lambda a, c: a - c), ("multiply", vec, lambda a, c: a * c),
           ("divide", vec, lambda a, c: a / c), ("power", vec, lambda a, c: a ** c), ("maximum", vec, lambda a, c: mg.maximum(a, c)),
           ("minimum", vec, lambda a, c: mg.minimum(a, c)), ("arctan2", vec, lambda a, c: mg.arctan2(a, c)),
           ("logaddexp", vec, lambda a, c: mg.logaddexp(a, c)), ("matmul", sq, lambda a, c: a @ c),
           ("einsum-dot", vec, lambda a, c: mg.einsum("i,i->", a, c)), ("einsum-outer", vec, lambda a, c: mg.einsum("i,j->ij", a, c)),
           ("einsum-mm", sq, lambda a, c: mg.einsum("ij,jk->ik", a, c)), ("einsum-ew", sq, lambda a, c: mg.einsum("ij,ij->ij", a, c)),
           ("einsum-3", vec, lambda a, c: mg.einsum("i,i,i->", a, c, a)),
           ("multiply_sequence", vec, lambda a, c: mg.multiply_sequence(a, c, a)), ("add_sequence", vec, lambda a, c: mg.add_sequence(a, c, a)),
           ("concatenate", vec, lambda a, c: mg.concatenate([a, c]) * mg.concatenate([c, a])), ("stack", vec, lambda a, c: mg.stack([a, c]).prod(axis=0)),
           ("where", vec, lambda a, c: mg.where(np.array([True, False, True, False]), a, c) * a),
           ("setitem", vec, lambda a, c: _set(a, c)), ("tensordot", sq, lambda a, c: mg.tensordot(a, c) if hasattr(mg, "tensordot") else (a * c).sum())]
    shares = [("x.data", lambda x: x.data), ("astensor(x, constant=True)", lambda x: mg.astensor(x, constant=True)),
              ("tensor(x.data, constant=True, copy=False)", lambda x: mg.tensor(x.data, constant=True, copy=False))]
    fails = []
    n = 0
    for name, mk, f in ops:
        for sname, share in shares:
            for swap in (False, True):
                arr = mk()
                g = lambda a, c: f(c, a) if swap else f(a, c)
                try:
                    x1 = mg.tensor(arr.copy())
                    y1 = g(x1, np.array(arr, copy=True))  # the reference: an independent ndarray
                    (y1 * np.arange(1.0, y1.size + 1.0).reshape(y1.shape)).sum().backward()
                    x2 = mg.tensor(arr.copy())
                    y2 = g(x2, share(x2))
                    (y2 * np.arange(1.0, y2.size + 1.0).reshape(y2.shape)).sum().backward()
                except Exception as e:  # noqa: BLE001
                    fails.append((name, f"{name} with c = {sname}{' (swapped)' if swap else ''}: raised {type(e).__name__}: {str(e)[:80]}"))
                    continue
                n += 1
                if y1.constant != y2.constant or not np.array_equal(y1.data, y2.data):
                    fails.append((name, f"{name} with c = {sname}{' (swapped)' if swap else ''}: result or flag differs from the call with an independent ndarray"))
                elif (x1.grad is None) != (x2.grad is None) or (x1.grad is not None and not np.allclose(x1.grad, x2.grad, rtol=1e-12, atol=1e-12)):
                    fails.append((name, f"{name} with c = {sname}{' (swapped)' if swap else ''}: d/dx = {None if x2.grad is None else x2.grad.ravel()[:4].tolist()}…, "
                                        f"with an independent ndarray of the same values {x1.grad.ravel()[:4].tolist()}…"))
    return n, fails


def _set(a, c):
    if not isinstance(a, mg.Tensor) or a.constant:
        a, c = c, a  # the written-to tensor is the non-constant one
    y = +a
    y[1:3] = c[:2]
    return y * a


def api_flag_cases(only=None):
    """the constant rule at the public API, beyond the program fragment: (a) an in-place target keeps its own flag
    whatever `constant=` is passed along with `out=`; (b) functions of several tensors, sequence functions and calls that
    change nothing (NumPy hands back its input) honour an explicit `constant=`; in each case the gradients are those of
    the flags: a constant result transmits nothing, a non-constant one transmits.  -> (number of cases, [(name, msg)])"""
    import itertools

    fails, n = [], 0

    def T(c, *shape):
        return mg.tensor(np.arange(float(np.prod(shape) or 1)).reshape(shape) + 1.0, constant=c)

    # (a) in-place targets
    for tconst, kw, view, form in itertools.product((False, True), (None, True, False), (False, True), ("binary", "unary", "func-out")):
        name = f"inplace-target|target_constant={tconst}|constant={kw}|{'view' if view else 'base'}|{form}"
        if form == "func-out" and kw is not None:
            continue  # (NumPy's own spelling takes no constant=)
        if only is not None and name != only:
            continue
        n += 1
        base = T(tconst, 4)
        t = base[:2] if view else base
        a = T(False, 2 if view else 4)
        kws = {} if kw is None else {"constant": kw}
        try:
            if form == "binary":
                r = mg.multiply(a, 3.0, out=t, **kws)
            elif form == "unary":
                r = mg.negative(a, out=t, **kws)
            else:
                r = np.add(a, a, out=t, **kws)
        except Exception as e:  # noqa: BLE001
            fails.append((name, f"raised {type(e).__name__}: {str(e)[:80]}"))
            continue
        if r is not t:
            fails.append((name, "the out= call did not return its target"))
        if t.constant != tconst or base.constant != tconst:
            fails.append((name, f"the in-place target's flag changed: target {tconst} -> {t.constant}, base {tconst} -> {base.constant}"))
            continue
        (base * 2.0).sum().backward()
        if tconst:
            if a.grad is not None or base.grad is not None:
                fails.append((name, "a constant in-place target transmitted / acquired a gradient"))
        else:
            if a.grad is None:
                fails.append((name, "a non-constant in-place target did not transmit the gradient to the operand written into it"))

    # (b) explicit constant= on functions of several tensors / sequences / no-op calls
    two = lambda c: (T(c, 3), T(c, 3))
    FUNCS = [
        ("atleast_1d-multi", lambda xs, kw: mg.atleast_1d(*xs, **kw)),
        ("atleast_2d-multi", lambda xs, kw: mg.atleast_2d(*xs, **kw)),
        ("atleast_3d-multi", lambda xs, kw: mg.atleast_3d(*xs, **kw)),
        ("atleast_1d-single", lambda xs, kw: mg.atleast_1d(xs[0], **kw)),
        ("concatenate", lambda xs, kw: mg.concatenate(xs, **kw)),
        ("stack", lambda xs, kw: mg.stack(xs, **kw)),
        ("where", lambda xs, kw: mg.where(np.array([True, False, True]), xs[0], xs[1], **kw)),
        ("maximum", lambda xs, kw: mg.maximum(xs[0], xs[1], **kw)),
        ("add_sequence", lambda xs, kw: mg.add_sequence(xs[0], xs[1], **kw)),
        ("multiply_sequence", lambda xs, kw: mg.multiply_sequence(xs[0], xs[1], **kw)),
        ("einsum", lambda xs, kw: mg.einsum("i,i->i", xs[0], xs[1], **kw)),
        ("matmul", lambda xs, kw: mg.matmul(xs[0], xs[1], **kw)),
        ("clip", lambda xs, kw: mg.clip(xs[0], 1.5, 2.5, **kw)),
        ("reshape-same", lambda xs, kw: mg.reshape(xs[0], (3,), **kw)),
        ("squeeze-nothing", lambda xs, kw: mg.squeeze(xs[0], **kw)),
        ("transpose-1d", lambda xs, kw: mg.transpose(xs[0], **kw)),
        ("ravel-1d", lambda xs, kw: mg.ravel(xs[0], **kw)),
        ("expand_dims", lambda xs, kw: mg.expand_dims(xs[0], 0, **kw)),
        ("broadcast_to-same", lambda xs, kw: mg.broadcast_to(xs[0], (3,), **kw)),
        ("sum", lambda xs, kw: mg.sum(xs[0], **kw)),
        ("positive", lambda xs, kw: mg.positive(xs[0], **kw)),
    ]
    for (fname, f), inconst, kw in itertools.product(FUNCS, (False, True), (True, False)):
        name = f"explicit-flag|{fname}|inputs_constant={inconst}|constant={kw}"
        if only is not None and name != only:
            continue
        n += 1
        xs = two(inconst)
        try:
            r = f(xs, {"constant": kw})
        except Exception as e:  # noqa: BLE001
            fails.append((name, f"raised {type(e).__name__}: {str(e)[:80]}"))
            continue
        outs = list(r) if isinstance(r, (list, tuple)) else [r]
        bad = [i for i, o in enumerate(outs) if not isinstance(o, mg.Tensor) or o.constant != kw]
        if bad:
            fails.append((name, f"output {bad[0]} has constant={getattr(outs[bad[0]], 'constant', None)} although constant={kw} was passed"))
            continue
        L = outs[0]
        for o in outs[1:]:
            L = L + o if not kw else L
        try:
            (outs[0] * 1.0).sum().backward() if len(outs) == 1 else sum((o * 1.0).sum() for o in outs).backward()
        except Exception as e:  # noqa: BLE001
            fails.append((name, f"backward raised {type(e).__name__}"))
            continue
        got = [x.grad is not None for x in xs[: (2 if fname not in ("atleast_1d-single", "clip", "reshape-same", "squeeze-nothing",
               "transpose-1d", "ravel-1d", "expand_dims", "broadcast_to-same", "sum", "positive") else 1)]]
        want = (not kw) and (not inconst)
        if any(g != want for g in got):
            fails.append((name, f"inputs received gradients {got}; with inputs constant={inconst} and the result constant={kw} every one must be {want}"))
        if any(o.grad is not None for o in outs) and kw:
            fails.append((name, "a result made constant acquired a .grad"))
    # (d) inferred flags of functions of several tensors, for every combination of the operands' flags (an operand may
    # also be a plain ndarray): the result is constant iff every operand is, and exactly the non-constant operands
    # receive a gradient
    MIXED = [
        ("multi_matmul-1d-ends", [(3,), (3, 3), (3,)], lambda xs: mg.multi_matmul(xs)),
        ("multi_matmul-1d-last", [(2, 3), (3, 3), (3,)], lambda xs: mg.multi_matmul(xs)),
        ("multi_matmul-1d-first", [(3,), (3, 3), (3, 2)], lambda xs: mg.multi_matmul(xs)),
        ("multi_matmul-2d", [(2, 3), (3, 3), (3, 2)], lambda xs: mg.multi_matmul(xs)),
        ("multi_matmul-4", [(3,), (3, 3), (3, 3), (3,)], lambda xs: mg.multi_matmul(xs)),
        ("einsum-3", [(2, 3), (3, 3), (3,)], lambda xs: mg.einsum("ij,jk,k->i", *xs)),
        ("add_sequence-3", [(3,), (3,), (3,)], lambda xs: mg.add_sequence(*xs)),
        ("multiply_sequence-3", [(3,), (3,), (3,)], lambda xs: mg.multiply_sequence(*xs)),
        ("concatenate-3", [(2,), (3,), (1,)], lambda xs: mg.concatenate(xs)),
        ("stack-3", [(3,), (3,), (3,)], lambda xs: mg.stack(xs)),
        ("where-xy", [(3,), (3,)], lambda xs: mg.where(np.array([True, False, True]), xs[0], xs[1])),
        ("clip-tensor-bounds", [(4,), (4,), (4,)], lambda xs: mg.clip(xs[0] * 0.1, xs[1] * 0.05, xs[2] * 0.08)),
        ("matmul", [(2, 3), (3,)], lambda xs: mg.matmul(*xs)),
    ]
    for fname, shapes, f in MIXED:
        for flags in itertools.product((False, True, "array"), repeat=len(shapes)):
            name = f"inferred-flag|{fname}|operands={','.join(str(x) for x in flags)}"
            if only is not None and name != only:
                continue
            n += 1
            ts = [T(bool(c), *sh) if c != "array" else None for c, sh in zip(flags, shapes)]
            xs = [t if t is not None else (np.arange(float(np.prod(sh))).reshape(sh) + 1.0) for t, sh in zip(ts, shapes)]
            try:
                r = f(xs)
            except Exception as e:  # noqa: BLE001
                fails.append((name, f"raised {type(e).__name__}: {str(e)[:80]}"))
                continue
            want_const = all(c is not False for c in flags)
            if not isinstance(r, mg.Tensor) or r.constant != want_const:
                fails.append((name, f"the result has constant={getattr(r, 'constant', None)}; the operands' flags make it {want_const}"))
                continue
            try:
                (r * 1.0).sum().backward()
            except Exception as e:  # noqa: BLE001
                fails.append((name, f"backward raised {type(e).__name__}"))
                continue
            got = [None if t is None else (t.grad is not None) for t in ts]
            want = [None if t is None else (c is False) for t, c in zip(ts, flags)]
            if got != want:
                fails.append((name, f"operands received gradients {got}, expected {want} (None: an ndarray operand)"))
    # (c) conversions with an explicit constant= : the flag wins (for integer data constant=False is refused instead)
    CONV = [
        ("astype-nocopy", lambda t, c: t.astype(t.dtype, copy=False, constant=c)),
        ("astype-copy", lambda t, c: t.astype(t.dtype, constant=c)),
        ("astype-f32", lambda t, c: t.astype(np.float32, copy=False, constant=c)),
        ("copy", lambda t, c: t.copy(constant=c)),
        ("astensor", lambda t, c: mg.astensor(t, constant=c)),
        ("astensor-dtype", lambda t, c: mg.astensor(t, dtype=np.float32, constant=c)),
        ("tensor", lambda t, c: mg.tensor(t, constant=c)),
        ("tensor-nocopy", lambda t, c: mg.tensor(t, constant=c, copy=False)),
        ("Tensor", lambda t, c: mg.Tensor(t, constant=c)),
    ]
    for (cname, f), tconst, kw in itertools.product(CONV, (False, True), (True, False)):
        name = f"conversion|{cname}|tensor_constant={tconst}|constant={kw}"
        if only is not None and name != only:
            continue
        n += 1
        t = T(tconst, 3)
        try:
            r = f(t, kw)
        except Exception as e:  # noqa: BLE001
            fails.append((name, f"raised {type(e).__name__}: {str(e)[:80]}"))
            continue
        if not isinstance(r, mg.Tensor) or r.constant != kw:
            fails.append((name, f"the result has constant={getattr(r, 'constant', None)} although constant={kw} was passed"))
            continue
        if (r is t) and tconst != kw:
            fails.append((name, "the very tensor was returned although another flag was asked for"))
        (r * 2.0).sum().backward()
        if kw and r.grad is not None:
            fails.append((name, "a result made constant acquired a .grad"))
        if not kw and r.grad is None:
            fails.append((name, "a result made non-constant received no gradient"))
    for cname, f in CONV[:2]:
        name = f"conversion|{cname}|integer|constant=False"
        if only is not None and name != only:
            continue
        n += 1
        ti = mg.tensor([1, 2, 3])
        try:
            r = f(ti, False)
            fails.append((name, f"an integer tensor was made non-constant (constant={r.constant}) instead of being refused"))
        except Exception:  # noqa: BLE001
            pass
    return n, fails


def nontrivial(prog):
    nconst = sum(1 for st in prog if st[0] == "leaf" and st[4]) + sum(1 for st in prog if st[0] in ("bin", "un", "sum", "view", "take") and st[-1] is not None)
    nvar = sum(1 for st in prog if st[0] == "leaf" and not st[4])
    return nconst >= 1 and nvar >= 1 and len(prog) >= 6


def run(ctx: Ctx) -> Outcome:
    n = ctx.n(1500, 8000)
    out, results = engcheck.run_programs(ctx, n, dict(GEN, n_stmts=ctx.n(9, 16)), "oracle", nontrivial)
    out.rule = ("random programs with every mix of constant / non-constant leaves and constant=None/True/False on ops (45% "
                "constants), views, in-place targets, one final backward; non-trivial = >=1 constant and >=1 non-constant "
                "participant; plus the dtype gate over all integer/bool/float dtypes, constant operands sharing an operand's ndarray, "
                "and the flag rule at the public API: in-place targets under every explicit constant= (base / view, three spellings) "
                "and an explicit constant= on 21 functions of several tensors, sequence functions and calls that change nothing")
    engcheck.report(out, results, "C10", oracle)
    for cls, msg in gate_cases():
        out.violations.append(Violation(f"C10|gate|{cls}", msg, {"kind": "gate", "class": cls}))
    out.evaluations += 1
    nsh, fsh = shared_array_cases()
    out.evaluations += nsh
    seen_sh = set()
    for name, msg in fsh:
        if name not in seen_sh:
            seen_sh.add(name)
            out.violations.append(Violation(f"C10|shared-array-constant|{name}", msg, {"kind": "shared", "name": name}))
    out.stats["shared_array_constant_cases"] = nsh
    napi, fapi = api_flag_cases()
    out.evaluations += napi
    out.stats["api_flag_cases"] = napi
    for k in range(napi):
        out.nontrivial.add(stable_hash(["api-flag", k]))
    seen_api = set()
    for name, msg in fapi:
        # one violation per entry point (and per kind of case), witnessed by its first failing combination
        fam = "|".join(name.split("|")[:2])
        if fam not in seen_api:
            seen_api.add(fam)
            out.violations.append(Violation(f"C10|api-flag|{fam}", f"{name}: {msg}", {"kind": "api", "name": name}))
    out.assumptions = ["the dtype gate (integer/bool always constant) is also part of C17's lattice model"]
    return out


def replay(data) -> bool:
    r = data["replay"]
    if r.get("kind") == "shared":
        f = [x for x in shared_array_cases()[1] if x[0] == r["name"]]
        print(f)
        return bool(f)
    if r.get("kind") == "api":
        f = api_flag_cases(only=r["name"])[1]
        print(f)
        return bool(f)
    if r.get("kind") == "gate":
        f = [x for x in gate_cases() if x[0] == r["class"]]
        print(f)
        return bool(f)
    p = r["program"]
    for st in p:
        print(progs.to_line(st))
    f = oracle(p, 0)
    print("oracle:", f)
    return bool(f)


MANIFEST = {
    "category": "proof",
    "design_ref": "DESIGN.md §5 C10",
    "technique": "Lean 4 invariants of the engine model (constant inference of opStep, gradient map keys are non-constant reached "
                 "tensors) + correspondence on programs with random flag assignments + array-twin and exact-derivative oracles",
    "text": "Proved on the engine model for all heaps/programs: the flag of an op's result is the flag the caller "
            "passes, else 'every input (tensors and wrapped ndarrays/scalars) is constant' (op_constant_rule, "
            "opStep_result_flag, wrapped_literals_are_constant); whatever the back-propagation loop does — to "
            "completion or up to an error — no constant tensor becomes a key of the gradient map "
            "(constants_never_get_grad) and every key is the terminal tensor or a non-constant input of a visited "
            "op (grads_only_on_reached_tensors); backward on a constant tensor only clears the graph "
            "(backward_on_constant_only_clears). The model is run against MyGrad on programs with random flag "
            "assignments; the oracle checks the rule after every statement, that no constant has a .grad, the "
            "exact derivative, and that replacing constant tensors by ndarrays leaves all other gradients "
            "identical; 22 op families are called with a constant operand that holds the very ndarray of a non-constant "
            "operand (x.data, astensor(x, constant=True), tensor(x.data, constant=True, copy=False); both operand "
            "orders) and must give x the gradient an independent ndarray gives; the dtype gate is enumerated over "
            "all admitted dtypes.",
    "note": "Trusted: Lean kernel, standard axioms, correspondence harness. In-place targets keep their flag: "
            "inplace_ignores_explicit_constant (any target, operands, mask and outcome: an explicit constant= changes nothing in the "
            "whole _in_place_op of the model) together with the refinement theorems of C04 (the flag of the target — and, for an "
            "update through a view, of the base — is the one it had); the implementation is held to the same statement by the API-level "
            "cases.",
}


def check_witness(w):
    f = oracle(w["program"], 0)
    for cls, msg in f:
        if cls.endswith("!"):
            return Violation(f"C10|{cls[:-1]}", msg, {"kind": "program", "program": w["program"], "class": cls})
    return None

MANIFEST_ADDENDUM = 'Oracle addition: inferred flags and gradient routing of the n-ary functions (multi_matmul with 1-D/2-D ends, einsum, add/multiply_sequence, concatenate, stack, where, clip with tensor bounds, matmul) for every combination of constant / non-constant / ndarray operands. Oracle additions: the flag rule at the public API — in-place targets under every explicit constant= (base/view, three spellings), an explicit constant= on 21 functions of several tensors / sequence functions / calls that change nothing, conversions (astype, copy, astensor, tensor) under an explicit constant=.'
