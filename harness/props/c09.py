"""C09 — backprop through a partially cleared graph fails loudly, never silently."""
from __future__ import annotations

import numpy as np

import mygrad as mg

from .. import engcheck, progs
from ..core import Ctx, Outcome, Violation

ID = "C09"
LEVEL = "proof"
EXTRA_TARGETS = ["MG.DriverEng"]
THEOREMS = {
    "MG.Proofs.C09": [
        "MG.C09.stale_backward_neg",
        "MG.C09.witness_value",
        "MG.C09.cleared_input_raises",
        "MG.C09.stale_backward_safe_partial",
    ],
}

GEN = dict(inplace=True, p_inplace=0.25, p_view=0.15, p_fail=0.0, p_const=0.05, n_stmts=11, multi_back=True)


class Tape(progs.RealExec):
    """records, for every Operation object that appears in the graph, the values its inputs had when it was recorded"""

    def __init__(self):
        super().__init__()
        self.snap = {}  # id(op) -> (op, [copies of variables' data])

    def record_from(self, t):
        stack, seen = [t], set()
        while stack:
            x = stack.pop()
            if id(x) in seen:
                continue
            seen.add(id(x))
            op = x.creator
            if op is None:
                continue
            if id(op) not in self.snap:
                self.snap[id(op)] = (op, [np.array(v.data, copy=True) for v in op.variables])
            stack.extend(op.variables)

    def step(self, st):
        r = super().step(st)
        if r == "ok" and st[0] in ("bin", "un", "sum", "view", "take", "set", "aug", "outb", "outu"):
            # ops recorded by this statement (incl. the internal ones of the in-place machinery and re-created views)
            for t in list(self.v.values()):
                self.record_from(t)
        return r

    def stale_ops(self, L):
        """ops in L's live graph one of whose current inputs no longer holds the value recorded at forward time"""
        bad, stack, seen = [], [L], set()
        while stack:
            x = stack.pop()
            if id(x) in seen or x.constant:
                continue
            seen.add(id(x))
            op = x.creator
            if op is None:
                continue
            rec = self.snap.get(id(op))
            if rec is not None:
                for j, (v, old) in enumerate(zip(op.variables, rec[1])):
                    if v.data.shape != old.shape or not np.array_equal(v.data, old):
                        if _backward_reads(op, j):
                            bad.append((type(op).__name__, j, bool(v.constant)))
            stack.extend(op.variables)
            if len(seen) > 500:
                break
        return bad


# Ops of the program fragment whose backward rule never reads the *values* of its inputs (linear maps, index maps):
# a changed input of such an op cannot make backward() use "values other than those of the forward pass".
_VALUE_FREE = {"Add", "Subtract", "Negative", "Positive", "Sum", "GetItem", "Reshape", "Transpose", "Tensor_Transpose_Property",
               "ExpandDims", "Squeeze", "BroadcastTo", "SetItem", "UnView", "ApplyMask", "Flatten", "Ravel", "SwapAxes", "MoveAxis"}


def _backward_reads(op, j):
    """does op.backward read the value of variable j in order to produce the gradient of a non-constant variable?"""
    name = type(op).__name__
    if name in _VALUE_FREE:
        return False
    if name == "Multiply":
        # d/d(var k) = grad * value of the other variable
        return any(k != j and not v.constant for k, v in enumerate(op.variables))
    return not all(v.constant for v in op.variables)  # Square and anything else: assume it does


def oracle_at(prog):
    """the property's predicate at EVERY backward() of the history: -> (class, message, index of the failing
    statement) for the first backward that neither raises InvalidBackprop nor works on forward-time values"""
    ex = Tape()
    for k, st in enumerate(prog):
        if st[0] != "back":
            ex.step(st)
            continue
        L = ex.v.get(st[1])
        if L is None or L.constant:
            ex.step(st)
            continue
        try:
            stale = ex.stale_ops(L)
        except RecursionError:
            stale = []
        r = ex.step(st)
        if r == "InvalidBackprop":
            continue
        if r == "RecursionError":
            return ("cyclic-graph", "backward() on a tensor whose graph was partially cleared and then re-used through in-place "
                    "updates dies with RecursionError (the recorded graph has become cyclic) instead of raising InvalidBackprop", k)
        if r != "ok":
            if st[2] is not None and not progs._bcastable(tuple(st[2][1]), L.shape):
                continue
            return ("raises-other", f"backward raised {r} (neither InvalidBackprop nor a result)", k)
        if stale:
            # a stale *non-constant* input first (the consumer-set check exists for those); a constant one otherwise
            op, j, isc = sorted(stale, key=lambda x: x[2])[0]
            return ("stale-values-used" + (":const-input" if isc else ""), f"backward() succeeded although input {j} of a recorded {op} no longer holds the value "
                    f"used in the forward pass (no InvalidBackprop was raised)", k)
    return None


def oracle(prog, idx):
    r = oracle_at(prog)
    return [] if r is None else [(r[0], r[1])]


def after_clear_classes(prog):
    """what a (shrunk) history does after its first backward/clear_graph with the tensors that existed before it:
    M = mutates one of them in place, U = uses one of them as an input of a later statement (op, view, or operand of
    an in-place update of another tensor)"""
    seen_boundary = False
    old, cl = set(), set()
    for st in prog[:-1]:
        if st[0] in ("back", "clear"):
            seen_boundary = True
            continue
        if not seen_boundary:
            if st[0] in ("leaf", "bin", "un", "sum", "view", "take"):
                old.add(st[1])
            continue
        operands = [x[1] for x in st[2:] if isinstance(x, list) and len(x) == 2 and x[0] == "t"]
        if st[0] == "view" and any(o in old for o in operands):
            old.add(st[1])  # a view of a tensor of the cleared graph: writing through it mutates that tensor
        if st[0] in ("set", "aug", "outb", "outu"):
            if st[1] in old:
                cl.add("M")
            if any(o in old and o != st[1] for o in operands):
                cl.add("U")
        elif st[0] in ("bin", "un", "sum", "view", "take"):
            if any(o in old for o in operands):
                cl.add("U")
    return ",".join(sorted(cl)) or "-"


def sigfn(prop, cls, small):
    r = oracle_at(small)
    if r is not None:
        small = small[: r[2] + 1]  # the history up to (and including) the failing backward
    # what had to happen after the clearing for the failure to manifest identifies the family: on the unchanged tree
    # it takes an in-place mutation (M) AND a re-use (U) of tensors of the cleared graph, which refills a consumer set
    ac = after_clear_classes(small)
    if cls.endswith(":const-input") and "M" in ac.split(","):
        # a *constant* input that was mutated: no consumer-set check exists for constants, so a re-use (U) adds nothing;
        # whether the history also re-uses old tensors (to build L after the clearing) does not distinguish the defect
        ac = "M"
    return f"{prop}|{cls}|after-clear:{ac}"


def nontrivial(prog):
    f = progs.features(prog)
    return f.get("back", 0) + f.get("clear", 0) >= 2


# the 7-statement witness of `stale_backward_neg`, on the implementation
def f6_witness():
    x = mg.tensor([1.0, 2.0])
    y = x * 2
    z1 = y + 1
    z2 = y * y
    z1.backward()
    y[...] = 10.0
    w = y * 5
    try:
        z2.backward()
    except mg.errors.InvalidBackprop:
        return None
    return f"y=x*2; z1=y+1; z2=y*y; z1.backward(); y[...]=10; w=y*5; z2.backward() -> no InvalidBackprop, y.grad={y.grad.tolist()} (recorded forward: 2*y_old = [4, 8])"


WITNESS = [["leaf", 0, [2], [1, 2], 0], ["bin", 1, "mul", ["t", 0], ["py", 2], None], ["bin", 2, "add", ["t", 1], ["py", 1], None],
           ["bin", 3, "mul", ["t", 1], ["t", 1], None], ["back", 2, None], ["set", 1, ["b", ["e"]], ["py", 10]],
           ["bin", 4, "mul", ["t", 1], ["py", 5], None], ["back", 3, None]]


def template_programs():
    """systematic histories: a tensor y shared by two graphs L1, L2; optional live view of y; L1 is back-propagated or
    cleared; y (or the view) is mutated in place; y is optionally re-used; then L2.backward()"""
    out = []
    for ykind in ("leaf", "intermediate"):
        for view in (None, "slice", "reshape"):
            for view_in_l1 in ((False, True) if view else (False,)):
                for boundary in ("back", "clear"):
                    for mut in (None, "set-all", "set-part", "aug", "out", "set-view"):
                        if mut == "set-view" and not view:
                            continue
                        for reuse in (None, "op", "view"):
                            p = [["leaf", 0, [4], [1, 2, 3, 4], 0]]
                            y = 0
                            if ykind == "intermediate":
                                p.append(["bin", 1, "mul", ["t", 0], ["py", 2], None])
                                y = 1
                            if view == "slice":
                                p.append(["view", 5, ["gi", [["s", None, 2, None]]], ["t", y], None])
                            elif view == "reshape":
                                p.append(["view", 5, ["rs", [2, 2]], ["t", y], None])
                            src = 5 if (view and view_in_l1) else y
                            p.append(["bin", 2, "add", ["t", src], ["py", 1], None])   # L1
                            p.append(["bin", 3, "mul", ["t", y], ["t", y], None])       # L2
                            p.append([boundary, 2] if boundary == "clear" else ["back", 2, None])
                            if mut == "set-all":
                                p.append(["set", y, ["b", ["e"]], ["py", 5]])
                            elif mut == "set-part":
                                p.append(["set", y, ["b", [["i", 0]]], ["py", 5]])
                            elif mut == "aug":
                                p.append(["aug", y, "mul", ["py", 3]])
                            elif mut == "out":
                                p.append(["outu", y, "neg", ["l", [4], [1, 1, 1, 1]], None])
                            elif mut == "set-view":
                                p.append(["set", 5, ["b", ["e"]], ["py", 7]])
                            if reuse == "op":
                                p.append(["bin", 4, "mul", ["t", y], ["py", 5], None])
                            elif reuse == "view":
                                p.append(["view", 6, ["gi", [["s", 1, None, None]]], ["t", y], None])
                            p.append(["back", 3, None])
                            out.append(p)
    return out



def direct_histories(only=None):
    """histories written directly against the implementation (they need statements the program IR does not have):
    a tensor / ndarray `y` shared by two graphs L1, L2; L1 is back-propagated or cleared; then an attempt to change `y`'s
    values — an in-place ufunc with `out=y` *and* an explicit `constant=`, a raw write into the array, an in-place
    update inside no_autodiff (the last three must be refused while L2 is alive: the array is locked) — optionally a
    re-use of `y`; then L2.backward() must raise InvalidBackprop or leave w.grad = the forward-time value of y.
    -> [(name, class, message)]"""
    import gc
    import itertools

    from mygrad.errors import InvalidBackprop

    out = []
    combos = [c + ("mul",) for c in itertools.product(("intermediate", "leaf", "ndarray", "constant-tensor"), ("back", "clear"),
            ("out-constant-true", "out-constant-false", "tracked-imul", "raw-data-write", "noautodiff-imul", "noautodiff-setitem", "none"),
            ("no-reuse", "reuse", "failing-reuse"), ("no-view", "dropped-view"))]
    # ... and the second graph holding the shared tensor as the *operand of an in-place update* (`z *= y`): the lock that
    # keeps `y`'s array read-only while L2 is alive is then taken by the in-place machinery
    combos += [c + ("inplace-operand",) for c in itertools.product(("intermediate", "leaf", "ndarray"), ("back", "clear"),
            ("raw-data-write", "noautodiff-imul", "noautodiff-setitem", "none"), ("no-reuse", "reuse"), ("no-view",))]
    for shared, boundary, mut, reuse, view, l2kind in combos:
        name = f"{shared}|{boundary}|{mut}|{reuse}|{view}" + ("" if l2kind == "mul" else "|L2:" + l2kind)
        if only is not None and name != only:
            continue
        if shared == "ndarray" and (mut.startswith("out-constant") or mut == "tracked-imul" or view == "dropped-view"):
            continue
        gc.collect()
        x = mg.tensor([2.0, 3.0, -1.5])
        w = mg.tensor([1.0, 2.0, 3.0])
        if shared == "intermediate":
            y = x * 3.0
        elif shared == "leaf":
            y = x
        elif shared == "ndarray":
            y = np.array([2.0, 3.0, -1.5])
        else:
            y = mg.tensor([2.0, 3.0, -1.5], constant=True)
        y0 = np.array(y if isinstance(y, np.ndarray) else y.data)
        vw = y[:2] if view == "dropped-view" else None  # a view of the shared tensor, alive when L1's graph is cleared
        L1 = (y * 2.0 * x).sum()
        if l2kind == "mul":
            L2 = (w * y).sum()
        else:
            z = w * 1.0
            z *= y
            L2 = z.sum()
        if boundary == "back":
            L1.backward()
        else:
            L1.clear_graph()
        del vw
        mut_exc = None
        try:
            if mut == "out-constant-true":
                mg.multiply(y, 10.0, out=y, constant=True)
            elif mut == "out-constant-false":
                mg.multiply(y, 10.0, out=y, constant=False)
            elif mut == "tracked-imul":
                y *= 10.0
            elif mut == "raw-data-write":
                (y if isinstance(y, np.ndarray) else y.data)[...] = 7.0
            elif mut == "noautodiff-imul":
                with mg.no_autodiff:
                    if isinstance(y, np.ndarray):
                        y *= 10.0
                    else:
                        y *= 10.0
            elif mut == "noautodiff-setitem":
                with mg.no_autodiff:
                    y[...] = 7.0
        except Exception as e:
            mut_exc = type(e).__name__
        if reuse == "reuse":
            try:
                _r = y + 1.0
            except Exception:
                pass
        elif reuse == "failing-reuse":
            try:
                _r = y + np.ones(7)  # a statement on the shared tensor that raises: it must not count as a use
            except Exception:
                pass
        try:
            L2.backward()
        except InvalidBackprop:
            continue
        except Exception as e:
            out.append((name, "raises-other", f"L2.backward() raised {type(e).__name__}: {str(e)[:80]} (mutation attempt: {mut_exc or 'succeeded'})"))
            continue
        g = w.grad
        if g is None or not np.array_equal(g, y0):
            out.append((name, "stale-values-used", f"L2 = sum(w*y) was recorded with y = {y0.tolist()}; after {mut} (attempt {mut_exc or 'succeeded'}) "
                        f"L2.backward() returned silently with w.grad = {None if g is None else g.tolist()}"))
    return out



def direct_sig(name, cls):
    """family signature of a failing direct history: a tracked in-place update of the shared tensor followed by a re-use
    is the recorded after-clear:M,U family; a tracked in-place update of a shared *constant* tensor the const-input one"""
    shared, boundary, mut, reuse, view = name.split("|")[:5]
    if cls == "stale-values-used" and (mut.startswith("out-constant") or mut == "tracked-imul"):
        if shared == "constant-tensor":
            return "C09|stale-values-used:const-input|after-clear:M"
        if reuse == "reuse":
            return "C09|stale-values-used|after-clear:M,U"
    return f"C09|{cls}|direct:{name}"


def run(ctx: Ctx) -> Outcome:
    n = ctx.n(2000, 10000)
    out, results = engcheck.run_programs(ctx, n, dict(GEN, n_stmts=ctx.n(11, 20)), "oracle", nontrivial)
    out.rule = ("random histories with several graphs sharing upstream tensors: ops, views, in-place updates, backward(), "
                "clear_graph(), null_grad, del interleaved in any order, then a final backward; non-trivial = >=2 "
                "backward/clear statements; oracle: if the final backward does not raise InvalidBackprop, no op in its live "
                "graph may see an input whose value differs from the one recorded at forward time")
    engcheck.report(out, results, "C09", oracle, sigfn=sigfn)
    # systematic templates (all combinations)
    tres = [{"prog": p, "fails": oracle(p, 0)} for p in template_programs()]
    out.evaluations += len(tres)
    out.stats["template_histories"] = len(tres)
    engcheck.report(out, tres, "C09", oracle, sigfn=sigfn, per_class=10 ** 6)
    seen_d = {v.signature for v in out.violations}
    dh = direct_histories()
    out.evaluations += 4 * 2 * 7 * 3 * 2 + 3 * 2 * 4 * 2
    out.stats["direct_histories_failing"] = len(dh)
    for name, cls, m in dh:
        sg = direct_sig(name, cls)
        if sg in seen_d:
            continue
        seen_d.add(sg)
        out.violations.append(Violation(sg, f"{name}: {m}", {"kind": "direct", "name": name, "class": cls}))
    msg = f6_witness()
    if msg:
        out.violations.append(Violation(sigfn("C09", "stale-values-used", WITNESS), msg, {"kind": "program", "program": WITNESS, "class": "stale-values-used"}))
    return out


def check_witness(w):
    f = oracle(w["program"], 0)
    for cls, msg in f:
        return Violation(sigfn("C09", cls, w["program"]), msg, {"kind": "program", "program": w["program"], "class": cls})
    return None


def replay(data) -> bool:
    if data["replay"].get("kind") == "direct":
        res = direct_histories(only=data["replay"]["name"])
        print(res)
        return bool(res)
    p = data["replay"]["program"]
    for st in p:
        print(progs.to_line(st))
    f = oracle(p, 0)
    print("oracle:", f)
    return bool(f)


MANIFEST = {
    "category": "proof",
    "design_ref": "DESIGN.md §5 C09",
    "technique": "Lean 4: negation of the full statement from a concrete 8-statement witness evaluated in the engine model "
                 "(kernel `decide`), the detector lemma, and the partial theorem for histories without re-use after clearing; "
                 "correspondence on multi-epoch histories; forward-value tape oracle on the implementation",
    "text": "The full statement is FALSE of the unchanged code: stale_backward_neg proves it in the model "
            "(kernel-evaluated) from the history y=x*2; z1=y+1; z2=y*y; z1.backward(); y[...]=10; w=y*5; "
            "z2.backward(), which the harness replays on MyGrad (no error, y.grad=[20,20] computed from the "
            "mutated value; witness_value). Proved: an op whose non-constant input has an empty consumer set "
            "makes backward raise InvalidBackprop before any VJP is taken (cleared_input_raises) and, whenever "
            "the loop completes on an acyclic heap, what it returns is the adjoint solution of the graph as the "
            "heap records it at that moment (stale_backward_safe_partial, via C01) — so wrong gradients can only "
            "come from a heap that is itself inconsistent, which is what re-use after clearing produces. The "
            "model is compared with MyGrad on random multi-epoch histories; the oracle tapes the forward-time "
            "input values of every recorded op and flags, at EVERY backward of the history, a success through an op "
            "whose backward rule reads an input that has changed; 348 systematic history templates (clear, mutate, "
            "re-use, view, backward in every order) run besides the random ones.",
    "note": "Trusted: Lean kernel, standard axioms, correspondence harness. Known findings: silent use of mutated values and a "
            "cyclic graph (RecursionError) after clear + re-use + in-place update; their signatures carry what the "
            "history does after the clear (mutation M and/or re-use U), so that the same failure reached by another kind of "
            "history is a new violation.",
}

MANIFEST_ADDENDUM = 'Oracle additions: 504 histories written directly against the implementation: a tensor/ndarray shared by two graphs, backward/clear of one, then out=y with an explicit constant=, a tracked in-place update, a raw write or an in-place update inside no_autodiff (refused while the other graph is alive), optionally a view dropped after the clearing and a successful or a failing re-use; then the other backward must raise InvalidBackprop or use the forward-time values. Round 6: histories in which the second graph holds the shared tensor as the operand of an in-place update (the in-place machinery takes the lock).'
