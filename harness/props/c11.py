"""C11 — every public entry point to an operation behaves identically.

Translator tie: `regen` installs a spy around Tensor._op / Tensor._in_place_op and RECORDS, from the current /repo, the
route of every public spelling (mg function, np function / ufunc, out=Tensor, out=ndarray, where=, dtype=, method,
operator, reflected and augmented operator) of every registered ufunc, every __array_function__ override and every
operator dunder, for several operand classes, into lean/MG/Gen/Tables.lean; MG/Proofs/C11.lean proves over the complete
table that all spellings of one operation reach the same Operation class with the same operands and normalised options
(or a pair proved equivalent).  Direct oracle (independent of Lean): differential execution of all spellings on the same
random operands — values bitwise, dtype, constant flag, gradients of every operand; non-differentiable functions must
return plain ndarrays equal to NumPy's; the rounding/modulo family must raise on non-constant tensors.
"""
from __future__ import annotations

import inspect
import itertools
import numbers
import operator as _operator
import random

import numpy as np

import mygrad as mg
import mygrad.tensor_base as tb
from mygrad import Tensor

from ..core import LEAN, CorrBreak, Ctx, Outcome, Violation, pmap, stable_hash

ID = "C11"
LEVEL = "proof"
THEOREMS = {
    "MG.Proofs.C11": [
        "MG.C11.routes_agree",
        "MG.C11.routes_same_target",
        "MG.C11.routes_same_options",
        "MG.C11.canon_sound",
        "MG.C11.table_complete_forms",
        "MG.C11.const_only_raise",
        "MG.C11.no_diff_return_ndarray",
        "MG.C11.power_two_equiv_square",
        "MG.C11.power_one_equiv_positive",
        "MG.C11.transpose_property_equiv_transpose",
        "MG.C11.clip_eq_min_max",
    ]
}
EXTRA_TARGETS = ["MG.Gen.Tables"]
TABLES = LEAN / "MG" / "Gen" / "Tables.lean"

KINDS = ["mgFunction", "npFunction", "npUfunc", "ufuncOutTensor", "ufuncOutNdarray", "ufuncWhere", "ufuncDtype", "method",
         "operator", "reflectedOperator", "augmentedOperator"]
FORMS = ["plain", "inplace(a)", "out=Tensor", "out=ndarray", "where=,out=ndarray", "where=,out=Tensor",
         "dtype=f32", "dtype=f32,out=ndarray", "dtype=f32,out=Tensor", "dtype=f16", "dtype=f16,out=ndarray", "dtype=f16,out=Tensor"]
DTYPE_KW = {"f32": np.float32, "f16": np.float16}
PROBES_F16 = {"T", "T32", "T,T", "T32,T32", "T,A", "T32,S", "T,Tc"}  # operand classes on which the dtype=float16 forms are probed

# ------------------------------------------------------------------------------------------ operands

SCALARS = {"S": 1.5, "S2": 2.0, "S1": 1.0, "Si": 3, "Si2": 2, "Si1": 1, "N2": np.float64(2.0), "Ni2": np.int64(2)}
# operands with a FIXED value and shape (for dunders that special-case operand *values*: Tensor.__pow__ / __ipow__):
# class -> (container, constant, shape, value)
FIXED = {
    "T0=2": ("T", False, (), 2.0), "T0=1": ("T", False, (), 1.0), "T0": ("T", False, (), 1.5),
    "Tc0=2": ("T", True, (), 2.0), "Tc0=1": ("T", True, (), 1.0),
    "A0=2": ("A", None, (), 2.0), "A0=1": ("A", None, (), 1.0), "A0": ("A", None, (), 1.5),
    "T1=2": ("T", False, (1,), 2.0), "T1=1": ("T", False, (1,), 1.0), "A1=2": ("A", None, (1,), 2.0),
}
DOMAIN = {"arccosh": (1.2, 3.0)}


def _arr(rng, shape, lo, hi, dtype):
    n = int(np.prod(shape))
    return np.array([rng.uniform(lo, hi) for _ in range(n)], dtype=np.float64).reshape(shape).astype(dtype)


def make_operand(cls, rng, shape, dom):
    lo, hi = dom
    if cls in SCALARS:
        return SCALARS[cls]
    if cls in FIXED:
        kind, const, shp, val = FIXED[cls]
        arr = np.full(shp, val, dtype=np.float64)
        return mg.tensor(arr, constant=const) if kind == "T" else arr
    if cls == "T":
        return mg.tensor(_arr(rng, shape, lo, hi, np.float64))
    if cls == "Tc":
        return mg.tensor(_arr(rng, shape, lo, hi, np.float64), constant=True)
    if cls == "T32":
        return mg.tensor(_arr(rng, shape, lo, hi, np.float32))
    if cls == "T32c":
        return mg.tensor(_arr(rng, shape, lo, hi, np.float32), constant=True)
    if cls == "A":
        return _arr(rng, shape, lo, hi, np.float64)
    if cls == "A32":
        return _arr(rng, shape, lo, hi, np.float32)
    if cls == "Ti":
        return mg.tensor(np.array([rng.randint(1, 4) for _ in range(int(np.prod(shape)))]).reshape(shape))
    raise ValueError(cls)


def is_tensor_cls(c):
    return c.startswith("T") or c == "="


# ------------------------------------------------------------------------------------------ spellings


class Sp:
    """one public spelling of one mathematical operation on one operand-class tuple"""

    __slots__ = ("family", "op", "probe", "form", "kind", "label", "fn", "shapes", "dom", "aux", "expect_ndarray")

    def __init__(self, family, op, probe, form, kind, label, fn, shapes, dom=(0.2, 0.9), aux=()):
        self.family, self.op, self.probe, self.form, self.kind, self.label = family, op, probe, form, kind, label
        self.fn, self.shapes, self.dom, self.aux = fn, shapes, dom, aux

    @property
    def key(self):
        return (self.op, self.probe, self.form)

    def ident(self):
        return {"op": self.op, "probe": self.probe, "form": self.form, "label": self.label}


BINOPS = {  # numpy ufunc name -> (symbol, dunder stem)
    "add": ("+", "add"), "subtract": ("-", "sub"), "multiply": ("*", "mul"), "divide": ("/", "truediv"),
    "power": ("**", "pow"), "matmul": ("@", "matmul"),
}
PYOP = {"+": _operator.add, "-": _operator.sub, "*": _operator.mul, "/": _operator.truediv, "**": _operator.pow,
        "@": _operator.matmul}
PYIOP = {"+": _operator.iadd, "-": _operator.isub, "*": _operator.imul, "/": _operator.itruediv, "**": _operator.ipow,
         "@": _operator.imatmul}
UNOPS = {"negative": ("-", "neg", _operator.neg), "positive": ("+", "pos", _operator.pos),
         "absolute": ("abs", "abs", _operator.abs)}

PROBES_UN = ["T", "Tc", "T32"]
PROBES_BIN = ["T,T", "T,A", "T,S", "T,Si", "A,T", "S,T", "Si,T", "Tc,Tc", "T,Tc", "T32,T32", "T32,S", "T32,Si", "T32,A", "Tc,S",
              "T,=", "T,Ti", "T32,T"]
PROBES_POW = PROBES_BIN + ["T,S2", "T,Si2", "T,S1", "T,Si1", "T32,S2", "T32,Si2", "T32,Si1", "Tc,Si2", "S2,T",
                           # exponent held in a 0-d / shape-(1,) tensor or array with value exactly 2 or 1 (and 1.5 as control)
                           "T,T0=2", "T,T0=1", "T,T0", "T,Tc0=2", "T,Tc0=1", "T,A0=2", "T,A0=1", "T,A0", "T,T1=2", "T,T1=1",
                           "T,A1=2", "Tc,T0=2", "Tc,T0=1", "T32,T0=2", "T32,A0=2", "T,N2", "T,Ni2", "T0=2,T", "A0=2,T"]
PROBES_MATMUL = ["T,T", "T,A", "A,T", "Tc,Tc", "T,Tc", "T32,T32", "T32,A"]


def ufunc_spellings():
    out = []
    for npuf, mguf in tb._REGISTERED_UFUNC.items():
        name = npuf.__name__
        dom = DOMAIN.get(name, (0.2, 0.9))
        if npuf.nin == 1:
            for probe in PROBES_UN:
                sh = [(2, 3)]
                mk = lambda form, kind, label, fn, aux=(): out.append(Sp(name, name, probe, form, kind, label, fn, sh, dom, aux))
                mk("plain", "mgFunction", f"mg.{name}(a)", lambda o, f=mguf: f(o[0]))
                mk("plain", "npUfunc", f"np.{name}(a)", lambda o, f=npuf: f(o[0]))
                if name in UNOPS and hasattr(Tensor, f"__{UNOPS[name][1]}__"):
                    sym, stem, pyf = UNOPS[name]
                    mk("plain", "operator", f"{sym}a" if sym != "abs" else "abs(a)", lambda o, f=pyf: f(o[0]))
                    mk("plain", "method", f"a.__{stem}__()", lambda o, s=stem: getattr(o[0], f"__{s}__")())
                for lab, f in ((f"mg.{name}", mguf), (f"np.{name}", npuf)):
                    k = "mgFunction" if lab.startswith("mg") else "npUfunc"
                    mk("inplace(a)", "ufuncOutTensor", f"{lab}(a,out=a)", lambda o, f=f: f(o[0], out=o[0]))
                    mk("out=Tensor", "ufuncOutTensor", f"{lab}(a,out=o)", lambda o, f=f: f(o[0], out=o[1]), ("oT",))
                    mk("out=ndarray", "ufuncOutNdarray", f"{lab}(a,out=o)", lambda o, f=f: f(o[0], out=o[1]), ("oA",))
                    mk("where=,out=ndarray", "ufuncWhere", f"{lab}(a,where=m,out=o)", lambda o, f=f: f(o[0], where=o[2], out=o[1]), ("oA", "m"))
                    mk("where=,out=Tensor", "ufuncWhere", f"{lab}(a,where=m,out=o)", lambda o, f=f: f(o[0], where=o[2], out=o[1]), ("oT", "m"))
                    for dl, D in DTYPE_KW.items():
                        if dl == "f16" and probe not in PROBES_F16:
                            continue
                        mk(f"dtype={dl}", "ufuncDtype", f"{lab}(a,dtype={dl})", lambda o, f=f, D=D: f(o[0], dtype=D))
                        mk(f"dtype={dl},out=ndarray", "ufuncDtype", f"{lab}(a,dtype={dl},out=o)", lambda o, f=f, D=D: f(o[0], dtype=D, out=o[1]), ("oA",))
                        mk(f"dtype={dl},out=Tensor", "ufuncDtype", f"{lab}(a,dtype={dl},out=o)", lambda o, f=f, D=D: f(o[0], dtype=D, out=o[1]), ("oT",))
        else:
            probes = PROBES_POW if name == "power" else PROBES_MATMUL if name == "matmul" else PROBES_BIN
            for probe in probes:
                ca, cb = probe.split(",")
                sh = [(2, 3), (3, 2)] if name == "matmul" else [(2, 3), (2, 3)]
                mk = lambda form, kind, label, fn, aux=(): out.append(Sp(name, name, probe, form, kind, label, fn, sh, dom, aux))
                mk("plain", "mgFunction", f"mg.{name}(a,b)", lambda o, f=mguf: f(o[0], o[1]))
                mk("plain", "npUfunc", f"np.{name}(a,b)", lambda o, f=npuf: f(o[0], o[1]))
                if name == "divide":
                    mk("plain", "npUfunc", "np.true_divide(a,b)", lambda o: np.true_divide(o[0], o[1]))
                if name == "absolute":
                    pass
                if name in BINOPS:
                    sym, stem = BINOPS[name]
                    mk("plain", "operator" if is_tensor_cls(ca) else "reflectedOperator", f"a{sym}b", lambda o, f=PYOP[sym]: f(o[0], o[1]))
                    if is_tensor_cls(ca) and hasattr(Tensor, f"__{stem}__"):
                        mk("plain", "method", f"a.__{stem}__(b)", lambda o, s=stem: getattr(o[0], f"__{s}__")(o[1]))
                    if is_tensor_cls(cb) and hasattr(Tensor, f"__r{stem}__"):
                        mk("plain", "reflectedOperator", f"b.__r{stem}__(a)", lambda o, s=stem: getattr(o[1], f"__r{s}__")(o[0]))
                    if is_tensor_cls(ca) and name != "matmul":
                        mk("inplace(a)", "augmentedOperator", f"a{sym}=b", lambda o, f=PYIOP[sym]: f(o[0], o[1]))
                        mk("inplace(a)", "augmentedOperator", f"a.__i{stem}__(b)", lambda o, s=stem: getattr(o[0], f"__i{s}__")(o[1]))
                has_where = isinstance(mguf, _mask_ufunc_type())
                for lab, f in ((f"mg.{name}", mguf), (f"np.{name}", npuf)):
                    if is_tensor_cls(ca) and name != "matmul":
                        mk("inplace(a)", "ufuncOutTensor", f"{lab}(a,b,out=a)", lambda o, f=f: f(o[0], o[1], out=o[0]))
                    mk("out=Tensor", "ufuncOutTensor", f"{lab}(a,b,out=o)", lambda o, f=f: f(o[0], o[1], out=o[2]), ("oT",))
                    mk("out=ndarray", "ufuncOutNdarray", f"{lab}(a,b,out=o)", lambda o, f=f: f(o[0], o[1], out=o[2]), ("oA",))
                    if has_where:
                        mk("where=,out=ndarray", "ufuncWhere", f"{lab}(a,b,where=m,out=o)", lambda o, f=f: f(o[0], o[1], where=o[3], out=o[2]), ("oA", "m"))
                        mk("where=,out=Tensor", "ufuncWhere", f"{lab}(a,b,where=m,out=o)", lambda o, f=f: f(o[0], o[1], where=o[3], out=o[2]), ("oT", "m"))
                    for dl, D in DTYPE_KW.items():
                        if dl == "f16" and probe not in PROBES_F16:
                            continue
                        mk(f"dtype={dl}", "ufuncDtype", f"{lab}(a,b,dtype={dl})", lambda o, f=f, D=D: f(o[0], o[1], dtype=D))
                        mk(f"dtype={dl},out=ndarray", "ufuncDtype", f"{lab}(a,b,dtype={dl},out=o)", lambda o, f=f, D=D: f(o[0], o[1], dtype=D, out=o[2]), ("oA",))
                        mk(f"dtype={dl},out=Tensor", "ufuncDtype", f"{lab}(a,b,dtype={dl},out=o)", lambda o, f=f, D=D: f(o[0], o[1], dtype=D, out=o[2]), ("oT",))
    return out


def _mask_ufunc_type():
    from mygrad.ufuncs._ufunc_creators import MyGradBinaryUfunc

    return MyGradBinaryUfunc


# ---- __array_function__ overrides: per numpy function, the option variants probed ------------------------------------
# Each variant: (label, nops, shapes, call(f, o) -> result, mcall(o) -> result | None)


def _red(method, ddof=False):
    vs = [
        ("", lambda f, o: f(o[0]), lambda o: getattr(o[0], method)()),
        ("axis=0", lambda f, o: f(o[0], axis=0), lambda o: getattr(o[0], method)(axis=0)),
        ("axis=1(pos)", lambda f, o: f(o[0], 1), lambda o: getattr(o[0], method)(1)),
        ("axis=-1,keepdims=True", lambda f, o: f(o[0], axis=-1, keepdims=True), lambda o: getattr(o[0], method)(axis=-1, keepdims=True)),
        ("axis=(0,1)", lambda f, o: f(o[0], axis=(0, 1)), lambda o: getattr(o[0], method)(axis=(0, 1))),
        ("keepdims=True", lambda f, o: f(o[0], keepdims=True), lambda o: getattr(o[0], method)(keepdims=True)),
    ]
    if ddof:
        vs.append(("axis=0,ddof=1", lambda f, o: f(o[0], axis=0, ddof=1), lambda o: getattr(o[0], method)(axis=0, ddof=1)))
    return [(lab, 1, [(2, 3)], c, m if method and hasattr(Tensor, method) else None) for lab, c, m in vs]


def _cum(method):
    vs = [("", lambda f, o: f(o[0]), lambda o: getattr(o[0], method)()),
          ("axis=0", lambda f, o: f(o[0], axis=0), lambda o: getattr(o[0], method)(axis=0)),
          ("axis=-1(pos)", lambda f, o: f(o[0], -1), lambda o: getattr(o[0], method)(-1))]
    return [(lab, 1, [(2, 3)], c, m) for lab, c, m in vs]


def _simple(vs, shapes=((2, 3),), nops=1):
    return [(lab, nops, list(shapes), c, m) for lab, c, m in vs]


def func_specs():
    S = {}
    for n in ("sum", "prod", "mean", "max", "min", "amax", "amin"):
        S[n] = _red({"amax": "max", "amin": "min"}.get(n, n))
    for n in ("std", "var"):
        S[n] = _red(n, ddof=True)
    for n in ("cumsum", "cumprod"):
        S[n] = _cum(n)
    S["reshape"] = _simple([
        ("(3,2)", lambda f, o: f(o[0], (3, 2)), lambda o: o[0].reshape((3, 2))),
        ("(-1,)", lambda f, o: f(o[0], (-1,)), lambda o: o[0].reshape((-1,))),
        ("6", lambda f, o: f(o[0], 6), lambda o: o[0].reshape(6)),
    ])
    S["transpose"] = _simple([
        ("", lambda f, o: f(o[0]), lambda o: o[0].transpose()),
        ("(1,0)", lambda f, o: f(o[0], (1, 0)), lambda o: o[0].transpose((1, 0))),
        ("(0,1)", lambda f, o: f(o[0], (0, 1)), lambda o: o[0].transpose((0, 1))),
    ])
    S["swapaxes"] = _simple([("0,1", lambda f, o: f(o[0], 0, 1), lambda o: o[0].swapaxes(0, 1)),
                             ("-1,0", lambda f, o: f(o[0], -1, 0), lambda o: o[0].swapaxes(-1, 0))])
    S["moveaxis"] = _simple([("0,-1", lambda f, o: f(o[0], 0, -1), lambda o: o[0].moveaxis(0, -1)),
                             ("(0,1),(1,0)", lambda f, o: f(o[0], (0, 1), (1, 0)), lambda o: o[0].moveaxis((0, 1), (1, 0)))])
    S["squeeze"] = _simple([("", lambda f, o: f(o[0]), lambda o: o[0].squeeze()),
                            ("axis=0", lambda f, o: f(o[0], axis=0), lambda o: o[0].squeeze(axis=0)),
                            ("axis=0(pos)", lambda f, o: f(o[0], 0), lambda o: o[0].squeeze(0))], shapes=((1, 3, 1),))
    S["ravel"] = _simple([("", lambda f, o: f(o[0]), lambda o: o[0].ravel())])
    S["expand_dims"] = _simple([("0", lambda f, o: f(o[0], 0), None), ("axis=-1", lambda f, o: f(o[0], axis=-1), None)])
    S["broadcast_to"] = _simple([("(2,2,3)", lambda f, o: f(o[0], (2, 2, 3)), None)])
    S["repeat"] = _simple([("2", lambda f, o: f(o[0], 2), None), ("2,axis=0", lambda f, o: f(o[0], 2, axis=0), None),
                           ("[1,2],axis=0", lambda f, o: f(o[0], [1, 2], axis=0), None)])
    S["roll"] = _simple([("1", lambda f, o: f(o[0], 1), None), ("1,axis=0", lambda f, o: f(o[0], 1, axis=0), None),
                         ("(1,2),axis=(0,1)", lambda f, o: f(o[0], (1, 2), axis=(0, 1)), None)])
    for n in ("atleast_1d", "atleast_2d", "atleast_3d"):
        S[n] = _simple([("", lambda f, o: f(o[0]), None)], shapes=((3,),))
    S["concatenate"] = _simple([("[a,b]", lambda f, o: f([o[0], o[1]]), None),
                                ("[a,b],axis=1", lambda f, o: f([o[0], o[1]], axis=1), None),
                                ("(a,b),axis=None", lambda f, o: f((o[0], o[1]), axis=None), None)], shapes=((2, 3), (2, 3)), nops=2)
    S["stack"] = _simple([("[a,b]", lambda f, o: f([o[0], o[1]]), None),
                          ("[a,b],axis=-1", lambda f, o: f([o[0], o[1]], axis=-1), None)], shapes=((2, 3), (2, 3)), nops=2)
    S["einsum"] = _simple([("'ij,ij->i',a,b", lambda f, o: f("ij,ij->i", o[0], o[1]), None),
                           ("'ij,kj->ik',a,b", lambda f, o: f("ij,kj->ik", o[0], o[1]), None),
                           ("'ij,ij',a,b,optimize=True", lambda f, o: f("ij,ij", o[0], o[1], optimize=True), None)],
                          shapes=((2, 3), (2, 3)), nops=2)
    S["where"] = _simple([("c,a,b", lambda f, o: f(_COND, o[0], o[1]), None)], shapes=((2, 3), (2, 3)), nops=2)
    S["clip"] = _simple([
        ("0.4,0.7", lambda f, o: f(o[0], 0.4, 0.7), lambda o: o[0].clip(0.4, 0.7)),
        ("0.4,None", lambda f, o: f(o[0], 0.4, None), lambda o: o[0].clip(0.4, None)),
        ("None,0.7", lambda f, o: f(o[0], None, 0.7), lambda o: o[0].clip(None, 0.7)),
        ("a_min=0.4,a_max=0.7", lambda f, o: f(o[0], a_min=0.4, a_max=0.7), lambda o: o[0].clip(a_min=0.4, a_max=0.7)),
    ])
    S["norm"] = _simple([("", lambda f, o: f(o[0]), None), ("ord=2,axis=1", lambda f, o: f(o[0], ord=2, axis=1), None),
                         ("axis=0,keepdims=True", lambda f, o: f(o[0], axis=0, keepdims=True), None)])
    for n in ("zeros_like", "ones_like", "empty_like"):
        S[n] = _simple([("", lambda f, o: f(o[0]), None), ("dtype=f32", lambda f, o: f(o[0], dtype=np.float32), None),
                        ("shape=(2,)", lambda f, o: f(o[0], shape=(2,)), None)])
    S["full_like"] = _simple([("2.0", lambda f, o: f(o[0], 2.0), None), ("3,dtype=f32", lambda f, o: f(o[0], 3, dtype=np.float32), None)])
    S["any"] = _simple([("", lambda f, o: f(o[0]), lambda o: o[0].any()), ("axis=0", lambda f, o: f(o[0], axis=0), lambda o: o[0].any(axis=0)),
                        ("axis=1,keepdims=True", lambda f, o: f(o[0], axis=1, keepdims=True), lambda o: o[0].any(axis=1, keepdims=True))])
    for n in ("argmax", "argmin"):
        S[n] = _simple([("", lambda f, o: f(o[0]), lambda o, n=n: getattr(o[0], n)()),
                        ("axis=0", lambda f, o: f(o[0], axis=0), lambda o, n=n: getattr(o[0], n)(axis=0)),
                        ("1(pos)", lambda f, o: f(o[0], 1), lambda o, n=n: getattr(o[0], n)(1))])
    return S


_COND = np.array([[True, False, True], [False, False, True]])
FAMILY_UFUNCS = [np.floor, np.ceil, np.rint, np.trunc, np.remainder, np.mod, np.fmod, np.floor_divide, np.divmod]
NDARRAY_RESULT = {"any", "argmax", "argmin"}  # registered as overrides but non-differentiable: must return plain arrays
PROBES_FN1 = ["T", "Tc", "T32"]
PROBES_FN2 = ["T,T", "T,A", "A,T", "Tc,Tc", "T,Tc", "T32,T"]


def function_spellings():
    out, missing = [], []
    specs = func_specs()
    for npf, mgf in tb._REGISTERED_DIFFERENTIABLE_NUMPY_FUNCS.items():
        nname = npf.__name__
        if nname not in specs:
            missing.append(nname)
            continue
        family = mgf.__name__
        for (vlab, nops, shapes, call, mcall) in specs[nname]:
            opname = f"{family}[{vlab}]" if vlab else family
            for probe in (PROBES_FN1 if nops == 1 else PROBES_FN2):
                mk = lambda form, kind, label, fn, aux=(): out.append(Sp(family, opname, probe, form, kind, label, fn, shapes, (0.2, 0.9), aux))
                arglab = vlab if vlab else ""
                pre = "a" if nops == 1 and not vlab.startswith(("[", "(a", "'", "c,")) else ""
                sig = ",".join(x for x in (pre, arglab) if x)
                if nname == family or nname not in ("amax", "amin"):
                    mk("plain", "mgFunction", f"mg.{family}({sig})", lambda o, c=call, f=mgf: c(f, o))
                mk("plain", "npFunction", f"np.{'linalg.' if nname == 'norm' else ''}{nname}({sig})", lambda o, c=call, f=npf: c(f, o))
                if mcall is not None:
                    mk("plain", "method", f"a.{family}({arglab})", lambda o, m=mcall: m(o))
                if nname == "transpose" and vlab == "":
                    mk("plain", "method", "a.T", lambda o: o[0].T)
                if nname == "transpose" and vlab == "(1,0)":
                    mk("plain", "method", "a.transpose(1,0)", lambda o: o[0].transpose(1, 0))
                    mk("plain", "mgFunction", "mg.transpose(a,1,0)", lambda o: mg.transpose(o[0], 1, 0))
                if nname == "reshape" and vlab == "(3,2)":
                    mk("plain", "method", "a.reshape(3,2)", lambda o: o[0].reshape(3, 2))
                if nname == "clip" and vlab == "0.4,0.7":
                    mk("plain", "mgFunction", "mg.minimum(0.7,mg.maximum(0.4,a))", lambda o: mg.minimum(0.7, mg.maximum(0.4, o[0])))
                    for lab, f in (("mg.clip", mgf), ("np.clip", npf)):
                        mk("out=Tensor", "ufuncOutTensor", f"{lab}(a,0.4,0.7,out=o)", lambda o, f=f: f(o[0], 0.4, 0.7, out=o[1]), ("oT",))
                        mk("out=ndarray", "ufuncOutNdarray", f"{lab}(a,0.4,0.7,out=o)", lambda o, f=f: f(o[0], 0.4, 0.7, out=o[1]), ("oA",))
                    mk("out=Tensor", "method", "a.clip(0.4,0.7,out=o)", lambda o: o[0].clip(0.4, 0.7, out=o[1]), ("oT",))
                if nname == "clip" and vlab in ("0.4,None", "None,0.7"):
                    lo, hi = (0.4, None) if vlab == "0.4,None" else (None, 0.7)
                    for lab, f in (("mg.clip", mgf), ("np.clip", npf)):
                        mk("out=Tensor", "ufuncOutTensor", f"{lab}(a,{vlab},out=o)", lambda o, f=f, lo=lo, hi=hi: f(o[0], lo, hi, out=o[1]), ("oT",))
                        mk("out=ndarray", "ufuncOutNdarray", f"{lab}(a,{vlab},out=o)", lambda o, f=f, lo=lo, hi=hi: f(o[0], lo, hi, out=o[1]), ("oA",))
                    mk("out=Tensor", "method", f"a.clip({vlab},out=o)", lambda o, lo=lo, hi=hi: o[0].clip(lo, hi, out=o[1]), ("oT",))
                if nname in ("concatenate", "stack") and "axis" not in vlab:
                    for lab, f in ((f"mg.{family}", mgf), (f"np.{nname}", npf)):
                        mk("out=Tensor", "ufuncOutTensor", f"{lab}([a,b],out=o)", lambda o, f=f: f([o[0], o[1]], out=o[2]), ("oT*",))
                        mk("out=ndarray", "ufuncOutNdarray", f"{lab}([a,b],out=o)", lambda o, f=f: f([o[0], o[1]], out=o[2]), ("oA*",))
                if nname == "einsum" and vlab.startswith("'ij,ij->i'"):
                    for lab, f in (("mg.einsum", mgf), ("np.einsum", npf)):
                        mk("out=Tensor", "ufuncOutTensor", f"{lab}('ij,ij->i',a,b,out=o)", lambda o, f=f: f("ij,ij->i", o[0], o[1], out=o[2]), ("oT*",))
                        mk("out=ndarray", "ufuncOutNdarray", f"{lab}('ij,ij->i',a,b,out=o)", lambda o, f=f: f("ij,ij->i", o[0], o[1], out=o[2]), ("oA*",))
    return out, missing


def all_spellings():
    fs, missing = function_spellings()
    sps = ufunc_spellings() + fs
    # canonical order (independent of the registration order): the mg function is the reference spelling of each group
    sps.sort(key=lambda sp: (sp.op, sp.probe, FORMS.index(sp.form), KINDS.index(sp.kind), sp.label))
    return sps, sorted(missing)


# ------------------------------------------------------------------------------------------ building operands for a spelling


def build_ops(sp: Sp, seed):
    """fresh operand objects for `sp`; deterministic in (operation, probe, seed) — NOT in the spelling, so that every
    spelling of a group sees the same values.  Returns (ops, leaves) where leaves[i] is the tensor whose .grad is read."""
    rng = random.Random(f"c11:{sp.op}:{sp.probe}:{seed}")
    classes = sp.probe.split(",")
    shapes = list(sp.shapes)
    for i, c in enumerate(classes):
        if c in FIXED:
            shapes[i] = FIXED[c][2]
    if seed % 2 == 1 and len(classes) == 2 and sp.family not in ("matmul", "concatenate", "stack", "einsum", "where") \
            and not any(c in SCALARS or c in FIXED for c in classes):
        shapes = [shapes[0], shapes[1][-1:]]  # broadcasting second operand
    ops, leaves = [], []
    for c, s in zip(classes, shapes):
        if c == "=":  # the same tensor object twice
            ops.append(ops[0])
            leaves.append(None)
            continue
        x = make_operand(c, rng, s, sp.dom)
        leaves.append(x if isinstance(x, Tensor) else None)
        ops.append(x)
    if sp.form == "inplace(a)" and isinstance(ops[0], Tensor):
        ops[0] = +ops[0]  # mutate a non-leaf so that the gradient of the pre-mutation value stays observable on the leaf
        for i, c in enumerate(classes):
            if c == "=":
                ops[i] = ops[0]
    # aux operands: out targets and masks (same values for every spelling of the group)
    res_shape, res_dtype = None, None
    for a in sp.aux:
        if a == "m":
            m = np.array([rng.random() < 0.6 for _ in range(int(np.prod(_bshape(sp, shapes))))]).reshape(_bshape(sp, shapes))
            ops.append(m)
        else:
            shp = _bshape(sp, shapes) if not a.endswith("*") else None
            if shp is None:  # result shape of a joining op: compute with numpy on raw data
                raw = [o.data if isinstance(o, Tensor) else o for o in ops[:len(classes)]]
                shp = {"concatenate": lambda: np.concatenate(raw).shape, "stack": lambda: np.stack(raw).shape,
                       "einsum": lambda: np.einsum("ij,ij->i", *raw).shape}[sp.family]()
            fill = _arr(rng, shp, 5.0, 6.0, np.float64)
            ops.append(mg.tensor(fill) if a.startswith("oT") else fill)
    return ops, leaves


def _bshape(sp, shapes):
    if sp.family == "matmul":
        return (shapes[0][0], shapes[1][1])
    return np.broadcast_shapes(*[s for s, c in zip(shapes, sp.probe.split(",")) if c not in SCALARS])


# ------------------------------------------------------------------------------------------ the spy (translator tie)


class Spy:
    def __init__(self):
        self.depth = 0
        self.log = []

    def __enter__(self):
        self.orig_op = Tensor.__dict__["_op"]
        self.orig_ip = Tensor.__dict__["_in_place_op"]
        orig_op = self.orig_op.__func__
        orig_ip = self.orig_ip
        spy = self

        def spy_op(cls, Op, *iv, op_args=None, op_kwargs=None, constant=None, out=None):
            rec = None
            if spy.depth == 0:
                rec = {"target": Op, "iv": iv, "args": op_args, "kwargs": op_kwargs, "inplace": False, "out": out, "on": None}
                spy.log.append(rec)
            spy.depth += 1
            try:
                r = orig_op(cls, Op, *iv, op_args=op_args, op_kwargs=op_kwargs, constant=constant, out=out)
            finally:
                spy.depth -= 1
            if rec is not None:
                rec["result"] = r
            return r

        def spy_ip(self_, Op, *iv, op_args=None, op_kwargs=None, constant=None):
            rec = None
            if spy.depth == 0:
                rec = {"target": Op, "iv": iv, "args": op_args, "kwargs": op_kwargs, "inplace": True, "out": None, "on": self_}
                spy.log.append(rec)
            spy.depth += 1
            try:
                r = orig_ip(self_, Op, *iv, op_args=op_args, op_kwargs=op_kwargs, constant=constant)
            finally:
                spy.depth -= 1
            if rec is not None:
                rec["result"] = self_
            return r

        Tensor._op = classmethod(spy_op)
        Tensor._in_place_op = spy_ip
        return self

    def __exit__(self, *a):
        Tensor._op = self.orig_op
        Tensor._in_place_op = self.orig_ip


def _num_milli(v):
    return int(round(float(v) * 1000))


def _arg_of(v, ops, results):
    if isinstance(v, (numbers.Number, np.number)) and not isinstance(v, bool):
        return ("lit", _num_milli(v))  # Python scalars are recorded by value (x**2 vs power(x, 2))
    if isinstance(v, np.ndarray) and v.ndim == 0 and v.dtype.kind in "fiu":
        return ("lit", _num_milli(v))  # ... and so are 0-d arrays (Tensor.__pow__ looks at their value)
    for k, r in enumerate(results):
        if v is r:
            return ("result", k)
    for i, o in enumerate(ops):
        if v is o:
            return ("arg", i)
    if isinstance(v, (numbers.Number, np.number)) and not isinstance(v, bool):
        return ("lit", _num_milli(v))
    if isinstance(v, np.ndarray) and v.ndim == 0:
        return ("lit", _num_milli(v))
    if isinstance(v, np.ndarray) and v.dtype == bool and v.shape == _COND.shape and np.array_equal(v, _COND):
        return ("other", "cond")
    return ("other", f"<{type(v).__name__}>")


def _opt_repr(v, ops, name=None):
    if name in ("newshape", "shape") and isinstance(v, (int, np.integer)):
        v = (int(v),)  # NumPy: an int where a shape is expected is the 1-tuple
    for i, o in enumerate(ops):
        if v is o:
            return "abomxyz"[i] if i < 7 else f"arg{i}"
    if v is None or isinstance(v, (bool, int, float, str)):
        return repr(v)
    if isinstance(v, (tuple, list)):
        return ("(" if isinstance(v, tuple) else "[") + ",".join(_opt_repr(x, ops) for x in v) + \
            (("," if len(v) == 1 else "") + ")" if isinstance(v, tuple) else "]")
    if isinstance(v, type) and issubclass(v, np.generic):
        return np.dtype(v).name
    if isinstance(v, np.dtype):
        return v.name
    if isinstance(v, np.ndarray):
        return f"<ndarray {v.dtype.name} {v.shape}>"
    if isinstance(v, Tensor):
        return "<Tensor>"
    if v is getattr(inspect, "_empty", None):
        return "<empty>"
    return f"<{type(v).__name__}:{v!r}>"[:60]


def normalise_options(rec, ops):
    """arguments of Operation.__call__ other than the tensor inputs, minus those equal to their declared defaults"""
    Op = rec["target"]
    args = tuple(rec["args"] or ())
    kwargs = dict(rec["kwargs"] or {})
    opts = []
    try:
        sig = inspect.signature(Op.__call__)
        params = list(sig.parameters.values())[1:]  # drop self
        n_in = len(rec["iv"])
        var_pos = any(p.kind is p.VAR_POSITIONAL for p in params)
        if var_pos:
            raise TypeError("varargs")
        ba = sig.bind(None, *([None] * n_in), *args, **kwargs)
        pos_names = [p.name for p in params]
        for name, val in ba.arguments.items():
            if name == "self" or name in pos_names[:n_in]:
                continue
            p = sig.parameters[name]
            if p.kind is p.VAR_KEYWORD:
                for k, v in val.items():
                    opts.append(f"{k}={_opt_repr(v, ops)}")
                continue
            if p.default is not p.empty and _same_default(val, p.default):
                continue
            opts.append(f"{name}={_opt_repr(val, ops, name)}")
    except TypeError:
        opts = [f"arg{i}={_opt_repr(v, ops)}" for i, v in enumerate(args)] + [f"{k}={_opt_repr(v, ops)}" for k, v in kwargs.items()]
    if rec["inplace"]:
        opts.append("@inplace-on=" + _opt_repr(rec["on"], ops))
    if rec["out"] is not None:
        opts.append("@out=" + ("ndarray" if isinstance(rec["out"], np.ndarray) else type(rec["out"]).__name__) + ":" + _opt_repr(rec["out"], ops).replace("<ndarray float64 ", "<"))
    return sorted(opts)


def _same_default(val, default):
    try:
        if val is default:
            return True
        if isinstance(val, (np.ndarray, Tensor)) or isinstance(default, (np.ndarray, Tensor)):
            return False
        return type(val) is type(default) and bool(val == default)
    except Exception:
        return False


def record_route(sp: Sp):
    """run the spelling once under the spy on fixed probe operands"""
    ops, _ = build_ops(sp, 0)
    with Spy() as spy:
        try:
            sp.fn(ops)
            exc = None
        except Exception as e:  # noqa
            exc = type(e).__name__
        log = list(spy.log)
    calls, results = [], []
    for rec in log:
        calls.append({
            "target": rec["target"].__name__,
            "operands": [_arg_of(v, ops, results) for v in rec["iv"]],
            "options": normalise_options(rec, ops),
            "inplace": rec["inplace"],
        })
        results.append(rec.get("result"))
    return {"calls": calls, "exc": exc}


# ------------------------------------------------------------------------------------------ registry behaviour tables


def _fresh(const, dtype=np.float64, ints=False, second=False):
    if ints:
        return mg.tensor(np.array([1, 2, 2, 3]))
    v = [[2.0, 0.5, -1.0], [1.5, 3.0, 0.25]] if second else [[0.5, -1.5, 2.25], [1.0, 0.0, -0.75]]
    return mg.tensor(np.array(v, dtype=dtype), constant=const)


def _call_registry_fn(f, const, use_raw=False):
    """call a bool-only / const-only ufunc or a no-diff function on tensors (or on the raw arrays: NumPy's own answer)"""
    un = (lambda x: x.data) if use_raw else (lambda x: x)
    a, b = _fresh(const), _fresh(const, second=True)
    name = f.__name__
    if isinstance(f, np.ufunc):
        if name == "isnat":
            return f(un(a))
        return f(un(a)) if f.nin == 1 else f(un(a), un(b))
    if name == "bincount":
        return f(un(_fresh(True, ints=True)))
    if name == "can_cast":
        return f(un(a), np.float32)
    if name == "copyto":
        dst = _fresh(True)
        f(un(dst), un(a))
        return un(dst) if use_raw else dst.data
    if name in ("min_scalar_type", "shape"):
        return f(un(a))
    if name == "result_type":
        return f(un(a), np.float32)
    if name in ("allclose", "isclose", "may_share_memory", "shares_memory"):
        return f(un(a), un(b))
    if name in ("any", "argmax", "argmin"):
        return f(un(a))
    raise KeyError(name)


def _same_plain(x, y):
    if isinstance(x, tuple) and isinstance(y, tuple):
        return len(x) == len(y) and all(_same_plain(p, q) for p, q in zip(x, y))
    if isinstance(x, np.ndarray) or isinstance(y, np.ndarray):
        return isinstance(x, np.ndarray) and isinstance(y, np.ndarray) and x.dtype == y.dtype and x.shape == y.shape and \
            np.array_equal(x, y, equal_nan=True)
    return type(x) is type(y) and x == y


def _has_tensor(x):
    if isinstance(x, Tensor):
        return True
    if isinstance(x, (tuple, list)):
        return any(_has_tensor(i) for i in x)
    return False


def registry_behaviour():
    """observed behaviour of every member of the registry sets (recorded into the table; also the oracle's facts)"""
    res = {"boolOnly": [], "constOnly": [], "noDiff": [], "raisesOnNonConstant": [], "worksOnConstant": [],
           "returnsNdarray": [], "details": {}, "family_details": {}, "unknown": []}
    nodiff = list(tb._REGISTERED_NO_DIFF_NUMPY_FUNCS) + [f for f in tb._REGISTERED_DIFFERENTIABLE_NUMPY_FUNCS if f.__name__ in NDARRAY_RESULT]
    res["boolOnly"] = sorted(f.__name__ for f in tb._REGISTERED_BOOL_ONLY_UFUNC)
    res["constOnly"] = sorted(f.__name__ for f in tb._REGISTERED_CONST_ONLY_UFUNC)
    res["noDiff"] = sorted(f.__name__ for f in nodiff)
    # the family is anchored here, independently of the registry (a member dropped from the registry is still checked)
    family = {f.__name__: f for f in list(FAMILY_UFUNCS) + list(tb._REGISTERED_CONST_ONLY_UFUNC)}
    res["family"] = sorted(family)
    for f in family.values():
        d = {}
        try:
            r = _call_registry_fn(f, const=False)
            d["nonconst"] = "returned:" + type(r).__name__
        except Exception as e:  # noqa  — any error is a refusal
            d["nonconst"] = type(e).__name__
            res["raisesOnNonConstant"].append(f.__name__)
        try:
            r = _call_registry_fn(f, const=True)
            ref = _call_registry_fn(f, const=True, use_raw=True)
            d["const"] = "ok" if (not _has_tensor(r) and _same_plain(r, ref)) else "differs-from-numpy"
            if d["const"] == "ok":
                res["worksOnConstant"].append(f.__name__)
        except Exception as e:  # noqa
            d["const"] = type(e).__name__
        res["family_details"][f.__name__] = d
    for f in list(tb._REGISTERED_BOOL_ONLY_UFUNC) + nodiff:
        d = {}
        for const in (False, True):
            key = "const" if const else "nonconst"
            try:
                ref = _call_registry_fn(f, const, use_raw=True)
                ref_exc = None
            except KeyError:
                res["unknown"].append(f.__name__)
                d[key] = "no-probe"
                continue
            except Exception as e:  # noqa
                ref, ref_exc = None, type(e).__name__
            try:
                r = _call_registry_fn(f, const)
                if ref_exc is not None:
                    d[key] = f"numpy-raises-{ref_exc}-mygrad-returns"
                elif _has_tensor(r):
                    d[key] = "returns-Tensor"
                elif not _same_plain(r, ref):
                    d[key] = "differs-from-numpy"
                else:
                    d[key] = "ok"
            except Exception as e:  # noqa
                d[key] = "ok" if type(e).__name__ == ref_exc else f"raises-{type(e).__name__}"
        if all(v == "ok" for v in d.values()):
            res["returnsNdarray"].append(f.__name__)
        res["details"][f.__name__] = d
    for k in ("raisesOnNonConstant", "worksOnConstant", "returnsNdarray", "unknown"):
        res[k] = sorted(set(res[k]))
    return res


# ------------------------------------------------------------------------------------------ regen: Gen/Tables.lean


def _ident(s):
    return "".join(ch if ch.isalnum() or ch == "_" else "_" for ch in s)


def build_table():
    sps, missing = all_spellings()
    routes = [(sp, record_route(sp)) for sp in sps]
    return sps, routes, missing, registry_behaviour()


def render_table(routes, missing, reg):
    ops = sorted({sp.op for sp, _ in routes})
    probes = sorted({sp.probe for sp, _ in routes})
    spellings = sorted({sp.label for sp, _ in routes})
    targets = sorted({c["target"] for _, r in routes for c in r["calls"]} | {"Square", "Power", "Positive", "Transpose", "Tensor_Transpose_Property"})
    options = sorted({o for _, r in routes for c in r["calls"] for o in c["options"]})
    others = sorted({a[1] for _, r in routes for c in r["calls"] for a in c["operands"] if a[0] == "other"})
    fns = sorted(set(reg["boolOnly"]) | set(reg["constOnly"]) | set(reg["noDiff"]) | set(reg["family"]))
    ix = lambda l: {v: i for i, v in enumerate(l)}
    OP, PR, SPL, TG, OPT, OTH, FN = ix(ops), ix(probes), ix(spellings), ix(targets), ix(options), ix(others), ix(fns)
    assert len(probes) < 128 and len(FORMS) < 16

    def arg(a):
        return {"arg": f"Arg.arg {a[1]}", "result": f"Arg.result {a[1]}", "lit": f"Arg.lit ({a[1]})", "other": f"Arg.other {OTH.get(a[1], 0)}"}[a[0]]

    def call(c):
        return (f"Call.mk (CallSig.mk {TG[c['target']]} [{', '.join(arg(a) for a in c['operands'])}] "
                f"[{', '.join(str(OPT[o]) for o in c['options'])}]) {'true' if c['inplace'] else 'false'}")

    groups = {}
    for sp, r in routes:
        groups.setdefault((OP[sp.op], PR[sp.probe], FORMS.index(sp.form)), []).append((sp, r))
    L = []
    L.append("import MG.Core.Routes")
    L.append("/-! GENERATED by harness/props/c11.py (`regen`) from the current /repo — do not edit.")
    L.append("")
    L.append("The route of every public spelling of every registered ufunc, `__array_function__` override and operator dunder,")
    L.append("recorded by a spy around `Tensor._op` / `Tensor._in_place_op`; and the registry sets with their observed behaviour. -/")
    L.append("namespace MG.Gen.Tables")
    L.append("open MG.Routes")
    L.append("")

    def names(nm, l):
        L.append(f"def {nm} : List String := [" + ", ".join('"' + s.replace('\\', '\\\\').replace('"', '\\"') + '"' for s in l) + "]")

    names("opNames", ops)
    names("probeNames", probes)
    names("formNames", FORMS)
    names("spellingNames", spellings)
    names("targetNames", targets)
    names("optionNames", options)
    names("otherNames", others)
    names("fnNames", fns)
    L.append("")
    L.append("namespace Target")
    for t in targets:
        L.append(f"def {_ident(t)} : Nat := {TG[t]}")
    L.append("end Target")
    L.append("namespace Fn")
    for f in fns:
        L.append(f"def f_{_ident(f)} : Nat := {FN[f]}")
    L.append("end Fn")
    L.append("")
    for nm in ("boolOnly", "constOnly", "noDiff", "raisesOnNonConstant", "worksOnConstant", "returnsNdarray"):
        L.append(f"/-- {nm}: " + ", ".join(reg[nm]) + " -/")
        L.append(f"def {nm} : List Nat := [" + ", ".join(str(FN[f]) for f in reg[nm]) + "]")
    L.append("")
    L.append("/-- options that only name the target of the write (`@inplace-on=…`, `@out=…`), not an argument of the computation -/")
    L.append("def markerOptions : List Nat := [" + ", ".join(str(OPT[o]) for o in options if o.startswith("@")) + "]")
    L.append("/-- family of each form: 0 no extra keyword (plain / augmented / out=), 1 where=, 2 dtype=float32, 3 dtype=float16 -/")
    L.append("def formFamily : List Nat := [" + ", ".join(str(form_family(f)) for f in FORMS) + "]")
    L.append("")
    L.append(f"/-- registered `__array_function__` overrides for which the harness has no probe (must be empty) -/")
    names("unprobedOverrides", sorted(missing))
    L.append("")
    by_op = {}
    for key in sorted(groups):
        by_op.setdefault((key[0], key[1]), []).append(key)
    tnames = []
    for ti, (opk, keys) in enumerate(sorted(by_op.items())):
        tnames.append(f"t{ti}")
        L.append(f"-- {ops[opk[0]]} | {probes[opk[1]]}")
        L.append(f"def t{ti} : List (List Route) := [")
        blocks = []
        for key in keys:
            o, p, f = key
            rows = []
            for sp, r in groups[key]:
                rows.append(f"   /- {sp.label}{' !' + r['exc'] if r['exc'] else ''} -/ Route.mk {o} {p} {f} .{sp.kind} {SPL[sp.label]} [{', '.join(call(c) for c in r['calls'])}]")
            blocks.append(f"  /- {FORMS[f]} -/ [\n" + ",\n".join(rows) + "]")
        L.append(",\n".join(blocks) + "]")
    L.append("")
    L.append("/-- routes grouped by (operation, operand classes), then by form; keys strictly increasing -/")
    L.append("def table : List (List (List Route)) := [" + ", ".join(tnames) + "]")
    L.append("")
    L.append("/-- one group per (operation, operand classes, form) -/")
    L.append("def groups : List (List Route) := table.flatten")
    L.append("/-- one group per (operation, operand classes) -/")
    L.append("def opGroups : List (List Route) := table.map List.flatten")
    L.append("def routes : List Route := groups.flatten")
    L.append("")
    L.append("end MG.Gen.Tables")
    return "\n".join(L) + "\n"


def form_family(form):
    return 1 if form.startswith("where=") else 2 if form.startswith("dtype=f32") else 3 if form.startswith("dtype=f16") else 0


_CACHE = {}


def regen(ctx=None):
    sps, routes, missing, reg = build_table()
    txt = render_table(routes, missing, reg)
    TABLES.parent.mkdir(parents=True, exist_ok=True)
    if not TABLES.exists() or TABLES.read_text() != txt:
        TABLES.write_text(txt)
    _CACHE["routes"] = routes
    _CACHE["missing"] = missing
    _CACHE["reg"] = reg
    return routes, missing, reg


# ------------------------------------------------------------------------------------------ the direct oracle


def _bits(a):
    a = np.asarray(a)
    return (a.dtype.name, tuple(a.shape), np.ascontiguousarray(a).tobytes())


def execute(sp: Sp, seed):
    """run one spelling on fresh operands; -> comparable record"""
    ops, leaves = build_ops(sp, seed)
    rec = {}
    try:
        r = sp.fn(ops)
    except Exception as e:  # noqa
        return {"exc": type(e).__name__, "msg": str(e)[:120]}
    rec["exc"] = None
    rec["type"] = "Tensor" if isinstance(r, Tensor) else type(r).__name__
    if isinstance(r, (list, tuple)):
        r = r[0]
    if isinstance(r, Tensor):
        b = _bits(r.data)
        rec["dtype"], rec["shape"], rec["value"] = b[0], b[1], b
        rec["constant"] = bool(r.constant)
        tgt = [o for o, a in zip(ops[len(leaves):], sp.aux) if a.startswith("oT")]
        if sp.form == "inplace(a)":
            rec["returns-target"] = r is ops[0]
        elif tgt:
            rec["returns-target"] = r is tgt[0]
            rec["target-state"] = (_bits(tgt[0].data), bool(tgt[0].constant), tgt[0].creator is not None)
        elif any(a.startswith("oA") for a in sp.aux):
            o = [o for o, a in zip(ops[len(leaves):], sp.aux) if a.startswith("oA")][0]
            rec["returns-target"] = bool(np.shares_memory(r.data, o))
            rec["target-state"] = _bits(o)
        if sp.family in ("empty_like",):
            rec["value"] = None  # uninitialised memory
        if not r.constant:
            rng = random.Random(f"c11g:{sp.op}:{sp.probe}:{seed}")
            G = np.array([rng.uniform(-1, 1) for _ in range(r.size)]).reshape(r.shape)
            try:
                r.backward(G)
                for i, lf in enumerate(leaves):
                    if lf is not None:
                        rec[f"grad[{'ab'[i]}]"] = None if lf.grad is None else _bits(lf.grad)
                for o, a in zip(ops[len(leaves):], sp.aux):
                    if a.startswith("oT") and o is not r:
                        rec["grad[o]"] = None if o.grad is None else _bits(o.grad)
            except Exception as e:  # noqa
                rec["backward-exc"] = type(e).__name__
    elif isinstance(r, np.ndarray) or isinstance(r, np.generic):
        b = _bits(r)
        rec["dtype"], rec["shape"], rec["value"] = b[0], b[1], b
    else:
        rec["value"] = repr(r)
    return rec


DIFF_ORDER = ["exc", "type", "dtype", "shape", "constant", "value", "returns-target", "target-state", "backward-exc",
              "grad[a]", "grad[b]", "grad[o]"]


def diff(ref, other):
    for k in DIFF_ORDER:
        if ref.get(k) != other.get(k):
            return k
    return None


def check_group(args):
    """all spellings of one (operation, operand classes, form) on the same operands, for several seeds"""
    key, seeds = args
    sps = _GROUPS[key]
    out = {"key": key, "evals": 0, "fails": [], "sample": None, "exc_all": 0}
    for seed in seeds:
        recs = [execute(sp, seed) for sp in sps]
        out["evals"] += len(recs)
        ref = recs[0]
        if all(r.get("exc") for r in recs):
            out["exc_all"] += 1
        for sp, r in zip(sps[1:], recs[1:]):
            d = diff(ref, r)
            if d is not None:
                out["fails"].append({"family": sps[0].family, "a": sps[0].ident(), "b": sp.ident(), "what": d, "seed": seed,
                                     "ref": _short(ref, d), "got": _short(r, d)})
        # an out= spelling returns its target (the very Tensor / a tensor over the very ndarray), whatever the others do
        for sp, r in zip(sps, recs):
            if "out=" in sp.form and not r.get("exc") and r.get("returns-target") is False:
                out["fails"].append({"family": sp.family, "a": sp.ident(), "b": sp.ident(), "what": "out-target-not-returned", "seed": seed,
                                     "ref": "the result is the out= target", "got": "another object / other memory"})
        if out["sample"] is None:
            out["sample"] = {"operation": key[0], "operands": key[1], "form": key[2], "spellings": [sp.label for sp in sps],
                             "result_dtype": ref.get("dtype"), "exception": ref.get("exc")}
    # NumPy's own answer for plain ndarray-returning overrides (any/argmax/argmin)
    if sps[0].family in NDARRAY_RESULT:
        for sp in sps:
            ops, _ = build_ops(sp, seeds[0])
            r = sp.fn(ops)
            raw = [o.data if isinstance(o, Tensor) else o for o in ops]
            if _has_tensor(r):
                out["fails"].append({"family": sp.family, "a": sp.ident(), "b": sp.ident(), "what": "returns-Tensor", "seed": seeds[0], "ref": "ndarray", "got": type(r).__name__})
    return out


def _short(rec, k):
    v = rec.get(k)
    if k in ("value", "grad[a]", "grad[b]", "grad[o]") and isinstance(v, tuple):
        return f"{v[0]}{list(v[1])}:" + np.frombuffer(v[2], dtype=v[0]).reshape(-1)[:6].tolist().__repr__()
    if k == "exc":
        return f"{rec.get('exc')}: {rec.get('msg', '')}" if rec.get("exc") else f"returned {rec.get('type')}"
    return repr(v)[:160]


_GROUPS = {}


def _group_spellings(sps):
    g = {}
    for sp in sps:
        g.setdefault(sp.key, []).append(sp)
    return g


CROSS = [("plain", "out=ndarray"), ("plain", "out=Tensor"), ("plain", "inplace(a)")]


def check_cross(args):
    """across forms: the value written through out= / augmented assignment equals the plain result (when the dtypes agree)
    and the gradients of the operands agree"""
    (op, probe), seeds = args
    out = {"evals": 0, "fails": []}
    plain = _GROUPS.get((op, probe, "plain"))
    if not plain:
        return out
    for seed in seeds:
        ref = execute(plain[0], seed)
        for form in ("out=ndarray", "out=Tensor", "inplace(a)"):
            g = _GROUPS.get((op, probe, form))
            if not g:
                continue
            r = execute(g[0], seed)
            out["evals"] += 1
            if ref.get("exc") or r.get("exc"):
                continue  # exception behaviour of out= forms legitimately differs (casting into the target)
            if ref.get("dtype") != r.get("dtype"):
                continue  # the target's dtype wins: not comparable bitwise
            for k in ("shape", "value", "grad[a]", "grad[b]"):
                if k.startswith("grad") and (ref.get("constant") != r.get("constant")):
                    continue
                if ref.get(k) != r.get(k):
                    out["fails"].append({"family": plain[0].family, "a": plain[0].ident(), "b": g[0].ident(), "what": k, "seed": seed,
                                         "ref": _short(ref, k), "got": _short(r, k)})
                    break
        # dtype= : the computation happens in `dtype` whatever the target is, so the value stored through out=<ndarray> /
        # out=<Tensor> (float64 targets) is exactly the dtype=-only result cast up
        for dl in DTYPE_KW:
            g0 = _GROUPS.get((op, probe, f"dtype={dl}"))
            if not g0:
                continue
            ref = execute(g0[0], seed)
            for form in (f"dtype={dl},out=ndarray", f"dtype={dl},out=Tensor"):
                g = _GROUPS.get((op, probe, form))
                if not g:
                    continue
                for sp in g:  # the mg and the np spelling
                    r = execute(sp, seed)
                    out["evals"] += 1
                    if ref.get("exc") or r.get("exc"):
                        if bool(ref.get("exc")) != bool(r.get("exc")) and ref.get("exc") != "UFuncTypeError" and r.get("exc") != "UFuncTypeError":
                            out["fails"].append({"family": g0[0].family, "a": g0[0].ident(), "b": sp.ident(), "what": "exc", "seed": seed,
                                                 "ref": _short(ref, "exc"), "got": _short(r, "exc")})
                        continue
                    k = _upcast_diff(ref, r)
                    if k is not None:
                        out["fails"].append({"family": g0[0].family, "a": g0[0].ident(), "b": sp.ident(), "what": k, "seed": seed,
                                             "ref": _short(ref, k.split("(")[0]), "got": _short(r, k.split("(")[0])})
    return out


def _decode(v):
    return np.frombuffer(v[2], dtype=v[0]).reshape(v[1])


def _upcast_diff(ref, r):
    """the values differ after casting both to float64 (the gradients are not compared: the seed of a float32 result is
    rounded to float32, the seed of a float64 target is not)"""
    if ref.get("shape") != r.get("shape"):
        return "shape"
    for k in ("value",):
        x, y = ref.get(k), r.get(k)
        if k != "value" and ref.get("constant") != r.get("constant"):
            continue
        if (x is None) != (y is None):
            return k + "(upcast)"
        if x is None or not isinstance(x, tuple):
            continue
        if not np.array_equal(_decode(x).astype(np.float64), _decode(y).astype(np.float64), equal_nan=True):
            return k + "(upcast)"
    return None


_SCAL_SIG = {"S2": "S=2", "Si2": "S=2", "S1": "S=1", "Si1": "S=1", "S": "S", "Si": "S"}


def _canon_label(lab):
    """an explicit dunder call is the operator it implements: a.__pow__(b) -> a**b, b.__rsub__(a) -> a-b, a.__iadd__(b) -> a+=b"""
    import re

    m = re.fullmatch(r"([ab])\.__(r|i)?(\w+?)__\((\w*)\)", lab)
    if not m:
        return lab
    sym = {"add": "+", "sub": "-", "mul": "*", "truediv": "/", "pow": "**", "matmul": "@", "neg": "-", "pos": "+"}.get(m.group(3))
    if sym is None:
        return lab
    if not m.group(4):
        return f"{sym}a"
    return f"a{sym}{'=' if m.group(2) == 'i' else ''}b"


def signature(f):
    probe = ",".join(_SCAL_SIG.get(c, c) for c in f["a"]["probe"].split(","))
    return f"C11|{f['family']}|{_canon_label(f['a']['label'])}~{_canon_label(f['b']['label'])}|{f['what']}|{probe}"


# rounding / modulo family: spellings outside the registry that must not silently accept a non-constant tensor
def extra_family_spellings():
    return [
        ("np.round(a)", lambda a: np.round(a)), ("np.around(a)", lambda a: np.around(a)), ("np.fix(a)", lambda a: np.fix(a)),
        ("a//2", lambda a: a // 2), ("2//a", lambda a: 2 // a), ("a%2", lambda a: a % 2), ("divmod(a,2)", lambda a: divmod(a, 2)),
        ("round(a)", lambda a: round(a)), ("a.__floordiv__(a)", lambda a: a.__floordiv__(a)),
        ("np.floor(a,out=ndarray)", lambda a: np.floor(a, out=np.zeros(a.shape))),
        ("np.mod(a,2.0)", lambda a: np.mod(a, 2.0)), ("np.remainder(2.0,a)", lambda a: np.remainder(2.0, a)),
        ("np.floor_divide(arr,a)", lambda a: np.floor_divide(np.ones(a.shape), a)),
        ("np.divmod(a,a)", lambda a: np.divmod(a, a)), ("np.trunc(a,where=m)", lambda a: np.trunc(a, where=np.ones(a.shape, bool))),
    ]


def masked_view_target_oracle():
    """`ufunc(a, b, where=m, out=<Tensor that is a view>)` against the functional spelling `mg.where(m, ufunc(a, b), view)`:
    values and the gradients of the operands and of the tensor that holds the target's *old* contents (the masked-out
    entries send their gradient there, mapped through the view).  -> (failures, number of cases)"""
    fails, n = [], 0
    VIEWS = [("x[...]", (4,), lambda t: t[...]), ("x[::-1]", (4,), lambda t: t[::-1]), ("x.T", (3, 3), lambda t: t.T),
             ("x[1:]", (4,), lambda t: t[1:]), ("x[:, ::-1]", (2, 3), lambda t: t[:, ::-1])]
    UF = [("multiply", 2, mg.multiply, np.multiply), ("add", 2, mg.add, np.add), ("exp", 1, mg.exp, np.exp)]
    for (vn, shape, view), (un, nin, mf, nf), route in itertools.product(VIEWS, UF, ("mg", "np")):
        n += 1
        rng = random.Random(f"c11mv:{vn}:{un}")
        grads = []
        for spelling in ("out", "functional"):
            src = mg.tensor(np.array([rng_v for rng_v in np.linspace(0.2, 1.7, int(np.prod(shape)))]).reshape(shape))
            base = +src
            v = view(base)
            ops = [mg.tensor(np.linspace(0.3, 0.9, v.size).reshape(v.shape) + 0.1 * k) for k in range(nin)]
            m = (np.arange(v.size).reshape(v.shape) % 3 != 1)
            W = np.linspace(-1.0, 2.0, v.size).reshape(v.shape)
            try:
                if spelling == "out":
                    r = (mf if route == "mg" else nf)(*ops, where=m, out=v)
                    if r is not v:
                        fails.append(_mv_fail(un, vn, route, "returns-target", "the call did not return its out= target", ""))
                else:
                    r = mg.where(m, mf(*ops), v)
                (r * W).sum().backward()
            except Exception as e:  # noqa: BLE001
                grads.append(f"raised {type(e).__name__}")
                continue
            grads.append([np.array(r.data)] + [None if t.grad is None else np.array(t.grad) for t in ops + [src]])
        a, b = grads
        if isinstance(a, str) or isinstance(b, str):
            if a != b:
                fails.append(_mv_fail(un, vn, route, "raises", str(a)[:60], str(b)[:60]))
            continue
        names = ["value"] + [f"grad[{'ab'[k]}]" for k in range(nin)] + ["grad[old contents of the target's base]"]
        for nm, x, y in zip(names, a, b):
            if (x is None) != (y is None) or (x is not None and not np.allclose(x, y, rtol=1e-12, atol=0)):
                fails.append(_mv_fail(un, vn, route, nm, None if x is None else str(x.tolist()), None if y is None else str(y.tolist())))
                break
    return fails, n


def _mv_fail(un, vn, route, what, got, ref):
    return {"family": un, "a": {"label": f"{'mg' if route == 'mg' else 'np'}.{un}(…, where=m, out=<view {vn}>)", "probe": "T"},
            "b": {"label": f"mg.where(m, mg.{un}(…), view)"}, "kind": "masked-view-target", "what": what, "got": got, "ref": ref}


def kwarg_variant_oracle():
    """op-specific keyword options of the ufuncs (beyond out/where/dtype; today: absolute(nan_to_num=)) must reach the
    operation through every spelling that accepts them: plain call, out=<ndarray>, out=<Tensor>, out=(<Tensor>,),
    where=, in place.  Operands hold the points where the option matters (exact zeros).  -> (failures, facts)"""
    import inspect

    fails, facts = [], {}
    std = {"self", "x1", "x2", "out", "where", "dtype"}
    for npuf, mguf in tb._REGISTERED_UFUNC.items():
        op = getattr(mguf, "_wrapped_op", None)
        if op is None:
            continue
        try:
            params = inspect.signature(op.__call__).parameters
        except (TypeError, ValueError):
            continue
        extras = {k: v.default for k, v in params.items() if k not in std and v.default is not inspect.Parameter.empty
                  and isinstance(v.default, bool)}
        if not extras or npuf.nin != 1:
            continue
        name = npuf.__name__
        for kw, default in extras.items():
            opt = {kw: (not default)}
            data = np.array([0.0, 2.0, -2.0, -0.0, 0.0, 1.5])

            def grads(spell):
                x = mg.tensor(data.copy())
                r = spell(x)
                (r * 2.0).sum().backward()
                return None if x.grad is None else np.array(x.grad), np.array(r.data)

            spellings = [
                ("plain", lambda x: mguf(x, **opt)),
                ("out=ndarray", lambda x: mguf(x, out=np.zeros(6), **opt)),
                ("out=Tensor", lambda x: mguf(x, out=mg.zeros(6, dtype=float), **opt)),
                ("out=(Tensor,)", lambda x: mguf(x, out=(mg.zeros(6, dtype=float),), **opt)),
                ("where=,out=Tensor", lambda x: mguf(x, where=np.ones(6, bool), out=mg.zeros(6, dtype=float), **opt)),
                ("where=,out=ndarray", lambda x: mguf(x, where=np.ones(6, bool), out=np.zeros(6), **opt)),
                ("in-place on a copy", lambda x: mguf(x, out=+x, **opt)),
            ]
            ref = None
            for lab, sp in spellings:
                try:
                    g, v = grads(sp)
                except Exception as e:  # noqa: BLE001
                    g, v = f"raises {type(e).__name__}", None
                facts[f"{name}({kw}={not default}) {lab}"] = g if isinstance(g, str) else (None if g is None else g.tolist())
                if ref is None:
                    ref = (g, v)
                    dflt, _ = grads(lambda x: mguf(x))
                    if isinstance(g, str) or (g is not None and dflt is not None and np.array_equal(g, dflt, equal_nan=True)):
                        # the option makes no observable difference at these points: nothing to compare
                        ref = None
                        break
                    continue
                same = (isinstance(g, str) and g == ref[0]) or (not isinstance(g, str) and not isinstance(ref[0], str) and (
                    (g is None and ref[0] is None) or (g is not None and ref[0] is not None and np.array_equal(g, ref[0], equal_nan=True))))
                if not same or (v is not None and ref[1] is not None and not np.array_equal(v, ref[1], equal_nan=True)):
                    fails.append({"family": name, "a": {"label": f"mg.{name}(a, {kw}={not default}) [{lab}]", "probe": "T"},
                                  "b": {"label": "plain call"}, "kind": "kwarg-variant", "fn": f"{name}:{kw}:{lab}",
                                  "what": "gradients-or-values",
                                  "got": g if isinstance(g, str) else (None if g is None else str(g.tolist())),
                                  "ref": ref[0] if isinstance(ref[0], str) else (None if ref[0] is None else str(ref[0].tolist()))})
    return fails, facts


def family_oracle():
    """-> list of failures (dicts) for the const-only / no-diff clauses, plus facts for the evidence"""
    fails, facts = [], {}
    reg = registry_behaviour()
    for name in reg["family"]:
        d = reg["family_details"][name]
        if d["nonconst"].startswith("returned"):
            fails.append({"family": name, "a": {"label": f"np.{name}(non-constant)", "probe": "T"}, "b": {"label": "raise"}, "what": "accepted-non-constant:" + d["nonconst"], "kind": "family", "fn": name})
        if d["const"] != "ok":
            fails.append({"family": name, "a": {"label": f"np.{name}(constant)", "probe": "Tc"}, "b": {"label": "numpy"}, "what": "constant:" + d["const"], "kind": "family", "fn": name})
    for name in sorted(set(reg["boolOnly"]) | set(reg["noDiff"])):
        d = reg["details"][name]
        for k, v in d.items():
            if v != "ok":
                fails.append({"family": name, "a": {"label": f"np.{name}({k})", "probe": "T" if k == "nonconst" else "Tc"}, "b": {"label": "numpy"}, "what": v, "kind": "family", "fn": name})
    # ... and with graph tracking suspended just the same (a non-constant tensor is never silently dropped)
    family_fns = {f.__name__: f for f in list(FAMILY_UFUNCS) + list(tb._REGISTERED_CONST_ONLY_UFUNC)}
    for name, f in sorted(family_fns.items()):
        for mode in ("context", "decorator"):
            try:
                if mode == "context":
                    with mg.no_autodiff:
                        r = _call_registry_fn(f, const=False)
                else:
                    r = mg.no_autodiff(lambda: _call_registry_fn(f, const=False))()
                facts[f"np.{name}(non-constant) inside no_autodiff [{mode}]"] = "returned " + type(r).__name__
                fails.append({"family": name, "a": {"label": f"np.{name}(non-constant) inside no_autodiff ({mode})", "probe": "T"}, "b": {"label": "raise"},
                              "what": "accepted-non-constant-untracked:" + type(r).__name__, "kind": "family-untracked", "fn": f"{name}:{mode}"})
            except Exception as e:  # noqa
                facts[f"np.{name}(non-constant) inside no_autodiff [{mode}]"] = "raises " + type(e).__name__
    for lab, f in extra_family_spellings():
        a = _fresh(False)
        try:
            with mg.no_autodiff:
                r = f(a)
            fails.append({"family": "rounding/modulo", "a": {"label": lab + " inside no_autodiff", "probe": "T"}, "b": {"label": "raise"},
                          "what": "accepted-non-constant-untracked:" + type(r).__name__, "kind": "extra-untracked", "fn": lab})
        except Exception as e:  # noqa
            facts[lab + " [inside no_autodiff]"] = "raises " + type(e).__name__
    for lab, f in extra_family_spellings():
        a = _fresh(False)
        try:
            r = f(a)
            facts[lab] = "returned " + type(r).__name__
            fails.append({"family": "rounding/modulo", "a": {"label": lab, "probe": "T"}, "b": {"label": "raise"}, "what": "accepted-non-constant:" + type(r).__name__, "kind": "extra", "fn": lab})
        except Exception as e:  # noqa
            facts[lab] = "raises " + type(e).__name__
        try:
            r = f(_fresh(True))
            facts[lab + " [constant]"] = "returned " + type(r).__name__ + (" (Tensor!)" if _has_tensor(r) else "")
            if _has_tensor(r):
                fails.append({"family": "rounding/modulo", "a": {"label": lab, "probe": "Tc"}, "b": {"label": "ndarray"}, "what": "returns-Tensor", "kind": "extra", "fn": lab})
        except Exception as e:  # noqa
            facts[lab + " [constant]"] = "raises " + type(e).__name__
    # comparison operators return plain boolean arrays equal to numpy's
    for sym, pyf in (("<", _operator.lt), ("<=", _operator.le), (">", _operator.gt), (">=", _operator.ge), ("==", _operator.eq), ("!=", _operator.ne)):
        for const in (False, True):
            a, b = _fresh(const), _fresh(const)
            for lab, x, y in ((f"a{sym}b", a, b), (f"a{sym}arr", a, b.data), (f"a{sym}0.5", a, 0.5), (f"arr{sym}b", a.data, b)):
                r = pyf(x, y)
                ref = pyf(x.data if isinstance(x, Tensor) else x, y.data if isinstance(y, Tensor) else y)
                if _has_tensor(r) or not _same_plain(r, ref):
                    fails.append({"family": "compare", "a": {"label": lab, "probe": "Tc" if const else "T"}, "b": {"label": "numpy"}, "what": "returns-Tensor" if _has_tensor(r) else "differs-from-numpy", "kind": "compare", "fn": lab})
    return fails, facts, reg


def run(ctx: Ctx) -> Outcome:
    out = Outcome()
    out.rule = ("every spelling (mg function, np function/ufunc, out=Tensor, out=ndarray, where=, dtype=, method, operator, reflected "
                "and augmented operator) of every registered ufunc / __array_function__ override / operator dunder, for each operand "
                "class tuple (tensor f64/f32, constant, ndarray, Python float/int incl. the exponents 1 and 2), grouped by (operation "
                "incl. option variant, operand classes, form); all spellings of a group run on the same random operands per seed and "
                "are compared with the group's first spelling: exception class, result type, dtype, shape, constant flag, values "
                "bitwise, identity/state of the out= target, gradients of every operand bitwise. non-trivial = a group with >= 2 "
                "spellings whose reference spelling did not raise; distinct by (operation, operand classes, form, seed).")
    if "routes" in _CACHE:
        routes, missing, reg0 = _CACHE["routes"], _CACHE["missing"], _CACHE["reg"]
    else:
        _, routes, missing, reg0 = build_table()
    sps = [sp for sp, _ in routes]
    global _GROUPS
    _GROUPS = _group_spellings(sps)
    nseeds = ctx.n(6, 30)
    seeds = [ctx.seed * 1000 + i for i in range(nseeds)]
    keys = sorted(_GROUPS)
    res = pmap(check_group, [(k, seeds) for k in keys])
    fails = []
    hist = {"forms": {}, "kinds": {}, "probes": {}, "groups": len(keys), "spellings": len(sps), "all-spellings-raise": 0}
    for sp in sps:
        hist["forms"][sp.form] = hist["forms"].get(sp.form, 0) + 1
        hist["kinds"][sp.kind] = hist["kinds"].get(sp.kind, 0) + 1
        hist["probes"][sp.probe] = hist["probes"].get(sp.probe, 0) + 1
    for r in res:
        out.evaluations += r["evals"]
        hist["all-spellings-raise"] += r["exc_all"]
        fails += r["fails"]
        if len(_GROUPS[r["key"]]) >= 2:
            for s in seeds[: nseeds - r["exc_all"]]:
                out.nontrivial.add(stable_hash([r["key"], s]))
        if r["sample"] and len(out.samples) < 5 and r["key"][2] != "plain" and len(r["sample"]["spellings"]) > 3:
            out.samples.append(r["sample"])
    opkeys = sorted({(k[0], k[1]) for k in keys})
    for r in pmap(check_cross, [(k, seeds[:2]) for k in opkeys]):
        out.evaluations += r["evals"]
        fails += r["fails"]
    ffails, facts, reg = family_oracle()
    out.evaluations += len(reg["details"]) * 2 + len(facts)
    fails += ffails
    kfails, kfacts = kwarg_variant_oracle()
    out.evaluations += len(kfacts)
    fails += kfails
    mfails, mn = masked_view_target_oracle()
    out.evaluations += mn
    fails += mfails
    out.stats["masked_view_target_cases"] = mn
    out.extra["op_specific_keyword_options"] = kfacts
    # ---- the recorded table must cover everything that is registered
    if missing:
        out.corr_breaks.append(CorrBreak("unprobed __array_function__ overrides", {"functions": missing}))
    if reg0["unknown"]:
        out.corr_breaks.append(CorrBreak("unprobed registry functions", {"functions": reg0["unknown"]}))
    # ---- route-level disagreements recorded by the spy (what the Lean theorem is about), for the targeted search
    if ctx.lean_broken:
        out.extra["route_disagreements"] = route_disagreements(routes)[:10]
    seen = {}
    for f in fails:
        sig = signature(f)
        if sig in seen:
            continue
        seen[sig] = f
        what = (f"{f['family']}: `{f['a']['label']}` vs `{f['b']['label']}` differ in {f['what']} on operands {f['a']['probe']}"
                + (f" (expected {f.get('ref')}, got {f.get('got')})" if f.get("ref") is not None else ""))
        out.violations.append(Violation(sig, what, {k: v for k, v in f.items()}))
    out.traces_validated = len(routes)
    out.stats = hist
    out.extra["exhaustive"] = True
    out.extra["generated_table"] = {"routes": len(routes), "groups": len(keys), "file": str(TABLES)}
    out.extra["registry"] = {k: reg[k] for k in ("boolOnly", "constOnly", "noDiff", "raisesOnNonConstant", "worksOnConstant", "returnsNdarray")}
    out.extra["rounding_modulo_family_outside_registry"] = facts
    out.assumptions = [
        "NumPy-only keywords that the MyGrad override does not declare (np.sum(dtype=), np.transpose(axes=), np.reshape(shape=), "
        "np.clip(min=)) are outside 'the option combinations they accept'",
        "probe-class coverage: routes are recorded for the listed operand classes; equal target + equal normalised arguments "
        "means the same code is executed, hence equal results",
        "np.round/np.around/np.fix are not registered at all: they raise TypeError on every tensor (constant ones included)",
    ]
    return out


def route_disagreements(routes):
    g = {}
    for sp, r in routes:
        g.setdefault(sp.key, []).append((sp, r))
    bad = []
    for key, rs in sorted(g.items()):
        ref = rs[0][1]["calls"]
        for sp, r in rs[1:]:
            if r["calls"] != ref:
                bad.append({"operation": key[0], "operands": key[1], "form": key[2], "a": rs[0][0].label, "b": sp.label,
                            "route_a": ref, "route_b": r["calls"]})
    return bad


def replay(data) -> bool:
    f = data["replay"]
    if f.get("kind") == "masked-view-target":
        fails, _ = masked_view_target_oracle()
        hit = [x for x in fails if signature(x) == data["signature"]]
        print("observed:", [(x["a"]["label"], x["what"], x["got"], x["ref"]) for x in hit] or "holds")
        return bool(hit)
    if f.get("kind") == "kwarg-variant":
        fails, facts = kwarg_variant_oracle()
        hit = [x for x in fails if signature(x) == data["signature"]]
        print("observed:", [(x["a"]["label"], x["what"]) for x in hit] or "holds")
        return bool(hit)
    if f.get("kind") in ("family", "extra", "compare", "family-untracked", "extra-untracked"):
        fails, facts, reg = family_oracle()
        hit = [x for x in fails if signature(x) == data["signature"]]
        print("expected: the rounding/modulo family raises on non-constant tensors and works on constant ones; "
              "non-differentiable functions return plain arrays equal to NumPy's")
        print("observed:", [(x["a"]["label"], x["what"]) for x in hit] or "holds")
        return bool(hit)
    sps, _ = all_spellings()
    global _GROUPS
    _GROUPS = _group_spellings(sps)
    a = [sp for sp in sps if sp.ident() == f["a"]]
    b = [sp for sp in sps if sp.ident() == f["b"]]
    if not a or not b:
        print("spelling no longer exists:", f["a"] if not a else f["b"])
        return True
    ra, rb = execute(a[0], f["seed"]), execute(b[0], f["seed"])
    if a[0].form != b[0].form and f["what"].endswith("(upcast)"):
        d = None if (ra.get("exc") or rb.get("exc")) else _upcast_diff(ra, rb)
    elif a[0].form != b[0].form and f["what"] == "exc":
        d = "exc" if bool(ra.get("exc")) != bool(rb.get("exc")) else None
    elif a[0].form != b[0].form:
        k = f["what"]
        bad = (not ra.get("exc") and not rb.get("exc") and ra.get("dtype") == rb.get("dtype") and ra.get(k) != rb.get(k))
        d = k if bad else None
    else:
        d = diff(ra, rb)
    print(f"operation {f['family']} on operands {f['a']['probe']} (seed {f['seed']}):")
    print(f"  {a[0].label:40s} -> " + ", ".join(f"{k}={_short(ra, k)}" for k in DIFF_ORDER if k in ra))
    print(f"  {b[0].label:40s} -> " + ", ".join(f"{k}={_short(rb, k)}" for k in DIFF_ORDER if k in rb))
    print("first difference:", d)
    return d is not None


MANIFEST = {
    "category": "proof",
    "design_ref": "DESIGN.md §5 C11",
    "technique": "translator tie: dispatch routes of every public spelling recorded from /repo by a spy into Gen/Tables.lean + "
                 "Lean 4 proof by kernel evaluation over the complete generated table + real-analysis/permutation lemmas for the "
                 "pairs of different Operation classes + differential execution of all spellings (bitwise values, dtype, constant, "
                 "gradients)",
    "text": "routes_agree / routes_same_target: over the COMPLETE table recorded on this run, any two spellings of the same "
            "operation on the same operand classes (and form) reach the same Operation class with the same operand permutation, "
            "normalised options and in-place flag, or a pair proved equivalent (Power(x,2)≡Square, Power(x,1)≡Positive, "
            "Tensor_Transpose_Property≡Transpose(axes=None): forward and VJP formulas proved equal); const_only_raise / "
            "no_diff_return_ndarray over the generated registry sets and their observed behaviour.",
    "note": "Routes with equal target and equal normalised arguments execute the same code, so equal results follow; this is a "
            "proof over a finite recorded table (probe-class coverage is the weak link), re-recorded on every run. The oracle "
            "independently executes every spelling. Trusted: the spy (30 lines), the option normaliser, NumPy dispatch.",
}

MANIFEST_ADDENDUM = "Oracle additions: ufunc(…, where=m, out=<Tensor view>) against the functional spelling mg.where(m, ufunc(…), view) for 5 kinds of view (values, operand gradients, gradient reaching the old contents of the view's base); op-specific keyword options (absolute's nan_to_num) through every spelling that accepts them, at the points where they matter; the rounding/modulo family's refusal of non-constant tensors also inside no_autodiff."
