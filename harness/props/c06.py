"""C06 — a view's gradient is the corresponding view of its base's gradient."""
from __future__ import annotations

import itertools

import numpy as np

import mygrad as mg

from .. import engcheck, progs
from ..core import Ctx, Outcome, Violation, pmap, stable_hash
from ..leanbuild import run_driver

ID = "C06"
LEVEL = "proof"
EXTRA_TARGETS = ["MG.DriverEng"]
THEOREMS = {
    "MG.Proofs.C06": [
        "MG.C06.view_grad_is_view",
        "MG.C06.view_grad_neg",
        "MG.C06.reshape_contig_is_view",
        "MG.C06.permuting_views_never_copy",
        "MG.C06.reshape_view_iff_mergeable_example",
        "MG.C06.permuting_views_layout_independent",
        "MG.C06.applyIx_layout_independent",
        "MG.C06.getitem_layout_independent",
    ],
}

GEN = dict(inplace=True, p_inplace=0.12, p_view=0.4, p_fail=0.0, p_const=0.08, n_stmts=9)


def _addresses(a):
    """the memory address of every element of `a` (an int64 array of a's shape)"""
    ptr = a.__array_interface__["data"][0]
    addr = np.full(a.shape, ptr, dtype=np.int64)
    for ax, (n, st) in enumerate(zip(a.shape, a.strides)):
        shp = [1] * a.ndim
        shp[ax] = n
        addr = addr + (np.arange(n, dtype=np.int64) * st).reshape(shp)
    return addr


def label_view(b_arr, v_arr):
    """for every element of the view `v_arr` of `b_arr`: its logical (C-order) flat index in `b_arr`, found through
    the elements' memory addresses (any layout of either array; `b_arr` need not own its memory); None if `b_arr`
    repeats an element (stride 0) or `v_arr` reaches memory that is not an element of `b_arr`"""
    if v_arr.size == 0:
        return np.zeros(v_arr.shape, dtype=np.int64)
    ab = _addresses(b_arr).reshape(-1)
    if len(set(ab.tolist())) != ab.size:
        return None
    where = {int(a): k for k, a in enumerate(ab.tolist())}
    av = _addresses(v_arr)
    try:
        return np.array([where[int(a)] for a in av.reshape(-1).tolist()], dtype=np.int64).reshape(v_arr.shape)
    except KeyError:
        return None


def check_views(tensors, only=None):
    """the property's predicate on a dict name -> Tensor after a backward (`only`: the views to examine)"""
    fails = []
    names = sorted(tensors)
    for n in names:
        if only is not None and n not in only:
            continue
        v = tensors[n]
        b = v.base
        if b is None or b.constant or v.constant:
            continue
        # a chain that passes through a tensor forced constant transmits nothing (C10): outside this property
        p, through_const = v, False
        for _ in range(64):
            c = p.creator
            if c is None or p.base is None:
                break
            p = c.variables[0]
            if p.constant:
                through_const = True
                break
        if through_const:
            continue
        bg = b.grad
        vg = v.grad
        if bg is None:
            continue
        if vg is None:
            fails.append(("view-grad-none", f"t{n}.grad is None although its base's gradient is available"))
            continue
        idx = label_view(b.data, v.data)
        if idx is None:
            continue
        exp = np.ravel(bg, order="C")[idx]
        if vg.shape != v.shape or not np.array_equal(vg, exp):
            fails.append(("view-grad-value", f"t{n}.grad = {np.asarray(vg).tolist()} but the view of the base's gradient is {exp.tolist()}"))
            continue
        if v.size and not np.shares_memory(vg, bg):
            fails.append(("view-grad-copy", f"t{n}.grad equals the view of its base's gradient but does not share memory with it "
                          f"(base grad strides {bg.strides}, base data strides {b.data.strides})"))
    for i, n in enumerate(names):
        for m in names[i + 1:]:
            g1, g2 = tensors[n].grad, tensors[m].grad
            if g1 is not None and g2 is not None and np.shares_memory(g1, g2) and not np.shares_memory(tensors[n].data, tensors[m].data):
                fails.append(("unrelated-grads-share", f"t{n}.grad and t{m}.grad share memory although the tensors do not"))
    return fails


def oracle(prog, idx):
    ex, res = engcheck.run_all(prog)
    if res[-1] != "ok":
        return []
    return check_views(ex.v)


def check_epoch_views(tensors, fresh):
    """The predicate for views created in the current epoch, with the base found by walking the chain of view
    operations *recorded in this epoch* (not by trusting `.base`): for w in `fresh`, follow creator.variables[0] while
    the tensor is a fresh view; the tensor reached is w's base in this epoch if it owns its memory (base None)."""
    fails = []
    for n in sorted(fresh):
        w = tensors.get(n)
        if w is None or w.base is None or w.constant:
            continue
        p, m, ok = w, n, True
        for _ in range(64):
            if p.base is None:
                break
            name = next((k for k, t in tensors.items() if t is p), None)
            if name not in fresh or p.creator is None:
                ok = False
                break
            p = p.creator.variables[0]
            if p.constant:
                ok = False
                break
        if not ok or p.base is not None or p is w:
            continue
        b = p
        bn = next((k for k, t in tensors.items() if t is b), None)
        if bn is None:
            continue  # the chain ends in an internal tensor (a placeholder of an in-place update), not in a base the caller holds
        if not np.shares_memory(w.data, b.data) and w.size:
            continue
        bg, wg = b.grad, w.grad
        if bg is None:
            continue
        if wg is None:
            fails.append(("epoch-view-grad-none", f"t{n} was made from t{bn} by view operations in this epoch; t{bn}.grad is available but t{n}.grad is None (t{n}.base is t{next((k for k, t in tensors.items() if t is w.base), '?')})"))
            continue
        idx = label_view(b.data, w.data)
        if idx is None:
            continue
        exp = np.ravel(bg, order="C")[idx]
        if wg.shape != w.shape or not np.array_equal(wg, exp):
            fails.append(("epoch-view-grad-value", f"t{n}.grad = {np.asarray(wg).tolist()} but the view of t{bn}.grad is {exp.tolist()}"))
        elif w.size and not np.shares_memory(wg, bg):
            fails.append(("epoch-view-grad-copy", f"t{n}.grad does not share memory with t{bn}.grad"))
    return fails


def oracle_epochs(prog, idx):
    """multi-epoch histories: after every successful backward, the predicate for the views created since the previous
    backward / clear_graph (views *within the same graph epoch*; a view left over from an earlier epoch is not examined)"""
    ex = progs.RealExec()
    fresh = set()
    for st in prog:
        r = ex.step(st)
        if st[0] in ("view",) and r == "ok":
            fresh.add(st[1])
        elif st[0] == "del":
            fresh.discard(st[1])
        elif st[0] in ("back", "clear"):
            if st[0] == "back" and r == "ok":
                f = check_epoch_views(ex.v, fresh)
                if f:
                    return f
            fresh = set()
    return []


# ------------------------------------------------------------------ every arrival order of the first contribution


VIEWS = [
    ("reshape(-1)", lambda b: b.reshape(-1)), ("ravel", lambda b: mg.ravel(b)), ("b[0]", lambda b: b[0]), ("b[:, 1:]", lambda b: b[:, 1:]),
    ("b[::-1]", lambda b: b[::-1]), ("b.T", lambda b: b.T), ("b[None]", lambda b: b[None]), ("reshape(3,2)", lambda b: b.reshape(3, 2)),
    ("b[:, ::2]", lambda b: b[:, ::2]), ("swapaxes", lambda b: mg.swapaxes(b, 0, 1)), ("reshape(1,6)[0]", lambda b: b.reshape(1, 6)[0]),
    ("einsum-diag", lambda b: mg.einsum("ii->i", b[:, :2])), ("b[...]", lambda b: b[...]), ("flatten-slice", lambda b: b.reshape(-1)[1:5]),
    ("expand_dims", lambda b: mg.expand_dims(b, 1)), ("moveaxis", lambda b: mg.moveaxis(b, 0, -1)), ("T.T", lambda b: b.T.T),
]
CONSUMERS = [
    ("b*w", lambda b, v: b * np.arange(1.0, 7.0).reshape(2, 3)), ("b.T*w", lambda b, v: b.T * np.arange(1.0, 7.0).reshape(3, 2)),
    ("b[::-1]*w", lambda b, v: b[::-1] * 2.0), ("v*3", lambda b, v: v * 3.0), ("b.T@b", lambda b, v: b.T @ b),
    ("transpose(b)+1", lambda b, v: mg.transpose(b) + 1.0), ("b[:,::-1].T*w", lambda b, v: b[:, ::-1].T * np.arange(1.0, 7.0).reshape(3, 2)),
    ("swapaxes(b)*2", lambda b, v: mg.swapaxes(b, 0, 1) * 2.0), ("sum(b,0)", lambda b, v: b.sum(axis=0)),
]


def order_case(args):
    vi, order, seedkind = args
    b = mg.tensor(np.arange(6.0).reshape(2, 3) + 1)
    vname, mk = VIEWS[vi]
    v = mk(b)
    terms = [CONSUMERS[c][1](b, v).sum() for c in order]
    L = terms[0]
    for t in terms[1:]:
        L = L + t
    if seedkind == 0:
        L.backward()
    else:
        L.backward(np.array(2.0))
    fails = check_views({0: b, 1: v})
    return {"view": vname, "order": [CONSUMERS[c][0] for c in order], "fails": fails, "args": [vi, list(order), seedkind]}


def seed_case(kind):
    """views of the *terminal* tensor: L.backward(g) with an owning / non-owning seed array"""
    b = mg.tensor(np.arange(6.0).reshape(2, 3) + 1)
    L = b * 2.0
    v = L[0]
    g = np.arange(6.0).reshape(2, 3).copy() if kind == "owning" else np.arange(6.0).reshape(2, 3)
    L.backward(g)
    fails = check_views({0: L, 1: v})
    return [(cls, f"L=b*2; v=L[0]; L.backward(<{kind} array>): {msg}") for cls, msg in fails]


# views taken *after* backward(), from bases of several memory layouts (the gradient a base keeps must have the layout
# of its data, or a layout-dependent chain — transpose then reshape — yields a copy of it instead of a view)
LATER_BASES = [
    ("C-owner", lambda: mg.tensor(np.arange(12.0).reshape(3, 4) + 1)),
    ("F-owner", lambda: mg.tensor(np.asfortranarray(np.arange(12.0).reshape(3, 4) + 1))),
    ("F-owner:float32", lambda: mg.tensor(np.asfortranarray((np.arange(12.0).reshape(3, 4) + 1).astype(np.float32)))),
    ("C-owner:float16", lambda: mg.tensor((np.arange(12.0).reshape(3, 4) + 1).astype(np.float16))),
    ("former-view:T", lambda: (mg.tensor(np.arange(12.0).reshape(4, 3) + 1)).T),
    ("former-view:swap3d", lambda: mg.swapaxes(mg.tensor(np.arange(24.0).reshape(2, 3, 4) + 1), 0, 2)),
    ("former-view:slice", lambda: (mg.tensor(np.arange(24.0).reshape(6, 4) + 1))[::2]),
]
LATER_CONSUMERS = [
    ("terminal:default-seed", None),   # b.backward() itself: the seed is made by backward(), not by an operation
    ("terminal:scalar-seed", 2.0),
    ("terminal:C-array-seed", "C"),   # a caller's array of the terminal's shape, C-ordered whatever the terminal's layout
    ("terminal:F-array-seed", "F"),
    ("terminal:row-seed", "row"),     # a caller's array that broadcasts against the terminal
    ("square", lambda b: (b * b).sum()),
    ("scaled", lambda b: (b * 2.0).sum()),
    ("through-view", lambda b: (b[0] * 3.0).sum() + (b * b).sum()),
    ("view-only", lambda b: (b[1:] * 3.0).sum()),
]
LATER_CHAINS = [
    ("T", lambda b: b.T),
    ("T.reshape(-1)", lambda b: b.T.reshape(-1)),
    ("reshape(-1)", lambda b: b.reshape(-1)),
    ("T.reshape(-1)[::2]", lambda b: b.T.reshape(-1)[::2]),
    ("[1:]", lambda b: b[1:]),
    ("T[1:].T", lambda b: b.T[1:].T),
    ("ravel", lambda b: b.ravel()),
]


# views whose *argument objects* are mutable (a list giving a shape or axes, an integer-valued 0-d tensor / array used as
# an index or a slice bound) and are changed by the caller before the view's gradient is first read: the view is what it
# was made to be, and its gradient is that view of the base's gradient
MUTARG_VIEWS = [
    ("x[i]", (2, 3), lambda: [mg.tensor(0)], lambda x, m: x[m[0]], lambda m: m[0].__iadd__(1)),
    ("x[i, :]", (2, 3), lambda: [mg.tensor(0)], lambda x, m: x[m[0], :], lambda m: m[0].__iadd__(1)),
    ("x[:, i]", (2, 3), lambda: [mg.tensor(0)], lambda x, m: x[:, m[0]], lambda m: m[0].__iadd__(2)),
    ("x[i:]", (4, 3), lambda: [mg.tensor(1)], lambda x, m: x[m[0]:], lambda m: m[0].__iadd__(2)),
    ("x[i:j:k]", (6,), lambda: [mg.tensor(0), mg.tensor(6), mg.tensor(2)], lambda x, m: x[m[0]:m[1]:m[2]],
     lambda m: (m[0].__iadd__(1), m[1].__isub__(2), m[2].__iadd__(1))),
    ("x[a0:]", (4, 3), lambda: [np.array(1)], lambda x, m: x[m[0]:], lambda m: m[0].__iadd__(2)),
    ("x.reshape(list)", (6,), lambda: [[2, 3]], lambda x, m: x.reshape(m[0]), lambda m: m[0].__setitem__(slice(None), [3, 2])),
    ("transpose(x, list)", (2, 3), lambda: [[1, 0]], lambda x, m: mg.transpose(x, m[0]), lambda m: m[0].__setitem__(slice(None), [0, 1])),
    ("moveaxis(x, list, list)", (2, 3, 4), lambda: [[0], [2]], lambda x, m: mg.moveaxis(x, m[0], m[1]), lambda m: m[1].__setitem__(0, 1)),
]


def mutarg_view_cases(only=None):
    """-> [(name, class, message)]"""
    out = []
    for name, shape, mk, view, mutate in MUTARG_VIEWS:
        for consumed in (False, True):
            nm = f"{name}|{'consumed' if consumed else 'not-consumed'}"
            if only is not None and nm != only:
                continue
            x = mg.tensor(np.arange(float(np.prod(shape))).reshape(shape) + 1)
            m = mk()
            try:
                v = view(x, m)
                L = (x * x).sum() + ((v * 3.0).sum() if consumed else 0.0)
                mutate(m)
                L.backward()
                fails = check_views({0: x, 1: v})
            except Exception as e:  # noqa: BLE001
                out.append((nm, "raised", f"{type(e).__name__}: {str(e)[:100]}"))
                continue
            for cls, msg in fails:
                out.append((nm, cls, f"v = {name}; the index/shape object is changed in place; backward(): {msg}"))
    return out


def later_view_case(args):
    bi, ci, vi = args
    bname, mkb = LATER_BASES[bi]
    cname, cons = LATER_CONSUMERS[ci]
    vname, chain = LATER_CHAINS[vi]
    keep = []
    b = mkb()
    keep.append(b.base)
    pre = chain(b) if (bi + ci + vi) % 2 else None   # every other case: the same chain also exists before backward()
    if cons is None or isinstance(cons, (float, str)):
        if cons is None:
            b.backward()
        elif isinstance(cons, float):
            b.backward(cons)
        else:
            g = (np.arange(float(b.size)).reshape(b.shape) + 1) if cons != "row" else np.arange(float(b.shape[-1])) + 1
            g = np.asfortranarray(g) if cons == "F" else np.ascontiguousarray(g)
            b.backward(g.astype(b.dtype))
    else:
        L = cons(b)
        L.backward()
    fails = []
    # the chain made before backward() is examined before anything else happens (taking another view of a former view
    # afterwards disconnects that view from its base: a new epoch for everything derived through it)
    if pre is not None and pre.base is not None:
        fails += [(c, "(view made before backward) " + m) for c, m in check_views({0: pre.base, 1: pre})]
    v = chain(b)
    if v.base is not None and v.size and not np.shares_memory(v.data, v.base.data):
        fails.append(("view-without-shared-data", "a tensor with a base does not share memory with it"))
    owner = v.base if v.base is not None else None
    if owner is not None:
        fails += check_views({0: owner, 1: v})
        # the gradient the (possibly just disconnected) base keeps is the one it reported before the view was taken
        if owner is b and b.grad is None:
            fails.append(("base-grad-lost", "the base lost its gradient when a view of it was taken"))
    # ... and the base's shape re-assigned with tracking suspended (`.shape =` inside no_autodiff reshapes the stored
    # gradient): the views keep reporting theirs
    if not fails and owner is b and v.base is b and b.ndim == 2 and b.data.flags.c_contiguous:
        got = None if v.grad is None else np.array(v.grad)
        with mg.no_autodiff:
            try:
                b.shape = (b.shape[1], b.shape[0])
            except Exception:  # noqa: BLE001
                got = None
        if got is not None:
            g2 = v.grad
            if g2 is None or not np.array_equal(g2, got):
                fails.append(("view-grad-lost-on-shape-setter", "after `b.shape = …` inside no_autodiff a view of b no longer reports the "
                              f"gradient it reported before ({None if g2 is None else np.asarray(g2).tolist()} instead of {got.tolist()})"))
            if b.grad is None or b.grad.shape != b.shape:
                fails.append(("base-grad-shape", "after `b.shape = …` inside no_autodiff b.grad does not have b's shape"))
    return {"base": bname, "consumer": cname, "chain": vname, "fails": fails, "args": list(args),
            "is_view": v.base is not None}


def nontrivial(prog):
    f = progs.features(prog)
    return sum(v for k, v in f.items() if k.startswith("view")) >= 2


def layout_corr(ctx, out):
    """tie of the descriptor model's view-or-copy rule (reshape on strided windows) to NumPy itself"""
    rng = ctx.rng("layout")
    lines, exp = [], []
    import numpy as np

    for _ in range(ctx.n(300, 4000)):
        shape = rng.choice([(2, 3), (3, 2), (2, 3, 2), (4,), (2, 2), (6,), (1, 3), (3, 1, 2), (2, 1, 3)])
        a = np.arange(int(np.prod(shape)), dtype=np.int64).reshape(shape)
        prog = [["leaf", 0, list(shape), list(range(int(np.prod(shape)))), 1]]
        cur, curname = a, 0
        for k in range(rng.randint(1, 3)):
            kind = rng.choice(["gi", "tr", "T", "ex"])
            if kind == "gi":
                ix = progs.rand_ix(rng, cur.shape)
                nxt = cur[progs.ix_to_py(ix)]
                vf = ["gi", ix]
            elif kind == "tr":
                p = list(range(cur.ndim)); rng.shuffle(p)
                nxt, vf = np.transpose(cur, p), ["tr", p]
            elif kind == "T":
                nxt, vf = cur.T, ["T"]
            else:
                ax = rng.randint(0, cur.ndim)
                nxt, vf = np.expand_dims(cur, ax), ["ex", ax]
            if not isinstance(nxt, np.ndarray) or nxt.base is None:
                break
            prog.append(["view", curname + 1, vf, ["t", curname], None])
            cur, curname = nxt, curname + 1
        if cur.size == 0:
            continue
        tgt = progs.rand_reshape(rng, cur.shape)
        r = cur.reshape(tgt)
        is_view = np.shares_memory(r, a)
        prog.append(["view", curname + 1, ["rs", tgt], ["t", curname], None])
        ls = progs.to_lines(prog, obs_every=False)
        lines += ls
        pair = f"0-{curname + 1}"
        exp.append((len(lines) - 1, is_view, pair, [progs.to_line(s) for s in prog], r.ravel().tolist()))
    obs = run_driver(lines, driver="MG/DriverEng.lean")
    bad = 0
    for li, is_view, pair, plines, vals in exp:
        o = obs[li]
        shares = pair in o.split(" S=")[-1].split(",")
        if shares != is_view:
            bad += 1
            if bad <= 3:
                from ..core import CorrBreak

                out.corr_breaks.append(CorrBreak("reshape view-or-copy rule: descriptor model vs NumPy",
                                                 {"program": plines, "numpy_is_view": is_view, "model_is_view": shares}))
    out.traces_validated += len(exp)
    out.stats["reshape_layout_cases"] = len(exp)
    out.stats["reshape_layout_views"] = sum(1 for e in exp if e[1])


def run(ctx: Ctx) -> Outcome:
    n = ctx.n(1500, 6000)
    out, results = engcheck.run_programs(ctx, n, dict(GEN, n_stmts=ctx.n(9, 16)), "oracle", nontrivial)
    out.rule = ("(a) random single-epoch programs with many views, one backward: for every (view, base) pair value, availability "
                "and memory sharing of the gradients, and no sharing between gradients of unrelated tensors; (b) 17 view chains x "
                "every ordering of 1..3 of 9 consumers (so that each contribution arrives first) x 2 seed kinds; (c) the model's "
                "reshape view-or-copy rule vs NumPy on random strided windows; (d) 294 histories in which the view chain is taken "
                "*after* backward() from a C-/Fortran-ordered owner or from a former view (transposed, axis-swapped, strided) that "
                "becomes a base by being viewed")
    seen = engcheck.report(out, results, "C06", oracle)
    # multi-epoch histories (several backward / clear_graph / null_grad calls; views of tensors that were views earlier)
    out2, results2 = engcheck.run_programs(ctx, ctx.n(1200, 5000), dict(GEN, n_stmts=ctx.n(12, 18), multi_back=True, p_inplace=0.06),
                                           "oracle_epochs", nontrivial, label="epochs:")
    engcheck.report(out2, results2, "C06", oracle_epochs)
    out.merge(out2)
    items = []
    for vi in range(len(VIEWS)):
        for k in (1, 2, 3) if ctx.thorough else (1, 2):
            for order in itertools.permutations(range(len(CONSUMERS)), k):
                items.append((vi, order, (vi + len(order) + order[0]) % 2))
    if not ctx.thorough:
        rng = ctx.rng("orders")
        ones = [it for it in items if len(it[1]) == 1]
        twos = [it for it in items if len(it[1]) == 2]
        items = ones + rng.sample(twos, 500)
    res = pmap(order_case, items)
    best = {}
    for r in res:
        out.evaluations += 1
        out.nontrivial.add(stable_hash(r["args"]))
        for cls, msg in r["fails"]:
            # family: the first contribution that reached the base had another memory layout than the base
            sig = f"C06|{cls}|first-contribution-layout"
            cand = Violation(sig, f"view {r['view']}, consumers in order {r['order']}: {msg}", {"kind": "order", "args": r["args"]})
            if sig not in best or len(r["args"][1]) < len(best[sig].replay["args"][1]):
                best[sig] = cand
    out.violations += list(best.values())
    for kind in ("owning", "non-owning"):
        out.evaluations += 1
        for cls, msg in seed_case(kind):
            out.violations.append(Violation(f"C06|{cls}|{kind}-seed", msg, {"kind": "seed", "seed": kind}))
    litems = [(bi, ci, vi) for bi in range(len(LATER_BASES)) for ci in range(len(LATER_CONSUMERS)) for vi in range(len(LATER_CHAINS))]
    lres = pmap(later_view_case, litems)
    lseen = set()
    nview = 0
    for r in lres:
        out.evaluations += 1
        if r["is_view"]:
            nview += 1
            out.nontrivial.add(stable_hash(["later", r["args"]]))
        for cls, msg in r["fails"]:
            sig = f"C06|{cls}|later-view|{r['base'].split(':')[0]}"
            if sig in lseen:
                continue
            lseen.add(sig)
            out.violations.append(Violation(sig, f"base {r['base']}, loss {r['consumer']}, backward(), then v = b.{r['chain']}: {msg}",
                                            {"kind": "later", "args": r["args"]}))
    mseen = set()
    for nm, cls, msg in mutarg_view_cases():
        sig = f"C06|{cls}|mutated-view-argument"
        if sig not in mseen:
            mseen.add(sig)
            out.violations.append(Violation(sig, msg, {"kind": "mutarg", "name": nm}))
    out.evaluations += 2 * len(MUTARG_VIEWS)
    out.stats["mutated_view_argument_cases"] = 2 * len(MUTARG_VIEWS)
    out.stats["later_view_cases"] = {"cases": len(lres), "chain_is_a_view": nview}
    layout_corr(ctx, out)
    out.assumptions = ["H_layout: the base's gradient has the memory layout of the base's data (monitored on every case)"]
    return out


def check_witness(w):
    if "seed" in w:
        for cls, msg in seed_case(w["seed"]):
            return Violation(f"C06|{cls}|{w['seed']}-seed", msg, {"kind": "seed", "seed": w["seed"]})
        return None
    r = order_case((w["args"][0], tuple(w["args"][1]), w["args"][2]))
    for cls, msg in r["fails"]:
        return Violation(f"C06|{cls}|first-contribution-layout", f"view {r['view']}, consumers {r['order']}: {msg}", {"kind": "order", "args": w["args"]})
    return None


def replay(data) -> bool:
    r = data["replay"]
    if r.get("kind") == "seed":
        f = seed_case(r["seed"])
        print(f)
        return bool(f)
    if r.get("kind") == "mutarg":
        f = mutarg_view_cases(only=r["name"])
        print(f)
        return bool(f)
    if r.get("kind") == "later":
        res = later_view_case(tuple(r["args"]))
        print(res)
        return bool(res["fails"])
    if r.get("kind") == "order":
        res = order_case((r["args"][0], tuple(r["args"][1]), r["args"][2]))
        print(res)
        return bool(res["fails"])
    p = r["program"]
    for st in p:
        print(progs.to_line(st))
    f = (oracle_epochs if str(r.get("class", "")).startswith("epoch-") else oracle)(p, 0)
    print("oracle:", f)
    return bool(f)


MANIFEST = {
    "category": "proof",
    "design_ref": "DESIGN.md §5 C06",
    "technique": "Lean 4 theorems on the strided-descriptor model (replaying a view chain on an array of the same layout yields "
                 "the same positions, hence a view; counterexample for a different layout) + correspondence of the reshape "
                 "view-or-copy rule with NumPy + memory-sharing oracle over every arrival order of the first contribution",
    "text": "view_grad_is_view: if the base's gradient array is laid out exactly like the base's data (H_layout), "
            "replaying any chain of view ops on it takes the decisions it takes on the data — same success, every "
            "step a view iff it is one on the data, same positions — so the view's gradient is available, equals "
            "the chain applied to the base's gradient and shares its memory, for every chain of slices, "
            "transposes, reshapes, new axes. view_grad_neg: without H_layout the statement is false in the "
            "descriptor model (base (2,3), gradient F-ordered, view reshape(6): NumPy must copy). "
            "reshape_contig_is_view / permuting_views_never_copy characterise when replays are views. The "
            "descriptor model's view-or-copy rule is compared with NumPy on random strided windows; the oracle "
            "checks value, availability and memory sharing for every (view, base) pair, with each consumer "
            "contributing first (17 view chains x all orderings of up to 3 of 9 consumers), on C- and Fortran-ordered "
            "bases, and in multi-epoch histories for every view created since the last backward/clear_graph (the "
            "base found by walking the view ops recorded in the current epoch, not by trusting .base).",
    "note": "Trusted: Lean kernel, standard axioms, the harness; H_layout is a hypothesis the proof forces and is monitored on "
            "the implementation in every case (it is what the first-contribution copy must guarantee).",
}

MANIFEST_ADDENDUM = 'Oracle additions: 441 histories in which the view chain is taken after backward() (or both before and after) from a C-/Fortran-ordered owner or a former view, with op-made, default, scalar and caller-supplied (C-ordered, Fortran-ordered, broadcast) array seeds, followed by `.shape =` inside no_autodiff; view elements are identified by memory address (any layout of base and view); 18 views made with mutable argument objects (tensor/array-valued indices and slice bounds, list-valued shapes/axes) that the caller changes before the gradient is read. Also proved: permuting_views_layout_independent (for every view op other than basic indexing and reshape, success, result shape and view-ness depend on the operand`s shape only, never on offset or strides: reshape is the one layout-dependent op) and getitem_layout_independent (the same for basic indexing, by induction over the index tuple).'
