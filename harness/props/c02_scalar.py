"""C02, stratum (a): every element-wise ("scalar") operation's `backward_var` is the exact VJP of its forward.

Tie to the source = TRANSLATOR (DESIGN.md §2.2 (T)), re-run on every check:
  regen  : discover every element-wise Operation class, execute the real `__call__`/`backward_var` on symbolic operands
           (`c02_trace.Sym`), validate the recorded expression tree BITWISE against the method it came from, and print it
           as Lean definitions over ℝ into lean/MG/Gen/ScalarOps.lean (written only if the content changed);
  Lean   : lean/MG/Proofs/C02Scalar/*.lean prove, per (op, operand), `∃ d, HasDerivAt fwd d x ∧ ∀ g, bwd g x = g * d`
           under NumPy's domain hypotheses, plus the documented conventions at non-differentiable points;
  run    : bitwise validation again (counted as traces_validated), then the direct ORACLE on the implementation,
           independent of Lean: real gradients (through `Tensor._op(...).backward(g)`) vs a 50-digit mpmath derivative of
           the forward function; convention points, where= masks and broadcast reduction checked exactly.
"""
from __future__ import annotations

import inspect
import json
import math
import os
import subprocess
import sys
import time
from pathlib import Path
from typing import Any, Dict, List, Optional, Tuple

import numpy as np

import mygrad as mg
import mygrad.nnet  # noqa: F401  (registers the activation / layer / loss Operation classes)
from mygrad.operation_base import BinaryUfunc, Operation, Ufunc, UnaryUfunc

from ..core import LEAN, VERIF, CorrBreak, Ctx, Outcome, Violation, pmap, stable_hash
from . import c02_trace as T
from .c02_trace import FakeT, Sym, Untraceable

ID = "C02"
LEVEL = "proof"
GEN_FILE = LEAN / "MG" / "Gen" / "ScalarOps.lean"
MP_HELPER = VERIF / "harness" / "c02_mp_oracle.py"
NS = "MG.C02"
PROOF_PKG = "MG.Proofs.C02Scalar"

# ---------------------------------------------------------------------------------------------- discovery
#
# Operation classes that are NOT element-wise: they belong to the structured stratum (c02_struct).  Every other
# concrete Operation subclass found by walking `Operation.__subclasses__()` is an obligation of this module: it must
# trace and must have theorems, otherwise it is reported (never skipped).
STRUCT_OPS = {
    "GetItem", "SetItem", "ApplyMask", "UnView", "Where", "EinSum", "Norm", "MatMul", "CumProd", "CumSum", "Max", "Min",
    "Mean", "Prod", "StdDev", "Sum", "Variance", "LogSoftmax", "Softmax", "BatchNorm", "ConvND", "GRUnit", "MaxPoolND",
    "FocalLoss", "MarginRanking", "MulticlassHinge", "SoftmaxCrossEntropy", "AtLeast1D", "AtLeast2D", "AtLeast3D",
    "BroadcastTo", "ExpandDims", "Flatten", "Ravel", "Reshape", "Squeeze", "_AtLeastKD", "Concatenate", "Stack",
    "Repeat", "MoveAxis", "Roll", "SwapAxes", "Tensor_Transpose_Property", "Transpose",
    # n-ary element-wise sequences: variable arity and (MultiplySequence) a data-dependent whole-array branch
    "AddSequence", "MultiplySequence",
}


def _walk(c, seen):
    for s in c.__subclasses__():
        if s not in seen:
            seen.add(s)
            _walk(s, seen)
    return seen


def discover() -> List[type]:
    out = []
    for c in sorted(_walk(Operation, set()), key=lambda c: (c.__module__, c.__name__)):
        if inspect.isabstract(c) or not c.__module__.startswith("mygrad"):
            continue
        if issubclass(c, Ufunc):
            uf = getattr(c, "numpy_ufunc", None)
            if isinstance(uf, np.ufunc) and uf.signature is None and uf.nout == 1:
                out.append(c)
                continue
        if c.__name__ in STRUCT_OPS:
            continue
        out.append(c)
    return out


# ---------------------------------------------------------------------------------------------- per-op table
#
# One entry per *unit* (an op class in one configuration).  `thms[i]` are the theorem names (namespace MG.C02) that
# discharge operand i; `conv` the convention theorems.  A discovered class without an entry is an unmodelled obligation.
# dom: how the oracle samples the differentiable domain (see `sample_points`).


class U:
    def __init__(self, cls_name, file, thms, dom, *, unit=None, params=(), call_kwargs=None, conv=(), partial=(),
                 kinks=()):
        self.cls_name = cls_name
        self.unit = unit or cls_name
        self.file = file
        self.thms = thms
        self.dom = dom
        self.params = list(params)
        self.call_kwargs = call_kwargs or {}
        self.conv = list(conv)  # [(theorem name, checker key)]
        self.partial = list(partial)
        self.kinks = list(kinks)


def _u1(name, file, dom, **kw):
    return U(name, file, {0: [f"{name}_vjp0"]}, dom, **kw)


def _u2(name, file, dom, **kw):
    return U(name, file, {0: [f"{name}_vjp0"], 1: [f"{name}_vjp1"]}, dom, **kw)


UNITS: List[U] = [
    # ---- arithmetic
    _u2("Add", "Arith", "R2"),
    _u2("Subtract", "Arith", "R2"),
    _u2("Multiply", "Arith", "R2"),
    _u2("Divide", "Arith", "y!=0"),
    U("Power", "Arith", {0: ["Power_vjp0"], 1: ["Power_vjp1"]}, "pow", conv=[("Power_vjp1_at_zero", "pow_zero_base")]),
    _u1("Reciprocal", "Arith", "x!=0"),
    _u1("Square", "Arith", "R"),
    _u1("Positive", "Arith", "R"),
    _u1("Negative", "Arith", "R"),
    # ---- exp / log
    _u1("Exp", "ExpLog", "R"),
    _u1("Exp2", "ExpLog", "R"),
    _u1("Expm1", "ExpLog", "R"),
    _u1("Log", "ExpLog", "x>0"),
    _u1("Log2", "ExpLog", "x>0"),
    _u1("Log10", "ExpLog", "x>0"),
    _u1("Log1p", "ExpLog", "x>-1"),
    _u2("Logaddexp", "ExpLog", "R2"),
    _u2("Logaddexp2", "ExpLog", "R2"),
    # ---- trigonometric
    _u1("Sin", "Trig", "R"),
    _u1("Cos", "Trig", "R"),
    _u1("Tan", "Trig", "cos!=0"),
    U("Sinc", "Trig", {0: ["Sinc_vjp0"]}, "sinc", conv=[("Sinc_at_zero", "sinc_zero")]),
    _u1("Csc", "Trig", "sin!=0"),
    _u1("Sec", "Trig", "cos!=0"),
    _u1("Cot", "Trig", "sin!=0"),
    U("Arcsin", "InvTrig", {0: ["Arcsin_vjp0"]}, "|x|<1", conv=[("Arcsin_at_one", "zero_at_pm1")]),
    U("Arccos", "InvTrig", {0: ["Arccos_vjp0"]}, "|x|<1", conv=[("Arccos_at_one", "zero_at_pm1")]),
    _u1("Arctan", "InvTrig", "R"),
    U("Arccsc", "InvTrig", {0: ["Arccsc_vjp0"]}, "|x|>1", conv=[("Arccsc_at_one", "zero_at_pm1")]),
    U("Arcsec", "InvTrig", {0: ["Arcsec_vjp0"]}, "|x|>1", conv=[("Arcsec_at_one", "zero_at_pm1")]),
    _u1("Arccot", "InvTrig", "x!=0"),
    _u2("Arctan2", "InvTrig", "slit"),
    # ---- hyperbolic
    _u1("Sinh", "Hyp", "R"),
    _u1("Cosh", "Hyp", "R"),
    _u1("Tanh", "Hyp", "R"),
    _u1("Csch", "Hyp", "x!=0"),
    _u1("Sech", "Hyp", "R"),
    _u1("Coth", "Hyp", "x!=0"),
    _u1("Arcsinh", "InvHyp", "R"),
    _u1("Arccosh", "InvHyp", "x>1"),
    _u1("Arctanh", "InvHyp", "|x|<1"),
    _u1("Arccsch", "InvHyp", "x!=0"),
    _u1("Arccoth", "InvHyp", "|x|>1"),
    # ---- misc
    U("Abs", "Misc", {0: ["Abs_vjp0_pos", "Abs_vjp0_neg"]}, "x!=0", conv=[("Abs_at_zero", "abs_zero")], kinks=[0.0]),
    U("Abs", "Misc", {0: ["AbsNoNanToNum_vjp0"]}, "x!=0", unit="AbsNoNanToNum", call_kwargs={"nan_to_num": False},
      conv=[("AbsNoNanToNum_at_zero", "abs_zero_nan")], kinks=[0.0]),
    _u1("Sqrt", "Misc", "x>0"),
    _u1("Cbrt", "Misc", "x!=0"),
    U("Maximum", "Misc", {0: ["Maximum_vjp0_gt", "Maximum_vjp0_lt"], 1: ["Maximum_vjp1_gt", "Maximum_vjp1_lt"]}, "x!=y",
      conv=[("Maximum_tie", "tie")]),
    U("Minimum", "Misc", {0: ["Minimum_vjp0_gt", "Minimum_vjp0_lt"], 1: ["Minimum_vjp1_gt", "Minimum_vjp1_lt"]}, "x!=y",
      conv=[("Minimum_tie", "tie")]),
    # ---- nnet activations that are Operations
    _u1("Sigmoid", "Nnet", "R"),
    U("ReLu", "Nnet", {0: ["ReLu_vjp0_pos", "ReLu_vjp0_neg"]}, "x!=0", conv=[("ReLu_at_zero", "relu_zero")],
      kinks=[0.0]),
    U("ELU", "Nnet", {0: ["ELU_vjp0_pos", "ELU_vjp0_neg"]}, "x!=0", params=["alpha"], conv=[("ELU_at_zero", "elu_zero")],
      kinks=[0.0]),
    U("SELU", "Nnet", {0: ["SELU_vjp0_pos", "SELU_vjp0_neg"]}, "x!=0", conv=[("SELU_at_zero", "selu_zero")],
      kinks=[0.0]),
]
UNIT_BY_NAME = {u.unit: u for u in UNITS}
FILES = ["Arith", "ExpLog", "Trig", "InvTrig", "Hyp", "InvHyp", "Misc", "Nnet"]
UNMODELLED_FILE = "Nnet"  # module under which theorems of newly discovered, unmodelled ops are demanded


def units_for_discovered() -> Tuple[List[Tuple[U, type]], List[type], List[U]]:
    """-> (modelled [(unit, class)], discovered classes without a table entry, table entries whose class vanished)"""
    classes = discover()
    by_name = {c.__name__: c for c in classes}
    modelled, vanished = [], []
    for u in UNITS:
        c = by_name.get(u.cls_name)
        if c is None:
            vanished.append(u)
        else:
            modelled.append((u, c))
    known = {u.cls_name for u in UNITS}
    unmodelled = [c for c in classes if c.__name__ not in known]
    return modelled, unmodelled, vanished


def _theorems() -> Dict[str, List[str]]:
    modelled, unmodelled, _ = units_for_discovered()
    th: Dict[str, List[str]] = {f"{PROOF_PKG}.{f}": [] for f in FILES}
    for u, _c in modelled:
        m = f"{PROOF_PKG}.{u.file}"
        for i in sorted(u.thms):
            th[m] += [f"{NS}.{t}" for t in u.thms[i]]
        th[m] += [f"{NS}.{t}" for t, _ in u.conv]
    for c in unmodelled:  # demanded but absent -> audit failure "theorem not found" -> broken obligation
        n = _nin_guess(c)
        th[f"{PROOF_PKG}.{UNMODELLED_FILE}"] += [f"{NS}.{c.__name__}_vjp{i}" for i in range(n)]
    return {m: v for m, v in th.items() if v}


def _nin_guess(c) -> int:
    if issubclass(c, Ufunc):
        return c.numpy_ufunc.nin
    try:
        ps = [p for p in list(inspect.signature(c.__call__).parameters.values())[1:]
              if p.kind in (p.POSITIONAL_ONLY, p.POSITIONAL_OR_KEYWORD) and p.default is p.empty]
        return max(1, len(ps))
    except Exception:
        return 1


# ---------------------------------------------------------------------------------------------- tracing

VARS = ["x", "y", "z"]


class Trace:
    def __init__(self, unit: str, cls: type, nin: int, params: List[str], call_kwargs: dict):
        self.unit, self.cls, self.nin, self.params, self.call_kwargs = unit, cls, nin, params, call_kwargs
        self.fwd_raw = None
        self.fwd = None  # core IR
        self.bwd_raw: Dict[int, Any] = {}
        self.bwd: Dict[int, Any] = {}
        self.errors: Dict[str, str] = {}  # "fwd" | "bwd<i>" -> reason

    @property
    def vars(self):
        return VARS[: self.nin]


def trace_unit(unit: str, cls: type, nin: int, params=(), call_kwargs=None) -> Trace:
    tr = Trace(unit, cls, nin, list(params), dict(call_kwargs or {}))
    for idx in [None] + list(range(nin)):
        key = "fwd" if idx is None else f"bwd{idx}"
        try:
            with T.patched_numpy(), np.errstate(all="ignore"):
                op = cls()
                ops = [FakeT(v) for v in tr.vars]
                pars = [Sym("var", p) for p in tr.params]
                out = op(*ops, *pars, **tr.call_kwargs)
                if idx is None:
                    raw = out
                else:
                    raw = op.backward_var(Sym("var", "g"), idx)
            if not isinstance(raw, Sym):
                raw = T.lift(raw)
            core = T.as_real(T.lower(raw))
            extra = T.free_vars(core) - set(tr.vars) - set(tr.params) - ({"g"} if idx is not None else set())
            if extra:
                raise Untraceable(f"free variables {sorted(extra)}")
            if idx is None:
                tr.fwd_raw, tr.fwd = raw, core
            else:
                tr.bwd_raw[idx], tr.bwd[idx] = raw, core
        except Exception as e:  # Untraceable, or whatever the op raised on symbolic operands
            tr.errors[key] = f"{type(e).__name__}: {e}"[:300]
    return tr


def trace_all() -> Tuple[List[Trace], List[type], List[U]]:
    modelled, unmodelled, vanished = units_for_discovered()
    traces = []
    for u, c in modelled:
        nin = c.numpy_ufunc.nin if issubclass(c, Ufunc) else len(u.thms)
        traces.append(trace_unit(u.unit, c, nin, u.params, u.call_kwargs))
    for c in unmodelled:
        traces.append(trace_unit(c.__name__, c, _nin_guess(c)))
    return traces, unmodelled, vanished


# ---------------------------------------------------------------------------------------------- bitwise validation

_SPECIAL = [0.0, -0.0, 1.0, -1.0, 0.5, -0.5, 2.0, -2.0, 3.0, 1e-200, -1e-200, 1e-163, 1e-161, 1e300, -1e300, 710.0, -746.0,
            np.pi, -np.pi, np.pi / 2, 1 - 2 ** -53, 1 + 2 ** -52, -1 + 2 ** -53, 1e-8, 100.0, np.inf, -np.inf, np.nan]


def _draw_operands(rng: np.random.Generator, nin: int, trial: int, n: int = 9) -> Dict[str, np.ndarray]:
    env = {}
    style = trial % 5
    for v in VARS[:nin]:
        if style == 0:
            a = rng.uniform(0.05, 0.95, n)
        elif style == 1:
            a = rng.normal(size=n) * 3
        elif style == 2:
            a = rng.uniform(1.05, 4.0, n) * rng.choice([-1.0, 1.0], n)
        elif style == 3:
            a = rng.choice(_SPECIAL, n)
        else:
            a = np.exp(rng.uniform(-40, 40, n)) * rng.choice([-1.0, 1.0], n)
            a[rng.integers(0, n)] = rng.integers(-3, 4)
        env[v] = np.ascontiguousarray(a, dtype=np.float64)
    if nin == 2 and trial % 3 == 0:  # ties
        k = rng.integers(1, n)
        env["y"][:k] = env["x"][:k]
    env["g"] = rng.normal(size=n) if trial % 7 else rng.choice([0.0, 1.0, -1.0, 2.5], n)
    return env


def _param_value(rng, name):
    return float(rng.choice([1.0, 0.5, 2.0, 0.1, float(rng.uniform(0.05, 3.0))]))


def _same_bits(a, b) -> bool:
    a, b = np.asarray(a), np.asarray(b)
    if a.shape != b.shape:
        try:
            a, b = np.broadcast_arrays(a, b)
        except ValueError:
            return False
    a = np.ascontiguousarray(a, dtype=np.float64)
    b = np.ascontiguousarray(b, dtype=np.float64)
    return a.tobytes() == b.tobytes()


def validate_trace(tr: Trace, seed: int, draws: int) -> Dict[str, Any]:
    """the tie: raw IR (same NumPy calls) and core IR (what is printed to Lean / sent to mpmath) must both reproduce the
    real forward and the real backward_var bit for bit on `draws` random operand draws per operand index"""
    res = {"unit": tr.unit, "validated": 0, "mismatch": []}
    rng = np.random.default_rng([seed, abs(hash(tr.unit)) % (2 ** 31)] if False else [seed, sum(map(ord, tr.unit))])
    keys = (["fwd"] if tr.fwd is not None else []) + [f"bwd{i}" for i in sorted(tr.bwd)]
    for key in keys:
        ok = True
        for trial in range(draws):
            env = _draw_operands(rng, tr.nin, trial)
            for p in tr.params:
                env[p] = _param_value(rng, p)
            with np.errstate(all="ignore"):
                op = tr.cls()
                tens = [mg.tensor(env[v].copy(), constant=False) for v in tr.vars]
                out = op(*tens, *[env[p] for p in tr.params], **tr.call_kwargs)
                if key == "fwd":
                    real, raw, core = out, tr.fwd_raw, tr.fwd
                else:
                    i = int(key[3:])
                    real, raw, core = op.backward_var(env["g"].copy(), i), tr.bwd_raw[i], tr.bwd[i]
                real = np.asarray(real)
                e2 = {k: (v.copy() if isinstance(v, np.ndarray) else v) for k, v in env.items()}
                mine = np.asarray(T.ev(raw, e2))
                low = np.asarray(T.core_eval(core, env))
            if not _same_bits(real, mine):
                res["mismatch"].append({"key": key, "stage": "raw-IR", "trial": trial})
                ok = False
                break
            if not _same_bits(real, low):
                bad = np.flatnonzero(np.broadcast_to(real, np.broadcast(real, low).shape).view(np.int64).ravel()
                                     != np.broadcast_to(low, np.broadcast(real, low).shape).astype(np.float64).view(np.int64).ravel())
                j = int(bad[0]) if len(bad) else 0
                res["mismatch"].append({"key": key, "stage": "core-IR", "trial": trial,
                                        "at": {k: (float(np.asarray(v).ravel()[j % np.asarray(v).size])) for k, v in env.items()},
                                        "real": float(np.ravel(np.broadcast_to(real, np.broadcast(real, low).shape))[j]),
                                        "ir": float(np.ravel(np.broadcast_to(low, np.broadcast(real, low).shape))[j])})
                ok = False
                break
        res["validated"] += ok
    return res


# ---------------------------------------------------------------------------------------------- regen (translator)

GEN_HEADER = """\
import MG.Proofs.Lemmas.NumpyReal

/-!
# GENERATED — do not edit.  Rewritten by `harness/props/c02_scalar.py` (`regen`) on every `./check C02`.

Every element-wise `Operation` of `/repo/src/mygrad` in one place: `fwd_<Op>` is its forward pass, `bwd_<Op>_<i>` what
`backward_var(grad, i)` returns, both obtained by executing the real methods on symbolic operands and validated
bit-for-bit against those methods.  NumPy ufuncs are read as the real functions of the table in `c02_trace.py`
(`LEAN_UN`, `LEAN_BIN`; `MG.NP.*` are defined in `MG/Proofs/Lemmas/NumpyReal.lean`).  Float literals are printed as the
decimal they denote, except the whitelisted `log 2`, `log 10`, `π`, `π/2` (checked bitwise).
`dom_bwd_<Op>_<i>` states that the selected branches of the backward formula are evaluated inside the domain of every
primitive (Lean's reals are total: `x / 0 = 0`; NumPy's are not) — the convention theorems assert it next to the value.
-/

set_option linter.unusedVariables false

namespace MG.Gen.Scalar
"""


def _binder(names):
    return f"({' '.join(names)} : ℝ)" if names else ""


def render_gen(traces: List[Trace]) -> str:
    out = [GEN_HEADER]
    for tr in traces:
        out.append(f"\n-- {tr.cls.__module__}.{tr.cls.__name__}" + (f"  {tr.call_kwargs}" if tr.call_kwargs else ""))
        pv = tr.params + tr.vars
        if tr.fwd is not None:
            try:
                out.append(f"noncomputable def fwd_{tr.unit} {_binder(pv)} : ℝ :=\n  {T.lean(tr.fwd)}")
            except Untraceable as e:
                tr.errors["fwd"] = f"Untraceable: {e}"
        if "fwd" in tr.errors:
            out.append(f"-- UNTRACEABLE fwd_{tr.unit}: {tr.errors['fwd']}".replace("\n", " "))
        for i in range(tr.nin):
            key = f"bwd{i}"
            if i in tr.bwd:
                try:
                    if T.has_nan(tr.bwd[i]):
                        out.append(f"noncomputable def bwd_{tr.unit}_{i} {_binder(tr.params + ['g'] + tr.vars)} : Option ℝ :=\n"
                                   f"  {T.lean_opt(tr.bwd[i])}")
                    else:
                        out.append(f"noncomputable def bwd_{tr.unit}_{i} {_binder(tr.params + ['g'] + tr.vars)} : ℝ :=\n"
                                   f"  {T.lean(tr.bwd[i])}")
                    out.append(f"/-- NumPy evaluates the selected branches of `bwd_{tr.unit}_{i}` without dividing by zero, "
                               f"taking a logarithm/root outside its domain, ... -/\n"
                               f"def dom_bwd_{tr.unit}_{i} {_binder(tr.params + ['g'] + tr.vars)} : Prop :=\n"
                               f"  {T.lean_dom(tr.bwd[i])}")
                except Untraceable as e:
                    tr.errors[key] = f"Untraceable: {e}"
            if key in tr.errors:
                out.append(f"-- UNTRACEABLE bwd_{tr.unit}_{i}: {tr.errors[key]}".replace("\n", " "))
    out.append("\nend MG.Gen.Scalar\n")
    return "\n".join(out)


def regen(ctx: Optional[Ctx] = None) -> List[Trace]:
    traces, _unmodelled, _vanished = trace_all()
    txt = render_gen(traces)
    GEN_FILE.parent.mkdir(parents=True, exist_ok=True)
    if not GEN_FILE.exists() or GEN_FILE.read_text() != txt:
        GEN_FILE.write_text(txt)
    return traces


# ---------------------------------------------------------------------------------------------- oracle: sampling


def _mag(rng, lo, hi):
    return 10.0 ** rng.uniform(lo, hi)


def _pos(rng):
    """a positive real: bulk, tiny, edge-near and moderately large values"""
    r = rng.random()
    if r < 0.45:
        return rng.uniform(0.01, 5.0)
    if r < 0.65:
        return _mag(rng, -12, -2)
    if r < 0.8:
        return rng.choice([0.5, 1.0, 2.0, 3.0, 0.25, 1.5, 4.0, 10.0])
    if r < 0.93:
        return rng.uniform(5.0, 40.0)
    return _mag(rng, 1.6, 2.45)  # 40 .. 280 (cosh(x)^2 stays finite)


def _real(rng):
    r = rng.random()
    if r < 0.06:
        return 0.0
    v = _pos(rng)
    return v if rng.random() < 0.5 else -v


def _unit_open(rng):
    """(-1, 1), with points within 1e-12 of the edges"""
    r = rng.random()
    if r < 0.5:
        v = rng.uniform(0.0, 1.0)
    elif r < 0.6:
        v = rng.choice([0.0, 0.5, 0.25, 0.75, 0.125])
    elif r < 0.8:
        v = _mag(rng, -10, -1)
    else:
        v = 1.0 - _mag(rng, -12, -1)
    v = min(v, 1.0 - 2.0 ** -40)
    return v if rng.random() < 0.5 else -v


def _gt_one(rng):
    r = rng.random()
    if r < 0.3:
        return 1.0 + _mag(rng, -12, -1)
    if r < 0.4:
        return rng.choice([2.0, 3.0, 1.5, 1.25, 10.0])
    return 1.0 + _pos(rng)


def sample_point(dom: str, idx: int, rng) -> Optional[Dict[str, float]]:
    """one point of the differentiable domain `dom` (None = rejected draw)"""
    if dom == "R":
        return {"x": _real(rng)}
    if dom == "R2":
        return {"x": _real(rng), "y": _real(rng)}
    if dom == "x>0":
        return {"x": _pos(rng)}
    if dom == "x>-1":
        return {"x": -1.0 + _pos(rng)}
    if dom == "x>1":
        return {"x": _gt_one(rng)}
    if dom == "x!=0":
        return {"x": _pos(rng) * rng.choice([-1.0, 1.0])}
    if dom == "|x|<1":
        return {"x": _unit_open(rng)}
    if dom == "|x|>1":
        return {"x": _gt_one(rng) * rng.choice([-1.0, 1.0])}
    if dom == "y!=0":
        return {"x": _real(rng), "y": _pos(rng) * rng.choice([-1.0, 1.0])}
    if dom in ("cos!=0", "sin!=0"):
        x = _real(rng)
        if abs(x) > 60:
            x = math.fmod(x, 60.0)
        f = math.cos(x) if dom == "cos!=0" else math.sin(x)
        return {"x": x} if abs(f) > 1e-3 else None
    if dom == "sinc":
        r = rng.random()
        if r < 0.15:
            x = float(rng.randint(1, 9)) * rng.choice([-1.0, 1.0])
        elif r < 0.3:
            x = (rng.randint(0, 9) + 0.5) * rng.choice([-1.0, 1.0])
        elif r < 0.45:
            x = _mag(rng, -150, -3) * rng.choice([-1.0, 1.0])
        else:
            x = _real(rng)
        return {"x": x} if abs(x) > 1e-161 else None
    if dom == "slit":
        x, y = _real(rng), _real(rng)
        if rng.random() < 0.15:
            y = 0.0
        if rng.random() < 0.1:
            x = 0.0
        return {"x": x, "y": y} if (y > 0 or x != 0) else None
    if dom == "pow":
        r = rng.random()
        y = rng.choice([rng.uniform(-6, 6), float(rng.randint(-4, 6)), rng.choice([0.5, -0.5, 1.5, 1.0, 2.0, 0.0])])
        if idx == 0 and r < 0.2:  # negative base, integer exponent
            return {"x": -min(_pos(rng), 30.0), "y": float(rng.randint(-4, 6))}
        if idx == 0 and r < 0.27:  # zero base, exponent >= 1
            return {"x": 0.0, "y": rng.choice([1.0, 2.0, 3.0, 4.0, 7.0])}  # two-sided derivative: integer exponent
        x = rng.choice([rng.uniform(0.01, 5.0), _mag(rng, -3, 2), 1.0, 2.0, 10.0])
        return {"x": x, "y": y}
    if dom == "x!=y":
        x, y = _real(rng), _real(rng)
        r = rng.random()
        if r < 0.2:
            y = x * (1.0 + rng.choice([-1, 1]) * _mag(rng, -14, -6)) if x != 0 else _mag(rng, -30, -1)
        elif r < 0.3:
            y = float(np.nextafter(x, rng.choice([-np.inf, np.inf])))
        return {"x": x, "y": y} if abs(x - y) > 1e-90 else None  # the oracle's difference steps are <= 1e-54
    raise KeyError(f"unknown domain {dom}")


_NICE = {
    "R": [{"x": v} for v in (1.0, 2.0, -1.0, 0.5, 0.0, 3.0, -2.0)],
    "R2": [{"x": a, "y": b} for a in (1.0, 2.0, -1.0, 0.0) for b in (1.0, 3.0, -2.0)],
    "x>0": [{"x": v} for v in (1.0, 2.0, 0.5, 3.0, 4.0)],
    "x>-1": [{"x": v} for v in (0.0, 1.0, -0.5, 2.0)],
    "x>1": [{"x": v} for v in (2.0, 3.0, 1.5)],
    "x!=0": [{"x": v} for v in (1.0, 2.0, -1.0, 0.5, -2.0, 3.0)],
    "|x|<1": [{"x": v} for v in (0.5, 0.0, -0.5, 0.25, 0.75)],
    "|x|>1": [{"x": v} for v in (2.0, -2.0, 3.0, 1.5, -1.5)],
    "y!=0": [{"x": a, "y": b} for a in (1.0, 2.0, -1.0, 0.0) for b in (1.0, 2.0, -2.0)],
    "cos!=0": [{"x": v} for v in (0.0, 1.0, 2.0, -1.0, 0.5)],
    "sin!=0": [{"x": v} for v in (1.0, 2.0, -1.0, 0.5)],
    "sinc": [{"x": v} for v in (1.0, 0.5, 2.0, -1.0, 0.25)],
    "slit": [{"x": a, "y": b} for a in (1.0, -1.0, 2.0) for b in (1.0, -1.0, 0.0, 2.0)] + [{"x": 0.0, "y": 1.0}],
    "pow": [{"x": a, "y": b} for a in (2.0, 1.0, 3.0, 0.5) for b in (2.0, 3.0, 0.5, -1.0, 0.0, 1.0)],
    "x!=y": [{"x": a, "y": b} for a in (1.0, 2.0, -1.0, 0.0) for b in (3.0, -2.0, 0.5)],
}


def sample_points(dom: str, idx: int, rng, n: int, params: List[str]) -> List[Dict[str, float]]:
    pts = [dict(p) for p in _NICE.get(dom, [])]
    for p in pts:
        p["g"] = 1.0
    tries = 0
    while len(pts) < n and tries < 50 * n:
        tries += 1
        p = sample_point(dom, idx, rng)
        if p is None:
            continue
        r = rng.random()
        p["g"] = 1.0 if r < 0.2 else (rng.gauss(0, 1) if r < 0.8 else rng.gauss(0, 1) * _mag(rng, -6, 6))
        if p["g"] == 0.0:
            p["g"] = 1.0
        pts.append(p)
    alphas = [1.0, 0.5, 2.0] + [rng.uniform(0.05, 3.0) for _ in range(2)]
    for k, p in enumerate(pts):
        for name in params:
            p[name] = alphas[k % len(alphas)]
    return pts


# ---------------------------------------------------------------------------------------------- oracle: evaluation


def real_grads(cls, nin: int, params: List[str], call_kwargs: dict, pts: List[Dict[str, float]], idx: int,
               shape0d: bool = False):
    """gradient of operand `idx` and forward value computed by the REAL implementation through the public machinery:
    Tensor._op(Op, ...) then .backward(g).  Points sharing parameter values are evaluated as one array."""
    got = [None] * len(pts)
    fwd = [None] * len(pts)
    groups: Dict[tuple, List[int]] = {}
    for k, p in enumerate(pts):
        groups.setdefault(tuple(p[n] for n in params), []).append(k)
    for pv, ks in groups.items():
        arrs = [np.array([pts[k][v] for k in ks], dtype=np.float64) for v in VARS[:nin]]
        g = np.array([pts[k]["g"] for k in ks], dtype=np.float64)
        with np.errstate(all="ignore"):
            tens = [mg.tensor(a, constant=False) for a in arrs]
            out = mg.Tensor._op(cls, *tens, op_args=tuple(pv), op_kwargs=dict(call_kwargs))
            out.backward(g)
            gr = tens[idx].grad
            od = np.array(out.data, dtype=np.float64)
        gr = np.full(len(ks), np.nan) if gr is None else np.asarray(gr, dtype=np.float64)
        for j, k in enumerate(ks):
            got[k] = float(gr[j])
            fwd[k] = float(od[j])
    return got, fwd


def run_mp(jobs: List[dict], procs: int = 14, dps: int = 50, timeout: int = 3000) -> Dict[str, list]:
    if not jobs:
        return {}
    req = json.dumps({"dps": dps, "procs": procs, "jobs": jobs})
    env = {k: v for k, v in os.environ.items() if k not in ("PYTHONPATH", "PYTHONHOME")}
    r = subprocess.run(["python3-vt", str(MP_HELPER)], input=req, capture_output=True, text=True, timeout=timeout,
                       cwd="/tmp", env=env)
    if r.returncode != 0:
        raise RuntimeError("mpmath helper failed: " + r.stderr[-1500:])
    return json.loads(r.stdout)["results"]


def _ulp(v: float) -> float:
    v = abs(v)
    if not math.isfinite(v):
        return 0.0
    return float(np.spacing(v)) if v > 0 else 5e-324


TOL_K = 8.0  # safety factor on the a-priori float64 error bound of the formula


def judge(p, m, got, fwd_got) -> Optional[Dict[str, Any]]:
    """compare one point: m = mp helper record.  -> failure description or None"""
    exp = m["exp"]
    if not math.isfinite(exp) or abs(exp) > 1e290 or abs(m.get("fwd", 0.0)) > 1e290:
        return {"skip": "overflow"}
    if "bound" in m:
        tol = TOL_K * m["bound"] + 4 * _ulp(exp) + 1e-300
    else:  # backward could not be traced: fixed relative gate
        tol = 1e-8 * abs(exp) + 1e-12
    if not math.isfinite(got) or abs(got - exp) > tol:
        return {"class": "wrong-derivative", "expected": exp, "got": got, "tolerance": tol,
                "why": "gradient from the implementation differs from g * d(forward)/d(operand) (50-digit mpmath)"}
    if "hp_abs" in m:
        lim = 1e-25 * abs(exp) + 1e-30 * m.get("bound", 0.0) + 1e-300
        if m["hp_abs"] > lim:
            return {"class": "wrong-derivative", "expected": exp, "got": got, "tolerance": tol,
                    "formula_rel_err_50_digits": m["hp_rel"],
                    "why": "the traced backward formula, evaluated with 50 digits, is not g * d(forward)/d(operand)"}
    f = m.get("fwd")
    if f is not None and math.isfinite(fwd_got) and abs(fwd_got - f) > 1e-9 * abs(f) + 1e-12:
        return {"class": "wrong-derivative", "expected_forward": f, "got_forward": fwd_got, "expected": exp, "got": got,
                "why": "the forward value is not the function that was differentiated (ufunc table / forward trace)"}
    return None


def oracle_unit(u: U, tr: Trace, seed_rng, n: int) -> Dict[str, Any]:
    """prepare the points of one unit (all operand indices)"""
    jobs, meta = [], []
    for idx in range(tr.nin):
        if tr.fwd is None:
            continue
        pts = sample_points(u.dom, idx, seed_rng(u.unit, idx), n, tr.params)
        jobs.append({"id": f"{u.unit}|{idx}", "fwd": tr.fwd, "bwd": tr.bwd.get(idx), "wrt": VARS[idx], "points": pts})
        meta.append((idx, pts))
    return {"jobs": jobs, "meta": meta}


def _simplicity(p):
    return sum(len(repr(v)) for k, v in sorted(p.items()))


# ---------------------------------------------------------------------------------------------- conventions (exact)


def _op_grads(cls, arrays, g, op_args=(), op_kwargs=None):
    with np.errstate(all="ignore"):
        tens = [mg.tensor(np.array(a, dtype=np.float64), constant=False) for a in arrays]
        out = mg.Tensor._op(cls, *tens, op_args=tuple(op_args), op_kwargs=dict(op_kwargs or {}))
        out.backward(np.array(g, dtype=np.float64))
    return [None if t.grad is None else np.array(t.grad) for t in tens], np.array(out.data)


_SELU_SCALE = 1.0507009873554804934193349852946


def convention_cases(u: U, cls) -> List[Dict[str, Any]]:
    """[(theorem, inputs, g, expected per operand)] — evaluated on 0-d, 1-d and 2-d operands"""
    cases = []

    def add(thm, inputs, g, expected, **kw):
        cases.append({"thm": thm, "inputs": inputs, "g": g, "expected": expected, **kw})

    for thm, key in u.conv:
        if key == "abs_zero":
            for z in (0.0, -0.0):
                add(thm, [z], 3.0, [0.0])
        elif key == "abs_zero_nan":
            add(thm, [0.0], 3.0, [float("nan")])
            add(thm, [2.0], 3.0, [3.0])
            add(thm, [-2.0], 3.0, [-3.0])
        elif key == "tie":
            for v in (0.0, 1.0, -2.5, 1e300, -1e-300):
                add(thm, [v, v], 2.0, [0.0, 0.0])
            add(thm, [0.0, -0.0], 2.0, [0.0, 0.0])
        elif key == "zero_at_pm1":
            for v in (1.0, -1.0):
                add(thm, [v], 5.0, [0.0])
        elif key == "relu_zero":
            add(thm, [0.0], 5.0, [0.0])
            add(thm, [-0.0], 5.0, [0.0])
        elif key == "elu_zero":
            add(thm, [0.0], 5.0, [5.0], args=(0.5,))
        elif key == "selu_zero":
            add(thm, [0.0], 5.0, [5.0 * _SELU_SCALE])
        elif key == "sinc_zero":
            add(thm, [0.0], 5.0, [0.0])
            add(thm, [1e-200], 5.0, [0.0])
        elif key == "pow_zero_base":
            for y in (2.0, 0.5, 3.0):
                add(thm, [0.0, y], 5.0, [None, 0.0])
            add(thm, [0.0, 1.0], 5.0, [5.0, 0.0])
            add(thm, [0.0, 3.0], 5.0, [0.0, 0.0])
            add(thm, [2.0, 0.0], 5.0, [0.0, None])
    return cases


def _eq_exact(a, b) -> bool:
    a, b = float(a), float(b)
    return (a != a and b != b) or a == b


def check_conventions(u: U, cls) -> List[Dict[str, Any]]:
    fails = []
    n_eval = 0
    for c in convention_cases(u, cls):
        for shape in ((), (3,), (2, 2)):
            arrays = [np.full(shape, v) for v in c["inputs"]]
            g = np.full(shape, c["g"])
            try:
                grads, _ = _op_grads(cls, arrays, g, c.get("args", ()), u.call_kwargs)
            except Exception as e:
                fails.append({**c, "shape": list(shape), "got": f"raised {type(e).__name__}: {e}"[:200]})
                continue
            n_eval += 1
            for i, exp in enumerate(c["expected"]):
                if exp is None:
                    continue
                gi = grads[i]
                if gi is None or gi.shape != tuple(shape) or not all(_eq_exact(v, exp) for v in np.ravel(gi)):
                    fails.append({**c, "shape": list(shape), "operand": i,
                                  "got": None if gi is None else [float(v) for v in np.ravel(gi)][:4]})
        # broadcast tie: a scalar operand tied with every element of a vector operand
        if c["thm"].endswith("_tie"):
            v = c["inputs"][0]
            grads, _ = _op_grads(cls, [np.full((3,), v), np.array(c["inputs"][1])], np.full((3,), c["g"]), (), u.call_kwargs)
            n_eval += 1
            if not (np.all(grads[0] == 0) and grads[1].shape == () and float(grads[1]) == 0.0):
                fails.append({**c, "shape": "(3,) vs ()", "got": [g_.tolist() for g_ in grads]})
    return [{"n": n_eval}] + fails


# ---------------------------------------------------------------------------------------------- where= / broadcast

_SMALL = {
    "R": [-3.0, -2.0, -1.0, 1.0, 2.0, 3.0, 0.0], "R2": [-3.0, -2.0, -1.0, 1.0, 2.0, 3.0, 0.0],
    "x>0": [1.0, 2.0, 3.0, 4.0], "x>-1": [0.0, 1.0, 2.0, 3.0], "x>1": [2.0, 3.0, 4.0], "x!=0": [-2.0, -1.0, 1.0, 2.0, 4.0],
    "|x|<1": [-0.5, -0.25, 0.25, 0.5, 0.0], "|x|>1": [-4.0, -2.0, 2.0, 4.0], "y!=0": [-2.0, -1.0, 1.0, 2.0, 4.0],
    "cos!=0": [-2.0, -1.0, 0.0, 1.0, 2.0], "sin!=0": [-2.0, -1.0, 1.0, 2.0], "slit": [1.0, 2.0, 3.0], "pow": [1.0, 2.0, 3.0],
    "x!=y": [-2.0, -1.0, 0.0, 1.0, 2.0], "sinc": [0.5, 1.0, 1.5, 2.0],
}
_INT_CLOSED = {"Add", "Subtract", "Multiply", "Square", "Positive", "Negative", "Abs", "Maximum", "Minimum"}
_SHAPES2 = [((2, 3), (3,)), ((3,), (2, 3)), ((2, 3), ()), ((), (2, 3)), ((2, 1), (1, 3)), ((2, 3), (2, 3)), ((2, 1, 3), (4, 1)),
            ((1,), (3,)), ((2, 0), (1,))]
_SHAPES1 = [(2, 3), (3,), (), (2, 1, 2), (0,)]


def where_broadcast_case(args) -> Dict[str, Any]:
    """ufunc ops only: a where-mask zeroes the masked gradient entries and broadcast operands get sum-reduced gradients.
    Reference: per-element gradients from the same op on fully materialised operands without `where`, then masked and
    summed over the broadcast axes here (exact on the integer-closed ops, fsum otherwise)."""
    unit, seed, k = args
    import random

    u = UNIT_BY_NAME[unit]
    cls = {c.__name__: c for c in discover()}.get(u.cls_name)
    rng = random.Random(f"c02wb:{seed}:{unit}:{k}")
    nin = cls.numpy_ufunc.nin
    vals = _SMALL.get(u.dom, [1.0, 2.0])
    shapes = list(rng.choice(_SHAPES2)) if nin == 2 else [rng.choice(_SHAPES1)]
    out_shape = np.broadcast_shapes(*shapes)
    arrays = [np.array([rng.choice(vals) for _ in range(int(np.prod(s)))], dtype=np.float64).reshape(s) for s in shapes]
    g = np.array([float(rng.randint(-3, 3)) for _ in range(int(np.prod(out_shape)))], dtype=np.float64).reshape(out_shape)
    use_where = rng.random() < 0.7
    mask_shape = rng.choice([out_shape, out_shape[-1:], ()]) if out_shape else ()
    mask = np.array([rng.random() < 0.5 for _ in range(int(np.prod(mask_shape)))], dtype=bool).reshape(mask_shape)
    res = {"unit": unit, "k": k, "shapes": [list(s) for s in shapes], "where": use_where, "fails": []}
    exact = u.cls_name in _INT_CLOSED
    # the usual reason for a mask: operand values *outside the op's domain* at the masked-out entries (log(x, where=x>0)).
    # Nothing is evaluated there, so the gradient there is 0 — not nan/inf.  (Only without operand broadcasting, so that a
    # bad value cannot also reach a masked-in entry.)
    poisoned = None
    if use_where and all(tuple(s) == tuple(out_shape) for s in shapes) and out_shape and rng.random() < 0.5:
        full_mask = np.broadcast_to(mask, out_shape)
        if not full_mask.all():
            poisoned = rng.choice([0.0, -1.0, -0.5, 1.0, 2.0])
            arrays = [np.where(full_mask, a, poisoned) for a in arrays]
            res["poisoned"] = poisoned

    def attempt(with_mask: bool) -> List[Dict[str, Any]]:
        kw = dict(u.call_kwargs)
        try:
            # reference: element-wise gradients on materialised operands, no mask, no broadcasting
            full = [np.ascontiguousarray(np.broadcast_to(a, out_shape)).ravel() for a in arrays]
            if poisoned is not None and with_mask:
                # reference on in-domain stand-ins at the masked-out entries (their gradient is discarded below)
                fm = np.broadcast_to(mask, out_shape).ravel()
                full = [np.where(fm, a, vals[0]) for a in full]
            eg, _ = _op_grads(cls, full, g.ravel(), (), kw)
            m = np.broadcast_to(mask, out_shape).ravel() if with_mask else np.ones(int(np.prod(out_shape)), dtype=bool)
            if with_mask:
                kw["where"] = mask
            grads, _ = _op_grads(cls, arrays, g, (), kw)
        except Exception as e:
            return [{"what": f"raised {type(e).__name__}: {e}"[:200]}]
        fails = []
        for i, (a, shp) in enumerate(zip(arrays, shapes)):
            e = np.where(m, eg[i], 0.0).reshape(out_shape)
            lead = len(out_shape) - len(shp)
            buckets: Dict[tuple, list] = {}
            for oi in np.ndindex(*out_shape):  # sum over the broadcast axes, element by element
                ti = tuple(0 if shp[j] == 1 else oi[lead + j] for j in range(len(shp)))
                buckets.setdefault(ti, []).append(float(e[oi]))
            exp = np.zeros(shp, dtype=np.float64)
            scale = np.zeros(shp, dtype=np.float64)
            for ti, vs in buckets.items():
                exp[ti] = math.fsum(vs)
                scale[ti] = math.fsum(abs(v) for v in vs)
            got = grads[i]
            ok = got is not None and got.shape == tuple(shp) and (
                np.array_equal(got, exp) if exact  # small integers: exact
                else bool(np.all(np.abs(got - exp) <= 1e-13 * scale + 1e-300)))  # order of summation is unspecified
            if not ok:
                fails.append({"operand": i, "inputs": [a.tolist() for a in arrays], "g": g.tolist(),
                              "mask": mask.tolist() if with_mask else None, "expected": exp.tolist(),
                              "got": None if got is None else np.asarray(got).tolist()})
        return fails

    fails = attempt(use_where)
    if fails:
        cl = "where" if (use_where and not attempt(False)) else "broadcast"
        res["fails"] = [{"class": cl, **f} for f in fails]
    return res


# ---------------------------------------------------------------------------------------------- operator dunders

_DUNDER_BIN = {"+": ("Add", lambda a, b: a + b), "-": ("Subtract", lambda a, b: a - b), "*": ("Multiply", lambda a, b: a * b),
               "/": ("Divide", lambda a, b: a / b), "**": ("Power", lambda a, b: a ** b)}
_DUNDER_UN = {"neg": ("Negative", lambda a: -a), "pos": ("Positive", lambda a: +a)}
if hasattr(mg.Tensor, "__abs__"):
    _DUNDER_UN["abs"] = ("Abs", lambda a: abs(a))
_DUNDER_VALS = [1.0, 2.0, 0.5, 3.0, -1.0, 0.0, 1.5]


def dunder_case(args) -> Dict[str, Any]:
    """the gradient an *operator expression* leaves on each non-constant tensor operand equals the gradient of the
    Operation class that implements the operator (which the strata above tie to the exact derivative) — in particular
    where the dunder dispatches on operand *values* (Tensor.__pow__: exponents 1 and 2) and operand kinds (tensor,
    0-d tensor, ndarray, Python scalar: only tensors receive gradients, and every non-constant tensor does)."""
    sym, k, seed = args
    import random

    rng = random.Random(f"c02dunder:{seed}:{sym}:{k}")
    by = {c.__name__: c for c in discover()}
    res = {"sym": sym, "k": k, "fails": []}
    with np.errstate(all="ignore"):
        if sym in _DUNDER_UN:
            cname, f = _DUNDER_UN[sym]
            shp = rng.choice([(), (1,), (3,)])
            a = np.array([rng.choice([v for v in _DUNDER_VALS if v != 0.0]) for _ in range(int(np.prod(shp)))]).reshape(shp)
            g = np.array([float(rng.randint(-3, 3)) for _ in range(a.size)]).reshape(shp)
            ref, _ = _op_grads(by[cname], [a], g)
            t = mg.tensor(a.copy(), constant=False)
            out = f(t)
            out.backward(g)
            got = [t.grad]
            kinds = ["tensor"]
            arrays = [a]
        else:
            cname, f = _DUNDER_BIN[sym]
            shapes = rng.choice([((), ()), ((3,), ()), ((), (3,)), ((3,), (3,)), ((2, 3), (3,)), ((3,), (1,)), ((1,), ())])
            base_vals = [2.0, 0.5, 3.0, 1.5] if sym in ("**", "/") else _DUNDER_VALS
            arrays = [np.array([rng.choice(base_vals) for _ in range(int(np.prod(shapes[0])))]).reshape(shapes[0]),
                      np.array([rng.choice([1.0, 2.0] if (sym == "**" and rng.random() < 0.6) else
                                           [v for v in _DUNDER_VALS if not (sym == "/" and v == 0.0)])
                                for _ in range(int(np.prod(shapes[1])))]).reshape(shapes[1])]
            if sym == "**" and rng.random() < 0.5:  # an exponent array holding one special value throughout
                arrays[1] = np.full(shapes[1], rng.choice([1.0, 2.0]))
            out_shape = np.broadcast_shapes(*shapes)
            g = np.array([float(rng.randint(-3, 3)) for _ in range(int(np.prod(out_shape)))]).reshape(out_shape)
            ref, _ = _op_grads(by[cname], arrays, g)
            kinds = [rng.choice(["tensor", "tensor", "tensor", "array", "scalar"]) for _ in range(2)]
            if "tensor" not in kinds:
                kinds[rng.randrange(2)] = "tensor"
            ops = []
            for a, kd in zip(arrays, kinds):
                if kd == "scalar" and a.ndim:
                    kd = "array"
                ops.append(mg.tensor(a.copy(), constant=False) if kd == "tensor" else (a.copy() if kd == "array" else float(a)))
            kinds = ["tensor" if isinstance(o, mg.Tensor) else "other" for o in ops]
            try:
                out = f(ops[0], ops[1])
                out.backward(g)
            except Exception as e:  # noqa: BLE001
                res["fails"].append({"what": f"raised {type(e).__name__}: {e}"[:200], "operand": 0})
                return res
            got = [o.grad if isinstance(o, mg.Tensor) else None for o in ops]
    res.update(kinds=kinds, inputs=[a.tolist() for a in arrays], g=np.asarray(g).tolist())
    for i, (kd, e, gt) in enumerate(zip(kinds, ref, got)):
        if kd != "tensor":
            continue
        ok = gt is not None and e is not None and np.shape(gt) == np.shape(e) and bool(
            np.all((np.abs(np.asarray(gt) - e) <= 1e-12 * np.maximum(1.0, np.abs(e))) | (np.isnan(gt) & np.isnan(e))))
        if not ok:
            res["fails"].append({"operand": i, "expected": None if e is None else np.asarray(e).tolist(),
                                 "got": None if gt is None else np.asarray(gt).tolist()})
    return res


# ---------------------------------------------------------------------------------------------- run


def _validate_job(args):
    unit, seed, draws = args
    tr = _TRACES[unit]
    return validate_trace(tr, seed, draws)


_TRACES: Dict[str, Trace] = {}


def _broken_units(lean_broken: List[Dict[str, Any]]) -> set:
    """units whose Lean obligations no longer check (by module file or by theorem-name prefix)"""
    hit = set()
    for b in lean_broken or []:
        mod = str(b.get("module", ""))
        th = str(b.get("theorem", ""))
        if mod.startswith(PROOF_PKG + "."):
            f = mod.rsplit(".", 1)[1]
            # find which theorems of that file fail, if the log names them; otherwise the whole file
            log = str(b.get("log", ""))
            failing = _theorems_at_error_lines(f, log)
            named = {u.unit for u in UNITS if u.file == f and (
                any(t in failing for ts in u.thms.values() for t in ts) or any(t in failing for t, _ in u.conv))}
            hit |= named or {u.unit for u in UNITS if u.file == f}
        elif mod in ("MG.Gen.ScalarOps", "*") and "ScalarOps" in str(b.get("log", "")) + mod:
            hit |= {u.unit for u in UNITS}
        if th.startswith(NS + "."):
            name = th[len(NS) + 1:]
            for u in UNITS:
                if any(name == t for ts in u.thms.values() for t in ts) or any(name == t for t, _ in u.conv):
                    hit.add(u.unit)
            hit.add(name.split("_")[0])
    return hit


def _theorems_at_error_lines(family: str, log: str) -> set:
    """map `…/C02Scalar/<family>.lean:LINE:COL: error` to the theorem enclosing LINE"""
    import re

    src = LEAN / "MG" / "Proofs" / "C02Scalar" / f"{family}.lean"
    if not src.exists():
        return set()
    starts = [(i + 1, m.group(1)) for i, line in enumerate(src.read_text().splitlines())
              for m in [re.match(r"\s*theorem\s+(\w+)", line)] if m]
    out = set()
    for m in re.finditer(r"^.*error.*$", log, re.M):  # `error: path:LINE:COL: msg` (lake) or `path:LINE:COL: error: msg`
        mm = re.search(re.escape(f"{family}.lean") + r":(\d+):\d+", m.group(0))
        if not mm:
            continue
        ln = int(mm.group(1))
        prev = [n for (l, n) in starts if l <= ln]
        if prev:
            out.add(prev[-1])
    return out


def _sig(unit, idx, cls_):
    return f"C02|scalar|{unit}|operand{idx}|{cls_}"


def run(ctx: Ctx) -> Outcome:
    global _TRACES
    out = Outcome()
    out.rule = ("scalar stratum: every discovered element-wise Operation x operand index; per pair: bitwise IR validation "
                "on random operand draws, then N domain points (nice values first, bulk, 1e-12-close to domain edges, tiny "
                "and large magnitudes) on which the real gradient (Tensor._op(...).backward(g)) is compared with g * "
                "mpmath.diff(forward) at 50 digits within 8x the a-priori float64 rounding bound of the formula; "
                "convention points, where= masks and broadcast reduction exactly; non-trivial = distinct (op, operand, "
                "point) with a finite non-overflowing expected value")
    traces, unmodelled, vanished = trace_all()
    _TRACES = {t.unit: t for t in traces}
    broken = _broken_units(ctx.lean_broken)
    out.extra["c02_scalar_targeted_units"] = sorted(broken)

    # ---- 1. the tie: bitwise validation of every trace against the method it came from
    draws = ctx.n(200, 1000)
    vres = pmap(_validate_job, [(t.unit, ctx.seed, draws) for t in traces])
    table = []
    for t, v in zip(traces, vres):
        out.traces_validated += v["validated"]
        for mm in v["mismatch"]:
            out.corr_breaks.append(CorrBreak("C02 scalar: traced IR does not reproduce the method bitwise",
                                             {"unit": t.unit, **mm}))
        for key, why in t.errors.items():
            out.corr_breaks.append(CorrBreak("C02 scalar: untraceable (unmodelled obligation)",
                                             {"signature": _sig(t.unit, key.replace("bwd", ""), "untraceable"),
                                              "unit": t.unit, "part": key, "reason": why}))
        u = UNIT_BY_NAME.get(t.unit)
        table.append({"op": t.unit, "class": f"{t.cls.__module__}.{t.cls.__name__}", "operands": t.nin,
                      "theorems": ([x for i in sorted(u.thms) for x in u.thms[i]] + [c for c, _ in u.conv]) if u else [],
                      "traced": not t.errors, "bitwise_draws": draws, "validated_parts": v["validated"]})
    for c in unmodelled:
        out.corr_breaks.append(CorrBreak("C02 scalar: newly discovered element-wise op without model/theorems",
                                         {"class": f"{c.__module__}.{c.__name__}"}))
    for u in vanished:
        out.corr_breaks.append(CorrBreak("C02 scalar: modelled op no longer exists in mygrad", {"unit": u.unit}))
    out.extra["c02_scalar_ops"] = table
    lits = sorted({v for t in traces for c in ([t.fwd] + list(t.bwd.values())) if c is not None for v in T.literals(c)})
    out.extra["c02_scalar_decimal_literals"] = lits
    out.extra["c02_scalar_symbolic_constants"] = sorted(set(T.check_whitelist().values()))

    # ---- 2. direct oracle: real gradients vs high-precision derivative of the forward
    base_n = ctx.n(800, 4000)

    def srng(*salt):
        return ctx.rng("oracle", *salt)

    jobs, metas = [], {}
    for t in traces:
        u = UNIT_BY_NAME.get(t.unit)
        if u is None or t.fwd is None:
            continue
        n = base_n * (10 if t.unit in broken else 1)
        r = oracle_unit(u, t, srng, n)
        jobs += r["jobs"]
        metas[t.unit] = r["meta"]
    mp_res = run_mp(jobs, procs=int(os.environ.get("VERIF_PROCS", "14")))
    hist_file: Dict[str, int] = {}
    skipped: Dict[str, int] = {}
    reltols = []
    for t in traces:
        u = UNIT_BY_NAME.get(t.unit)
        for idx, pts in metas.get(t.unit, []):
            ms = mp_res[f"{t.unit}|{idx}"]
            try:
                got, fwd = real_grads(t.cls, t.nin, t.params, t.call_kwargs, pts, idx)
            except Exception as e:
                out.violations.append(Violation(_sig(t.unit, idx, "wrong-derivative"),
                                                f"{t.unit}: backward raised {type(e).__name__}: {e}"[:300],
                                                {"stratum": "scalar", "kind": "point", "unit": t.unit, "operand": idx,
                                                 "inputs": pts[0], "error": str(e)[:300]}))
                continue
            fails = []
            for p, m, gv, fv in zip(pts, ms, got, fwd):
                if not m.get("ok"):
                    skipped[m.get("err", "?")[:40]] = skipped.get(m.get("err", "?")[:40], 0) + 1
                    continue
                j = judge(p, m, gv, fv)
                if j is not None and "skip" in j:
                    skipped[j["skip"]] = skipped.get(j["skip"], 0) + 1
                    continue
                out.evaluations += 1
                out.nontrivial.add(stable_hash([t.unit, idx, p]))
                hist_file[u.file] = hist_file.get(u.file, 0) + 1
                if m.get("exp") and "bound" in m:
                    reltols.append((TOL_K * m["bound"] + 4 * _ulp(m["exp"])) / abs(m["exp"]))
                if j is not None:
                    fails.append((p, j))
            if (t.unit, idx) in (("Divide", 1), ("Tanh", 0), ("Arctan2", 0)) and pts:
                k = min(len(pts) - 1, 40)
                out.samples.append({"op": t.unit, "operand": idx, "point": pts[k], "expected": ms[k].get("exp"),
                                    "implementation": got[k]})
            if fails:
                p, j = min(fails, key=lambda pj: _simplicity(pj[0]))
                out.violations.append(Violation(
                    _sig(t.unit, idx, j["class"]),
                    f"{t.unit}: gradient w.r.t. operand {idx} at {p}: expected {j.get('expected')} got {j.get('got')} "
                    f"({j['why']}); {len(fails)} failing points of {len(pts)}",
                    {"stratum": "scalar", "kind": "point", "unit": t.unit, "class": f"{t.cls.__module__}.{t.cls.__name__}",
                     "operand": idx, "inputs": {k: v for k, v in p.items() if k != "g"}, "g": p["g"],
                     "call_kwargs": t.call_kwargs, "expected": j.get("expected"), "got": j.get("got"),
                     "tolerance": j.get("tolerance"), "failure": j, "failing_points": len(fails)}))
    out.stats["points_by_family"] = hist_file
    out.stats["points_skipped"] = skipped
    if reltols:
        rt = np.array(reltols)
        out.stats["relative_tolerance"] = {"median": float(np.median(rt)), "p90": float(np.percentile(rt, 90)),
                                           "fraction_below_1e-10": float((rt < 1e-10).mean())}

    # ---- 3. conventions at non-differentiable points (exact)
    by_cls = {t.unit: t.cls for t in traces}
    n_conv = 0
    for u in UNITS:
        if u.unit not in by_cls or not u.conv:
            continue
        r = check_conventions(u, by_cls[u.unit])
        n_conv += r[0]["n"]
        for f in r[1:]:
            i = f.get("operand", 0)
            out.violations.append(Violation(
                _sig(u.unit, i, "convention"),
                f"{u.unit}: convention {f['thm']} fails at inputs {f['inputs']} (shape {f.get('shape')}): expected "
                f"{f['expected']} got {f.get('got')}",
                {"stratum": "scalar", "kind": "convention", "unit": u.unit, "case": {k: v for k, v in f.items()}}))
    out.evaluations += n_conv
    out.stats["convention_cases"] = n_conv

    # ---- 4. where= masks and broadcast reduction through Operation.backward (ufunc ops)
    wb_units = [u.unit for u in UNITS if u.unit in by_cls and issubclass(by_cls[u.unit], Ufunc)]
    per = ctx.n(12, 80)
    wres = pmap(where_broadcast_case, [(un, ctx.seed, k) for un in wb_units for k in range(per * (10 if un in broken else 1))])
    nwb = {"where": 0, "broadcast": 0}
    for r in wres:
        out.evaluations += 1
        nwb["where" if r["where"] else "broadcast"] += 1
        out.nontrivial.add(stable_hash(["wb", r["unit"], r["k"]]))
        for f in r["fails"]:
            out.violations.append(Violation(
                _sig(r["unit"], f.get("operand", 0), f["class"]),
                f"{r['unit']}: {f['class']} handling of Operation.backward wrong for shapes {r['shapes']}: "
                f"expected {f.get('expected')} got {f.get('got', f.get('what'))}",
                {"stratum": "scalar", "kind": "where-broadcast", "unit": r["unit"], "k": r["k"], "seed": ctx.seed, "case": f}))
    out.stats["where_broadcast_cases"] = nwb

    # ---- 5. operator dunders: the expression's gradients are those of the implementing Operation
    nd = ctx.n(60, 400)
    dres = pmap(dunder_case, [(sym, k, ctx.seed) for sym in list(_DUNDER_BIN) + list(_DUNDER_UN)
                              for k in range(nd * (3 if sym == "**" else 1))])
    seen_d = set()
    for r in dres:
        out.evaluations += 1
        out.nontrivial.add(stable_hash(["dunder", r["sym"], r["k"]]))
        for f in r["fails"]:
            sig = f"C02|scalar|dunder:{r['sym']}|operand{f.get('operand', 0)}|{'raises' if 'what' in f else 'gradient'}"
            if sig in seen_d:
                continue
            seen_d.add(sig)
            out.violations.append(Violation(
                sig, f"operator {r['sym']} on operands {r.get('inputs')} (kinds {r.get('kinds')}), g={r.get('g')}: gradient of "
                     f"operand {f.get('operand', 0)} is {f.get('got', f.get('what'))}, the implementing Operation gives {f.get('expected')}",
                {"stratum": "scalar", "kind": "dunder", "sym": r["sym"], "k": r["k"], "seed": ctx.seed, "unit": "dunder", "case": f}))
    out.stats["dunder_cases"] = len(dres)
    out.extra["c02_scalar_trusted"] = [
        "harness/props/c02_trace.py: Sym tracer, lowering, IR->Lean printer, the table NumPy ufunc -> Mathlib real function "
        "(LEAN_UN / LEAN_BIN) and the definedness side conditions (lean_dom)",
        "lean/MG/Proofs/Lemmas/NumpyReal.lean: real-number reading of np.cbrt, np.sinc, np.arctan2",
        "harness/c02_mp_oracle.py + mpmath 1.3.0: 50-digit numerical differentiation of the forward function",
    ]
    out.assumptions = [
        "theorems are over ℝ; that float64 kernels approximate the real functions is NumPy's contract (C03)",
        "the Sym tracer, the IR->Lean printer and the ufunc->Mathlib table are trusted; mitigated by the bitwise validation "
        "of raw and lowered IR against the real methods on every run and by the independent mpmath oracle",
        "operands are traced with ndim=1: the 0-d branch of maximum/minimum's tie handling is covered by the oracle only",
        "rpow agrees with np.power on NumPy's domain (x>0; x=0<=y; x<0 with integer y)",
    ]
    return out


# ---------------------------------------------------------------------------------------------- replay


def replay(data) -> bool:
    r = data["replay"]
    kind = r.get("kind")
    if kind == "dunder":
        res = dunder_case((r["sym"], r["k"], r["seed"]))
        print(res)
        return bool(res["fails"])
    traces, _, _ = trace_all()
    trm = {t.unit: t for t in traces}
    t = trm.get(r["unit"])
    if t is None:
        print(f"unit {r['unit']} no longer exists")
        return False
    if kind == "point":
        p = dict(r["inputs"])
        p["g"] = r["g"]
        idx = r["operand"]
        res = run_mp([{"id": "r", "fwd": t.fwd, "bwd": t.bwd.get(idx), "wrt": VARS[idx], "points": [p]}], procs=1)["r"][0]
        got, fwd = real_grads(t.cls, t.nin, t.params, t.call_kwargs, [p], idx)
        print(f"op {t.cls.__module__}.{t.cls.__name__} operand {idx} inputs {r['inputs']} g={r['g']}")
        if not res.get("ok"):
            print("oracle could not evaluate:", res)
            return False
        j = judge(p, res, got[0], fwd[0])
        print(f"expected (g * d forward/d operand, 50-digit mpmath): {res['exp']!r}")
        print(f"implementation (Tensor._op(...).backward(g); operand.grad): {got[0]!r}")
        print("verdict:", j or "agrees")
        return bool(j) and "skip" not in j
    if kind == "convention":
        u = UNIT_BY_NAME[r["unit"]]
        fails = check_conventions(u, t.cls)[1:]
        for f in fails:
            print("convention fails:", f)
        if not fails:
            print("all convention cases hold")
        return bool(fails)
    if kind == "where-broadcast":
        res = where_broadcast_case((r["unit"], r["seed"], r["k"]))
        print(res)
        return bool(res["fails"])
    if kind == "dunder":
        res = dunder_case((r["sym"], r["k"], r["seed"]))
        print(res)
        return bool(res["fails"])
    raise SystemExit(f"unknown replay kind {kind}")


# ---------------------------------------------------------------------------------------------- module attributes

THEOREMS = _theorems()
EXTRA_TARGETS = ["MG.Gen.ScalarOps"]

MANIFEST_TEXT = (
    "Scalar stratum: for each of the element-wise Operation classes found by walking Operation.__subclasses__() "
    "(arithmetic, exp/log, trig and reciprocal/inverse trig, hyperbolic and inverses, abs/sqrt/cbrt/maximum/minimum, "
    "sigmoid/relu/elu/selu) the real backward_var (and, for non-ufunc ops, the forward __call__) is executed on symbolic "
    "operands; the recorded formula is validated bit-for-bit against the method, printed as Lean definitions over ℝ "
    "(lean/MG/Gen/ScalarOps.lean, regenerated on every check) and proved, per (op, operand), to satisfy "
    "∃ d, HasDerivAt fwd d x ∧ ∀ g, bwd g x = g*d on NumPy's domain (MG/Proofs/C02Scalar/*.lean), with the documented "
    "conventions (|x| at 0 incl. nan_to_num=False, max/min ties, arcsin/arccos/arccsc/arcsec at ±1, relu/elu/selu at 0) "
    "as separate theorems that also assert definedness (dom_bwd_*: no division by zero / log or root outside its domain "
    "in the selected branch, since Lean's x/0 = 0 would otherwise make '0 rather than NaN' provable vacuously); sinc is "
    "proved differentiable at 0 with the code's value 0. A direct oracle compares the implementation's gradients with a 50-digit mpmath derivative of "
    "the forward function and checks conventions, where= masks and broadcast reduction exactly.")
MANIFEST_NOTE = (
    "Scalar stratum: theorems are over ℝ (floats approximating reals is NumPy's contract); trusted: the Sym tracer, the "
    "IR→Lean printer and the ufunc↦Mathlib table in harness/props/c02_trace.py plus MG/Proofs/Lemmas/NumpyReal.lean "
    "(cbrt, sinc, arctan2) — mitigated by bitwise validation of raw and lowered IR on every run and by the independent "
    "mpmath oracle; operands are traced as 1-d arrays (the 0-d tie branch of maximum/minimum is oracle-only); "
    "AddSequence/MultiplySequence (n-ary, data-dependent branch) are left to the structured stratum.")
