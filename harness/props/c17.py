"""C17 — tensor construction and conversion: copying, aliasing and dtype rules.

The construction lattice (input kind x source dtype x tensor state x dtype argument x constant x copy x ndmin
relation x tracking switch) is enumerated exhaustively on the implementation; every cell is (i) compared with the
decision functions of the Lean model M7 (`MG/Core/Dtype.lean`, theorems in `MG/Proofs/C17.lean`) and (ii) judged by
the property's own predicates, computed here from the cell alone (no model involved).
"""
from __future__ import annotations

import copy as _copy
import itertools
import warnings
import zlib

import numpy as np

import mygrad as mg

from ..core import CorrBreak, Ctx, Outcome, Violation, pmap, stable_hash
from ..dtlib import NONREAL, NP, REAL, ask, dname, exc_class, is_float, same_array

warnings.simplefilter("ignore")

ID = "C17"
LEVEL = "proof"
THEOREMS = {
    "MG.Proofs.C17": [
        "MG.C17.tensor_copies_by_default",
        "MG.C17.nocopy_reuses_when_dtype_allows",
        "MG.C17.astensor_identity_iff",
        "MG.C17.astensor_shares_iff",
        "MG.C17.asarray_same_iff",
        "MG.C17.copy_astype_detached",
        "MG.C17.astype_identity_iff",
        "MG.C17.nonreal_rejected_when_tracking",
        "MG.C17.nonreal_accepted_when_not_tracking",
        "MG.C17.int_bool_always_constant",
        "MG.C17.result_dtype_rule",
        "MG.C17.constant_rule",
        "MG.C17.creation_defaults",
        "MG.C17.creation_dtype_parity",
    ]
}

ALLDT = REAL + NONREAL

# ---------------------------------------------------------------------------------------------- sources

#            const creator grad ownGrad base          (ownGrad: `copy()` duplicates the tensor's own gradient)
TSTATES = {
    "leaf": (0, 0, 0, 0, 0),
    "leafGrad": (0, 0, 1, 1, 0),
    "opOut": (0, 1, 0, 0, 0),
    "viewGrad": (0, 1, 1, 0, 1),
    "viewBack": (0, 0, 1, 1, 1),
    "constLeaf": (1, 0, 0, 0, 0),
    "constOp": (1, 1, 0, 0, 0),
    "constView": (1, 1, 0, 0, 1),
}
INT_STATES = ["constLeaf", "constOp", "constView"]


def states_for(sdt):
    return list(TSTATES) if is_float(sdt) else INT_STATES


def _arr(sdt, shape=(4,)):
    n = int(np.prod(shape))
    vals = [(i + 1) % 2 for i in range(n)]
    if sdt == "obj":
        a = np.empty(n, dtype=object)
        a[:] = [float(v) for v in vals]
    else:
        a = np.array(vals, dtype=NP[sdt])
    return a.reshape(shape)


def mk_tensor(sdt, st, shape=(4,)):
    """a tensor of the given dtype in the given public state; returns (tensor, keep-alive)"""
    a = _arr(sdt, shape)
    keep = ()
    if st == "leaf":
        t = mg.tensor(a)
    elif st == "leafGrad":
        t = mg.tensor(a)
        (t * t).sum().backward()
    elif st == "opOut":
        x = mg.tensor(a)
        t = mg.maximum(x, x)
        keep = (x,)
    elif st == "viewGrad":
        x = mg.tensor(a)
        (x * x).sum().backward()
        t = x[...]
        keep = (x,)
    elif st == "viewBack":
        x = mg.tensor(a)
        t = x[...]
        (t * t).sum().backward()
        keep = (x,)
    elif st == "constLeaf":
        t = mg.tensor(a, constant=True)
    elif st == "constOp":
        c = mg.tensor(a, constant=True)
        t = mg.maximum(c, c)
        keep = (c,)
    elif st == "constView":
        c = mg.tensor(a, constant=True)
        t = c[...]
        keep = (c,)
    else:
        raise KeyError(st)
    return t, keep


def public_flags(t):
    return (int(t.constant), int(t.creator is not None), int(t.grad is not None), int(t.base is not None))


def flag_str(st):
    return "".join(map(str, TSTATES[st])) if st != "-" else "00000"


def build_src(kind, sdt, st):
    """-> (object, its array buffer or None, ndim, keep-alive)"""
    if kind == "pyBool":
        return True, None, 0, ()
    if kind == "pyInt":
        return 1, None, 0, ()
    if kind == "pyFloat":
        return 1.0, None, 0, ()
    if kind in ("list", "nested"):
        v = {"bool": [True, False, True], "i64": [1, 0, 1], "f64": [1.0, 0.0, 1.0]}[sdt]
        return (v, None, 1, ()) if kind == "list" else ([list(v), list(v)], None, 2, ())
    if kind == "arrOwn":
        a = _arr(sdt)
        return a, a, 1, ()
    if kind == "arrView":
        b = _arr(sdt, (8,))
        a = b[1:5]
        return a, a, 1, (b,)
    if kind == "arrRO":
        a = _arr(sdt, (2, 2))
        a.flags.writeable = False
        return a, a, 2, ()
    if kind == "arr0d":
        a = np.array(1.0 if sdt == "obj" else 1, dtype=NP[sdt])
        return a, a, 0, ()
    if kind == "npScalar":
        return NP[sdt](1), None, 0, ()
    if kind == "tensor":
        t, keep = mk_tensor(sdt, st)
        return t, t.data, t.ndim, keep
    raise KeyError(kind)


def sources():
    out = [("pyBool", "bool", "-"), ("pyInt", "i64", "-"), ("pyFloat", "f64", "-")]
    out += [(k, d, "-") for k in ("list", "nested") for d in ("bool", "i64", "f64")]
    out += [(k, d, "-") for k in ("arrOwn", "arrView", "arrRO", "arr0d") for d in ALLDT]
    out += [("npScalar", d, "-") for d in REAL + ["c64", "c128"]]
    out += [("tensor", d, st) for d in REAL for st in states_for(d)]
    return out


_PYNAMES = {"f64": float, "i64": int, "bool": bool, "obj": object, "c128": complex}


def spell(dt, variant):
    """one of the equivalent spellings of a dtype argument"""
    t = NP[dt]
    v = variant % 4
    if v == 0:
        return t
    if v == 1:
        return np.dtype(t)
    if v == 2:
        return np.dtype(t).name if dt != "obj" else "O"
    return _PYNAMES.get(dt, t)


CARG = {"-": None, "1": True, "0": False, "bad": 1}
NDREL = {"neg": "neg", "zero": "le", "eq": "le", "gt": "gt", "bad": "bad"}
COPYV = {"default": 1, "true": 1, "false": 0}


def _variant(cell):
    return zlib.crc32(repr(cell).encode())


def kind_class(kind):
    if kind in ("pyBool", "pyInt", "pyFloat", "npScalar"):
        return "scalar"
    if kind in ("list", "nested"):
        return "sequence"
    if kind == "tensor":
        return "tensor"
    return "ndarray"


def _res_obs(r, obj, buf, ndim):
    ident = "same" if r is obj else ("shares" if buf is not None and np.shares_memory(r.data, buf) else "fresh")
    return (f"ok {ident} {dname(r.dtype)} c={int(r.constant)} cr={int(r.creator is not None)} "
            f"gr={int(r.grad is not None)} base={int(r.base is not None)} ext={int(r.ndim > ndim)}")


def _flip(buf):
    if buf.dtype == np.bool_:
        return np.logical_not(buf)
    if buf.dtype == object:
        out = np.empty(buf.size, dtype=object)
        out[:] = [1.0 - v for v in buf.ravel().tolist()]
        return out.reshape(buf.shape)
    return (1 - buf).astype(buf.dtype)


def _mutation_seen(buf, r_data):
    """write through the input buffer; is the write visible in r_data?  (restores the buffer)"""
    if buf is None or not buf.flags.writeable or buf.size == 0:
        return None
    old = buf.copy()
    before = r_data.copy()
    try:
        buf[...] = _flip(buf)
        seen = not same_array(before, r_data)
    finally:
        buf[...] = old
    return seen


# ---------------------------------------------------------------------------------------------- tensor/Tensor/astensor


def run_cons(cell, seed=0):
    """execute one cell of the construction lattice -> {obs, line, fails}"""
    fn, track, kind, sdt, st, dtarg, carg, copyv, ndv = cell
    var = _variant((cell, seed))
    obj, buf, ndim, keep = build_src(kind, sdt, st)
    fails = []
    if kind == "tensor":
        exp = TSTATES[st]
        if public_flags(obj) != (exp[0], exp[1], exp[2], exp[4]):
            fails.append(("harness-state", f"tensor state {st} has flags {public_flags(obj)}"))
        cr0, g0, b0 = obj.creator, obj.grad, obj.base
    kw = {}
    if dtarg != "-":
        kw["dtype"] = spell(dtarg, var)
    if carg != "-":
        kw["constant"] = CARG[carg]
    if fn != "astensor":
        if copyv != "default":
            kw["copy"] = copyv == "true"
        nd = {"neg": -1, "zero": 0, "eq": ndim, "gt": ndim + 2, "bad": 1.5}[ndv]
        if not (ndv == "zero" and (var >> 3) % 2):
            kw["ndmin"] = nd
    f = {"tensor": mg.tensor, "Tensor": mg.Tensor, "astensor": mg.astensor}[fn]
    r = None
    try:
        if track:
            r = f(obj, **kw)
        else:
            with mg.no_autodiff:
                r = f(obj, **kw)
        obs = _res_obs(r, obj, buf, ndim)
    except Exception as e:  # noqa: BLE001
        obs = "err " + exc_class(e)
    copy = COPYV[copyv] if fn != "astensor" else 0
    ndrel = NDREL[ndv] if fn != "astensor" else "le"
    line = f"cons {fn} {int(track)} {kind} {sdt} {flag_str(st)} {dtarg} {carg} {copy} {ndrel}"

    # ------------------------------------------------ the property's own predicates (no model involved)
    out_dt = sdt if dtarg == "-" else dtarg
    dtype_allows = buf is not None and (dtarg == "-" or dtarg == sdt)
    malformed = carg == "bad" or ndv == "bad"
    if r is None:
        cls = obs[4:]
        if malformed:
            if cls != "TypeError":
                fails.append(("malformed-argument", f"expected TypeError, got {cls}"))
        elif track and out_dt in NONREAL:
            if cls != "TypeError":
                fails.append(("nonreal-not-rejected", f"expected TypeError, got {cls}"))
        elif track and not is_float(out_dt) and carg == "0":
            if cls != "ValueError":
                fails.append(("int-nonconstant-not-rejected", f"expected ValueError, got {cls}"))
        else:
            fails.append(("unexpected-error", f"{cls} for a well-formed request"))
    else:
        if track and out_dt in NONREAL:
            fails.append(("nonreal-not-rejected", f"a {dname(r.dtype)} tensor was created while tracking"))
        if track and not is_float(out_dt) and carg == "0":
            fails.append(("int-nonconstant-not-rejected", "integer/bool tensor with constant=False was created while tracking"))
        if track and not is_float(dname(r.dtype)) and not r.constant:
            fails.append(("int-nonconstant", "a non-constant integer/bool tensor exists while tracking"))
        if dname(r.dtype) != out_dt:
            fails.append(("dtype", f"result dtype {dname(r.dtype)} != requested/inferred {out_dt}"))
        want_ndim = max(ndim, {"neg": 0, "zero": 0, "eq": ndim, "gt": ndim + 2}.get(ndv, 0)) if fn != "astensor" else ndim
        if r.ndim != want_ndim:
            fails.append(("ndmin", f"ndim {r.ndim} != {want_ndim}"))
        if carg in "10" and r.constant != CARG[carg]:
            fails.append(("constant-arg-ignored", f"constant={CARG[carg]} requested, got {r.constant}"))
        shares = r is obj or (buf is not None and np.shares_memory(r.data, buf))
        if copy:
            # tensor(x) / Tensor(x) copy by default: later changes to x are not seen
            if shares:
                fails.append(("default-copy-aliases", "result shares memory with the input although copy=True"))
            elif _mutation_seen(buf, r.data):
                fails.append(("default-copy-aliases", "a later write to the input is seen by the tensor"))
            if r.creator is not None or r.grad is not None or r.base is not None:
                fails.append(("copy-not-detached", "a copied tensor carries creator/grad/base"))
        else:
            # copy=False / astensor reuse the memory exactly when dtype allows
            if shares != dtype_allows:
                fails.append(("nocopy-sharing", f"shares memory = {shares}, dtype allows = {dtype_allows}"))
            elif shares and _mutation_seen(buf, r.data) is False:
                fails.append(("nocopy-sharing", "memory reported shared but a write is not seen"))
        if kind == "tensor" and not copy and fn != "Tensor":
            should_be_same = (dtarg == "-" or dtarg == sdt) and (carg == "-" or CARG[carg] == bool(TSTATES[st][0])) and ndv != "gt"
            if (r is obj) != should_be_same:
                fails.append(("astensor-identity", f"`result is input` = {r is obj}, dtype/constant match = {should_be_same}"))
            if r is obj and (r.creator is not cr0 or r.grad is not g0 or r.base is not b0):
                fails.append(("astensor-identity", "the passed-through tensor lost its creator/grad/base"))
    del keep
    return {"obs": obs, "line": line, "fails": fails}


def cons_cells():
    cells = []
    for (kind, sdt, st) in sources():
        for dtarg in ["-"] + ALLDT:
            for carg in CARG:
                for track in (1, 0):
                    cells.append(("astensor", track, kind, sdt, st, dtarg, carg, "false", "zero"))
                    for fn in ("tensor", "Tensor"):
                        for copyv in COPYV:
                            for ndv in NDREL:
                                cells.append((fn, track, kind, sdt, st, dtarg, carg, copyv, ndv))
    return cells


# ---------------------------------------------------------------------------------------------- asarray

def _layout_array(sdt, lay):
    if lay == "both":
        return _arr(sdt), ()
    if lay == "c":
        return _arr(sdt, (2, 3)), ()
    if lay == "f":
        b = _arr(sdt, (3, 2))
        return b.T, (b,)
    b = _arr(sdt, (2, 6))
    return b[:, ::2], (b,)


def _layout_of(a):
    c, f = a.flags.c_contiguous, a.flags.f_contiguous
    return "both" if c and f else "c" if c else "f" if f else "neither"


def asarray_cells():
    cells = []
    for kind, sdt, st in sources():
        if kind in ("arrView", "arrRO"):
            continue
        lays = ["both"]
        if kind == "arrOwn":
            lays = ["both", "c", "f", "neither"]
        if kind == "tensor":
            if st not in ("leaf", "constLeaf", "opOut"):
                continue
            lays = ["both", "c", "f", "neither"]
        for lay in lays:
            for dtarg in ["-"] + ALLDT:
                for order in ["-", "C", "F", "A", "K"]:
                    cells.append((kind, sdt, st, lay, dtarg, order))
    return cells


def run_asarray(cell, seed=0):
    kind, sdt, st, lay, dtarg, order = cell
    var = _variant((cell, seed))
    fails = []
    keep = ()
    if kind == "arrOwn":
        obj, keep = _layout_array(sdt, lay)
        buf = obj
    elif kind == "tensor":
        a, keep = _layout_array(sdt, lay)
        base_t = mg.tensor(a, constant=(st == "constLeaf") or None, copy=False) if is_float(sdt) or st == "constLeaf" \
            else mg.tensor(a, copy=False)
        if st == "opOut":
            base_t = mg.maximum(base_t, base_t)
            if lay in ("f", "neither"):  # ops return C-ordered results: re-derive the layout on the result
                base_t = mg.tensor(a, copy=False)
        obj, buf = base_t, base_t.data
    else:
        obj, buf, _, keep = build_src(kind, sdt, st)
    if buf is not None and _layout_of(buf) != lay:
        fails.append(("harness-state", f"layout {_layout_of(buf)} != {lay}"))
    kw = {}
    if dtarg != "-":
        kw["dtype"] = spell(dtarg, var)
    if order != "-":
        kw["order"] = order
    try:
        r = mg.asarray(obj, **kw)
        ident = "same" if r is buf else ("shares" if buf is not None and np.shares_memory(r, buf) else "fresh")
        obs = f"{ident} {dname(r.dtype)}"
    except Exception as e:  # noqa: BLE001
        r, obs = None, "err " + exc_class(e)
    line = f"asarray {kind} {sdt} {dtarg} {order} {lay}"
    # predicate: an ndarray (not a Tensor, not a subclass) that reuses the memory exactly when dtype (and the
    # requested order) allow; NumPy's own asarray on the underlying array is the oracle
    if r is None:
        fails.append(("unexpected-error", obs))
    else:
        if type(r) is not np.ndarray:
            fails.append(("asarray-type", f"returned {type(r).__name__}"))
        ref_in = buf if buf is not None else obj
        ref = np.asarray(ref_in, **kw)
        if (ref is ref_in) != (r is buf) and buf is not None:
            fails.append(("asarray-sharing", f"numpy returns input itself = {ref is ref_in}, mygrad = {r is buf}"))
        if buf is None and not same_array(ref, r):
            fails.append(("asarray-value", "differs from numpy.asarray"))
        if ref.dtype != r.dtype or ref.shape != r.shape or not same_array(ref, r):
            fails.append(("asarray-value", "value/dtype/shape differs from numpy.asarray on the underlying array"))
        allows = buf is not None and (dtarg == "-" or dtarg == sdt)
        order_ok = order in "-AK" or lay == "both" or lay == order.lower()
        if buf is not None and (r is buf or np.shares_memory(r, buf)) != (allows and order_ok):
            fails.append(("asarray-sharing", f"shares = {r is buf}, dtype allows = {allows}, order allows = {order_ok}"))
    del keep
    return {"obs": obs, "line": line, "fails": fails}


# ---------------------------------------------------------------------------------------------- astype / copy

CASTINGS = ["unsafe", "same_kind", "safe"]


def astype_cells():
    cells = []
    for sdt in REAL:
        for st in states_for(sdt):
            for target in ALLDT:
                for casting in CASTINGS:
                    for copyv in COPYV:
                        for carg in CARG:
                            for track in (1, 0):
                                cells.append((track, sdt, st, target, casting, copyv, carg))
    return cells


def run_astype(cell, seed=0):
    track, sdt, st, target, casting, copyv, carg = cell
    var = _variant((cell, seed))
    t, keep = mk_tensor(sdt, st)
    fails = []
    cr0, g0, b0 = t.creator, t.grad, t.base
    args, kw = [spell(target, var)], {}
    if casting != "unsafe" or (var >> 3) % 2:
        kw["casting"] = casting
    if copyv != "default":
        kw["copy"] = copyv == "true"
    if carg != "-":
        kw["constant"] = CARG[carg]
    r = None
    try:
        if track:
            r = t.astype(*args, **kw)
        else:
            with mg.no_autodiff:
                r = t.astype(*args, **kw)
        obs = _res_obs(r, t, t.data, t.ndim)
    except Exception as e:  # noqa: BLE001
        obs = "err " + exc_class(e)
    line = f"astype {int(track)} {sdt} {flag_str(st)} {target} {casting} {COPYV[copyv]} {carg}"
    castable = bool(np.can_cast(NP[sdt], NP[target], casting))
    if r is None:
        cls = obs[4:]
        ok_reason = ((not castable or carg == "bad" or (track and target in NONREAL)) and cls == "TypeError") or \
                    (track and not is_float(target) and carg == "0" and cls == "ValueError")
        if not ok_reason:
            fails.append(("unexpected-error", f"astype raised {cls}"))
    else:
        if not castable:
            fails.append(("casting-ignored", f"astype({target}, casting={casting}) from {sdt} must raise"))
        if track and target in NONREAL:
            fails.append(("nonreal-not-rejected", f"astype created a {target} tensor while tracking"))
        if track and not is_float(target) and not r.constant:
            fails.append(("int-nonconstant", "astype produced a non-constant integer tensor while tracking"))
        if dname(r.dtype) != target:
            fails.append(("dtype", f"astype result dtype {dname(r.dtype)} != {target}"))
        if carg in "10" and r.constant != CARG[carg]:
            fails.append(("constant-arg-ignored", f"constant={CARG[carg]} requested, got {r.constant}"))
        may_pass = copyv == "false" and target == sdt
        const_ok = carg == "-" or CARG[carg] == bool(TSTATES[st][0])
        if (r is t) != (may_pass and const_ok):
            fails.append(("astype-identity", f"`result is self` = {r is t}; copy=False & same dtype & constant match = {may_pass and const_ok}"))
        if r is t:
            if r.creator is not cr0 or r.grad is not g0 or r.base is not b0:
                fails.append(("astype-identity", "passed-through tensor lost creator/grad/base"))
        else:
            # detached from any graph
            if r.creator is not None or r.base is not None or r.grad is not None:
                fails.append(("astype-not-detached", f"creator/base/grad = {r.creator}/{r.base is not None}/{r.grad is not None}"))
            sh = np.shares_memory(r.data, t.data)
            if sh != may_pass:
                fails.append(("astype-sharing", f"shares memory = {sh}; allowed only for copy=False with unchanged dtype = {may_pass}"))
            ref = t.data.astype(NP[target], casting=casting)
            if not same_array(ref, r.data):
                fails.append(("astype-value", "values differ from ndarray.astype"))
    del keep
    return {"obs": obs, "line": line, "fails": fails}


def copy_cells():
    return [(track, sdt, st, carg, how) for sdt in REAL for st in states_for(sdt) for carg in CARG
            for track in (1, 0) for how in ("copy", "__copy__") if how == "copy" or carg == "-"]


def run_copy(cell, seed=0):
    track, sdt, st, carg, how = cell
    t, keep = mk_tensor(sdt, st)
    fails = []
    g0 = t.grad
    r = None
    try:
        kw = {} if carg == "-" else {"constant": CARG[carg]}
        if track:
            r = t.copy(**kw) if how == "copy" else _copy.copy(t)
        else:
            with mg.no_autodiff:
                r = t.copy(**kw) if how == "copy" else _copy.copy(t)
        obs = _res_obs(r, t, t.data, t.ndim)
    except Exception as e:  # noqa: BLE001
        obs = "err " + exc_class(e)
    line = f"copy {int(track)} {sdt} {flag_str(st)} {carg}"
    want_const = bool(TSTATES[st][0]) if carg == "-" else CARG[carg]
    if r is None:
        cls = obs[4:]
        if not ((carg == "bad" and cls == "TypeError") or
                (track and not is_float(sdt) and want_const is False and cls == "ValueError")):
            fails.append(("unexpected-error", f"copy raised {cls}"))
    else:
        if r is t or r.creator is not None or r.base is not None:
            fails.append(("copy-not-detached", "copy() carries creator/base or is the tensor itself"))
        if np.shares_memory(r.data, t.data):
            fails.append(("copy-not-detached", "copy() shares memory with the original"))
        if r.grad is not None:
            if g0 is None or np.shares_memory(r.grad, g0) or not same_array(r.grad, g0):
                fails.append(("copy-not-detached", "copy().grad is not an independent duplicate of the gradient"))
        if r.dtype != t.dtype or not same_array(r.data, t.data):
            fails.append(("copy-value", "copy() changed dtype/values"))
        if r.constant != want_const:
            fails.append(("constant-arg-ignored", f"copy(constant={carg}) -> {r.constant}"))
        if track and not is_float(sdt) and not r.constant:
            fails.append(("int-nonconstant", "copy produced a non-constant integer tensor while tracking"))
    del keep
    return {"obs": obs, "line": line, "fails": fails}


# ---------------------------------------------------------------------------------------------- direct probes outside the lattice

EXTRA_NONREAL = ["U4", "S3", "M8[s]", "m8[s]", "c16", "V4"]


def run_extra(cell, seed=0):
    """non-real dtypes that the model does not name (str, bytes, datetime, void), Python complex / str inputs"""
    what, arg = cell
    fails = []
    obs = ""
    try:  # is the request meaningful for NumPy at all?  (a NumPy-side cast failure is not MyGrad's business)
        probe = np.array([1, 0], dtype=arg) if what != "input" and what != "input-nocopy" else np.asarray(eval(arg, {"np": np}))  # noqa: S307
        if what == "astype":
            probe = np.array([1.0, 0.0]).astype(arg)
        kindchar = probe.dtype.kind
    except Exception:  # noqa: BLE001
        return {"obs": "numpy-rejects", "line": None, "fails": []}
    try:
        if what == "dtype-arg":
            r = mg.tensor([1, 0], dtype=arg)
        elif what == "astensor-dtype-arg":
            r = mg.astensor(np.array([1, 0]), dtype=arg)
        elif what == "astype":
            r = mg.tensor([1.0, 0.0]).astype(arg)
        elif what == "Tensor-dtype-arg":
            r = mg.Tensor([1, 0], dtype=arg)
        elif what == "input":
            r = mg.tensor(eval(arg, {"np": np}))  # noqa: S307 - fixed literals below
        elif what == "input-nocopy":
            r = mg.astensor(eval(arg, {"np": np}))  # noqa: S307
        obs = f"ok {r.dtype}"
        fails.append(("nonreal-not-rejected", f"{what} {arg}: a {r.dtype} tensor was created while tracking (dtype kind {kindchar!r})"))
    except TypeError:
        obs = "err TypeError"
    except Exception as e:  # noqa: BLE001
        obs = "err " + exc_class(e)
        fails.append(("nonreal-not-rejected", f"{what} {arg}: expected TypeError, got {exc_class(e)}"))
    return {"obs": obs, "line": None, "fails": fails, "kindchar": kindchar}


def extra_cells():
    cells = [(w, a) for w in ("dtype-arg", "astensor-dtype-arg", "astype", "Tensor-dtype-arg") for a in EXTRA_NONREAL]
    for lit in ["1+2j", "[1j, 2.0]", "'abc'", "['a', 'b']", "np.array(['a'])", "np.datetime64('2020-01-01')",
                "np.array([1, None], dtype=object)", "np.array([1+0j])", "b'ab'", "np.array([(1, 2.0)], dtype='i4,f4')"]:
        cells += [("input", lit), ("input-nocopy", lit)]
    return cells


# ---------------------------------------------------------------------------------------------- spellings of the dtype argument

DTSPELL_KINDS = ["byteswapped", "native-explicit", "char", "c-alias", "struct-code"]
_C_ALIASES = {"i64": ["q", "longlong", "l", "int_"], "u64": ["Q", "ulonglong", "L"], "i32": ["i", "intc"], "u32": ["I", "uintc"],
              "i16": ["h", "short"], "u16": ["H", "ushort"], "i8": ["b", "byte"], "u8": ["B", "ubyte"],
              "f64": ["d", "double", "float"], "f32": ["f", "single"], "f16": ["e", "half"], "bool": ["?", "bool_"]}


def dtspell_cells():
    return [(fn, sdt, kind, j) for fn in ("astensor", "tensor-nocopy") for sdt in REAL for kind in DTSPELL_KINDS for j in range(3)]


def run_dtspell(cell, seed=0):
    """`astensor(t, dtype=…)` / `tensor(t, dtype=…, copy=False)` for dtype arguments that NumPy considers equal to
    t's dtype under another spelling (C names, char codes, explicit native byte order) or different from it only in
    byte order: t itself comes back (graph and gradient intact) exactly when `np.dtype(arg) == t.dtype`; otherwise
    the result has the requested dtype and the same values."""
    fn, sdt, kind, j = cell
    base = np.dtype(NP[sdt])
    if kind == "byteswapped":
        arg = [base.newbyteorder("S"), base.newbyteorder("S").str, base.newbyteorder(">" if base.byteorder in "=<|" else "<")][j]
    elif kind == "native-explicit":
        arg = [base.newbyteorder("="), base.str, "=" + base.str[1:]][j]
    elif kind == "char":
        arg = [base.char, np.dtype(base.char), base.str[1:]][j]
    elif kind == "c-alias":
        names = _C_ALIASES.get(sdt, [base.char])
        arg = names[j % len(names)]
    else:
        arg = [base.str[1:], base.name, np.dtype(base.name)][j]
    try:
        want = np.dtype(arg)
    except TypeError:
        return {"obs": "numpy-rejects", "line": None, "fails": []}
    floaty = sdt in ("f16", "f32", "f64")
    a = mg.tensor(np.array([1, 0, 1, 1], dtype=base))
    t = a * 1 if floaty else (a[...] if sdt == "bool" else +a)  # a tensor that carries a graph
    if floaty:
        t.backward()
        t = a  # a leaf holding a gradient
    creator, grad = t.creator, t.grad
    fails = []
    try:
        r = mg.astensor(t, dtype=arg) if fn == "astensor" else mg.tensor(t, dtype=arg, copy=False)
    except Exception as e:  # noqa: BLE001
        return {"obs": "err " + exc_class(e), "line": None,
                "fails": [("dtype-spelling", f"{fn}(t[{base.str}], dtype={arg!r}) raised {exc_class(e)}")]}
    same = want == base
    if same and r is not t:
        fails.append(("dtype-spelling", f"{fn}(t[{base.str}], dtype={arg!r}): np.dtype({arg!r}) == t.dtype but t itself is not returned"))
    if not same and r is t:
        fails.append(("dtype-spelling", f"{fn}(t[{base.str}], dtype={arg!r}): t itself is returned although its dtype differs from the requested {want.str}"))
    if r.dtype != want or (not same and r.dtype.byteorder != want.byteorder and want.itemsize > 1):
        fails.append(("dtype-spelling", f"{fn}(t[{base.str}], dtype={arg!r}): result dtype {r.dtype.str} != requested {want.str}"))
    if not np.array_equal(np.asarray(r.data, dtype=np.float64), [1, 0, 1, 1]):
        fails.append(("dtype-spelling", f"{fn}(t[{base.str}], dtype={arg!r}): values changed"))
    if r is t and (t.creator is not creator or (grad is None) != (t.grad is None)):
        fails.append(("dtype-spelling", f"{fn}(t, dtype={arg!r}): graph/gradient of the returned tensor not intact"))
    return {"obs": f"ok same={int(r is t)} {r.dtype.str}", "line": None, "fails": fails[:1]}


# ---------------------------------------------------------------------------------------------- creation routines

_LIKE = {"empty_like", "ones_like", "zeros_like", "full_like"}


def _protos():
    return {
        "arr_f32": lambda: np.arange(6, dtype=np.float32).reshape(2, 3),
        "arr_i16": lambda: np.arange(3, dtype=np.int16),
        "arr_F": lambda: np.asfortranarray(np.arange(6.0).reshape(2, 3)),
        "t_f64": lambda: mg.tensor([[1.0, 2.0]]),
        "t_f16_const": lambda: mg.tensor(np.ones((2,), np.float16), constant=True),
        "t_i32": lambda: mg.tensor(np.arange(4, dtype=np.int32)),
        "t_bool": lambda: mg.tensor([True, False]),
        "list": lambda: [1, 2, 3],
        "pyfloat": lambda: 2.5,
        "a0d_u8": lambda: np.array(3, dtype=np.uint8),
        # 0-d *tensor* prototypes of dtypes that are not Python's default for their kind
        "t0d_f32": lambda: mg.tensor(np.float32(1.5)),
        "t0d_f16": lambda: mg.tensor(np.float16(0.5)),
        "t0d_i8": lambda: mg.tensor(np.int8(3)),
        "t0d_u16": lambda: mg.tensor(np.uint16(7)),
        "t0d_bool": lambda: mg.tensor(True),
    }


def creation_argsets(name):
    """explicit argument sets (args, kwargs, tag) — without dtype / constant, which are varied separately"""
    S = [(), 0, 3, (2, 3), (0, 2), [2, 1], np.int64(2)]
    if name in ("empty", "ones", "zeros"):
        return [((s,), {}, f"shape={s!r}") for s in S]
    if name == "full":
        fills = [2, 2.5, True, np.float32(1.5), np.array(3, dtype=np.int8), np.array([1.0, 2.0, 3.0]), np.uint16(7)]
        return [((s, f), {}, f"shape={s!r},fill={type(f).__name__}") for s in [(), 3, (2, 3), (0, 2)] for f in fills]
    if name == "eye":
        return [((3,), {}, "N"), ((2, 3), {}, "N,M"), ((3,), {"k": 1}, "k=1"), ((3, 4), {"k": -1}, "k=-1"),
                ((0,), {}, "N=0"), ((2,), {"M": 5, "k": 2}, "M,k")]
    if name == "identity":
        return [((n,), {}, f"n={n}") for n in (0, 1, 3)]
    if name == "arange":
        return [((5,), {}, "stop"), ((2, 7), {}, "start,stop"), ((1, 10, 3), {}, "step"), ((0.0, 1.0, 0.25), {}, "float"),
                ((5.0,), {}, "floatstop"), ((-3,), {}, "negstop"), ((10, 0, -2), {}, "negstep"), ((1, 4.0), {}, "mixed"),
                ((0,), {}, "empty"), ((), {"start": 1, "stop": 4}, "kw"), ((np.int8(3),), {}, "npint")]
    if name == "linspace":
        return [((0, 1), {}, "default"), ((0, 1, 5), {}, "num"), ((1, 10, 4), {"endpoint": False}, "noend"),
                ((np.array([0.0, 1.0]), np.array([1.0, 3.0]), 3), {}, "arr"),
                ((np.array([0.0, 1.0]), np.array([1.0, 3.0]), 3), {"axis": -1}, "axis"),
                ((0, 10, 1), {}, "num1"), ((0, 10, 0), {}, "num0"), ((-2.5, 2.5, 6), {}, "float"),
                ((np.float32(0), np.float32(1), 4), {}, "f32")]
    if name == "logspace":
        return [((0, 2, 3), {}, "default"), ((0, 3, 4), {"base": 2}, "base2"), ((0, 2, 5), {"endpoint": False}, "noend"),
                ((np.array([0.0, 1.0]), 2.0, 3), {"axis": -1}, "axis")]
    if name == "geomspace":
        return [((1, 1000, 4), {}, "default"), ((1, 256, 9), {}, "pow2"), ((1, 100, 3), {"endpoint": False}, "noend"),
                ((np.array([1.0, 2.0]), 64.0, 3), {"axis": -1}, "axis")]
    if name in _LIKE:
        out = []
        for pn in _protos():
            for shp in (None, (4,), 2, (), 0, [], (0,), (2, 0)):  # incl. the falsy overrides: 0-d and empty results
                extra = (1.5,) if name == "full_like" else ()
                out.append(((pn,) + extra, {} if shp is None else {"shape": shp}, f"proto={pn},shape={shp}"))
            if name == "full_like":
                out.append(((pn, True), {}, f"proto={pn},fill=bool"))
                out.append(((pn, 7), {}, f"proto={pn},fill=int"))
        return out
    return [((3,), {}, "generic")]


def creation_cells():
    names = list(__import__("mygrad.tensor_creation.funcs", fromlist=["__all__"]).__all__)
    cells = []
    for name in sorted(names):
        for i, (_a, _k, tag) in enumerate(creation_argsets(name)):
            for dtarg in ["-"] + REAL + ["c64", "obj"]:
                for carg in ("-", "1", "0"):
                    for track in (1, 0):
                        if dtarg in NONREAL and (carg != "-" or not track) and i > 0:
                            continue
                        cells.append((name, i, dtarg, carg, track))
    return cells


_ROUTINES = {"empty", "ones", "zeros", "eye", "identity", "full", "arange", "linspace", "logspace", "geomspace"} | _LIKE


def run_creation(cell, seed=0):
    name, i, dtarg, carg, track = cell
    var = _variant((cell, seed))
    args, kwargs, tag = creation_argsets(name)[i]
    fails = []
    mgf, npf = getattr(mg, name), getattr(np, name, None)
    if npf is None:
        return {"obs": "", "line": None, "fails": [("no-numpy-namesake", name)]}
    proto_nonconst = 0
    mg_args, np_args = list(args), list(args)
    if name in _LIKE:
        p = _protos()[args[0]]()
        mg_args[0] = p
        np_args[0] = p.data if isinstance(p, mg.Tensor) else p
        proto_nonconst = int(isinstance(p, mg.Tensor) and not p.constant)
    kw = dict(kwargs)
    if dtarg != "-":
        kw["dtype"] = spell(dtarg, var)
    mkw = dict(kw)
    if carg != "-":
        mkw["constant"] = CARG[carg]
    # NumPy with the same explicit arguments
    try:
        ref = npf(*np_args, **kw)
    except Exception as e:  # noqa: BLE001
        ref = e
    r = None
    try:
        if track:
            r = mgf(*mg_args, **mkw)
        else:
            with mg.no_autodiff:
                r = mgf(*mg_args, **mkw)
    except Exception as e:  # noqa: BLE001
        r = e
    line = None
    documented_f32 = name in ("empty", "ones", "zeros") and dtarg == "-"
    if isinstance(ref, Exception):
        if not isinstance(r, Exception):
            fails.append(("creation-error-parity", f"numpy raises {exc_class(ref)}, mygrad returns"))
        return {"obs": "np-error", "line": None, "fails": fails}
    exp_dt = "f32" if documented_f32 else dname(ref.dtype)
    if name in _ROUTINES:
        line = f"create {int(track)} {name} {dtarg} {dname(ref.dtype)} {carg} {proto_nonconst}"
    if isinstance(r, Exception):
        cls = exc_class(r)
        obs = "err " + cls
        legit = (track and exp_dt in NONREAL and cls == "TypeError") or \
                (track and not is_float(exp_dt) and carg == "0" and cls == "ValueError")
        if not legit:
            fails.append(("creation-unexpected-error", f"{name}({tag}, dtype={dtarg}) raised {cls}"))
    else:
        obs = f"ok {dname(r.dtype)} c={int(r.constant)}"
        if not isinstance(r, mg.Tensor):
            fails.append(("creation-type", f"{name} returned {type(r).__name__}"))
        else:
            if track and exp_dt in NONREAL:
                fails.append(("nonreal-not-rejected", f"{name} created a {exp_dt} tensor while tracking"))
            if dname(r.dtype) != exp_dt:
                fails.append(("creation-dtype", f"{name}({tag}, dtype={dtarg}): {dname(r.dtype)}, expected {exp_dt}"
                              + (" (documented float32 default)" if documented_f32 else " (NumPy)")))
            if r.shape != ref.shape:
                fails.append(("creation-shape", f"{name}({tag}): shape {r.shape} != {ref.shape}"))
            elif not name.startswith("empty"):
                want = ref.astype(np.float32) if documented_f32 else ref
                if dname(r.dtype) == exp_dt and not same_array(want, r.data):
                    fails.append(("creation-value", f"{name}({tag}, dtype={dtarg}): values differ from NumPy"))
            if r.creator is not None or r.base is not None or r.grad is not None:
                fails.append(("creation-not-leaf", f"{name} result carries creator/base/grad"))
            if carg in "10" and r.constant != CARG[carg]:
                fails.append(("constant-arg-ignored", f"{name}(constant={carg}) -> {r.constant}"))
            if track and not is_float(dname(r.dtype)) and not r.constant:
                fails.append(("int-nonconstant", f"{name} produced a non-constant integer tensor while tracking"))
    return {"obs": obs, "line": line, "fails": fails}


# ---------------------------------------------------------------------------------------------- driver

RUNNERS = {"cons": run_cons, "asarray": run_asarray, "astype": run_astype, "copy": run_copy, "extra": run_extra,
           "creation": run_creation, "dtspell": run_dtspell}


def _work(chunk):
    seed, items = chunk
    out = []
    for fam, cell in items:
        try:
            out.append(RUNNERS[fam](cell, seed))
        except Exception as e:  # noqa: BLE001  harness failure on a cell: surfaces as a correspondence break
            out.append({"obs": f"harness-exception {type(e).__name__}: {e}", "line": None,
                        "fails": [("harness-exception", f"{type(e).__name__}: {e}")]})
    return out


def _ask_parallel(lines, procs=8):
    if not lines:
        return []
    uniq = sorted(set(lines))
    k = max(1, min(procs, len(uniq) // 2000 + 1))
    parts = [uniq[i::k] for i in range(k)]
    from concurrent.futures import ThreadPoolExecutor

    with ThreadPoolExecutor(k) as ex:
        outs = list(ex.map(ask, parts))
    table = {}
    for p, o in zip(parts, outs):
        table.update(zip(p, o))
    return table


def _cls(dt):
    return "float" if dt in ("f16", "f32", "f64") else "bool" if dt == "bool" else "nonreal" if dt in NONREAL else "int"


_REP = {"float": "f64", "int": "i64", "bool": "bool", "nonreal": "c64"}


_ORDER = ["float", "int", "bool", "nonreal"]  # simplest first


def _dt_candidates(dt, same_as=None):
    """simpler values for a dtype coordinate, simplest first: None / `same as the input`, then the representative of
    each simpler dtype class, then the representative of its own class"""
    c = []
    if same_as is not None and dt != "-":
        c += ["-", same_as]
    if dt != "-":
        c += [_REP[k] for k in _ORDER[:_ORDER.index(_cls(dt)) + 1]]
    return [x for x in c if x != dt]


def _st_candidates(st):
    if st == "-":
        return []
    return [x for x in (["constLeaf"] if TSTATES[st][0] else ["leaf"]) if x != st]


def candidates(fam, cell):
    """[(coordinate index, simpler value)] in a fixed order — only deletions / simplifications within a kind"""
    out = []
    if fam == "cons":
        fn, track, kind, sdt, st, dtarg, carg, copyv, ndv = cell
        out += [(1, 1)] if track != 1 else []
        if fn != "astensor":
            out += [(8, "zero")] if ndv != "zero" else []
            out += [(7, "default")] if copyv not in ("default",) else []
        out += [(6, "-")] if carg != "-" else []
        out += [(5, v) for v in _dt_candidates(dtarg, sdt)]
        out += [(4, v) for v in _st_candidates(st)]
        if kind not in ("pyBool", "pyInt", "pyFloat", "list", "nested"):
            out += [(3, v) for v in _dt_candidates(sdt) if kind != "tensor" or st in states_for(v)]
        out += {"arrView": [(2, "arrOwn")], "arrRO": [(2, "arrOwn")], "arr0d": [(2, "arrOwn")], "nested": [(2, "list")]}.get(kind, [])
    elif fam == "astype":
        track, sdt, st, target, casting, copyv, carg = cell
        out += [(0, 1)] if track != 1 else []
        out += [(4, "unsafe")] if casting != "unsafe" else []
        out += [(5, "default")] if copyv != "default" else []
        out += [(6, "-")] if carg != "-" else []
        out += [(3, v) for v in _dt_candidates(target, sdt) if v != "-"]
        out += [(2, v) for v in _st_candidates(st)]
        out += [(1, v) for v in _dt_candidates(sdt) if st in states_for(v)]
    elif fam == "copy":
        track, sdt, st, carg, how = cell
        out += [(0, 1)] if track != 1 else []
        out += [(3, "-")] if carg != "-" else []
        out += [(4, "copy")] if how != "copy" else []
        out += [(2, v) for v in _st_candidates(st)]
        out += [(1, v) for v in _dt_candidates(sdt) if st in states_for(v)]
    elif fam == "asarray":
        kind, sdt, st, lay, dtarg, order = cell
        out += [(5, "-")] if order != "-" else []
        out += [(3, "both")] if lay != "both" else []
        out += [(4, v) for v in _dt_candidates(dtarg, sdt)]
    elif fam == "creation":
        name, i, dtarg, carg, track = cell
        out += [(4, 1)] if track != 1 else []
        out += [(3, "-")] if carg != "-" else []
        out += [(2, v) for v in _dt_candidates(dtarg, None)] + ([(2, "-")] if dtarg != "-" else [])
        out += [(1, 0)] if i != 0 else []
    return out


def _dt_cost(dt, same_as=None):
    if dt == "-":
        return 0
    if same_as is not None and dt == same_as:
        return 1
    return 2 + 2 * _ORDER.index(_cls(dt)) + (0 if dt == _REP[_cls(dt)] else 1)


_COSTS = {1: 0, 0: 1, "zero": 0, "default": 0, "unsafe": 0, "copy": 0, "both": 0, "leaf": 0, "constLeaf": 1,
          "arrOwn": 0, "list": 0}


def cost(fam, cell):
    """well-founded measure: every accepted shrinking step strictly decreases it"""
    tot = 0
    dts = {"cons": (3, 5), "astype": (1, 3), "copy": (1, None), "asarray": (1, 4), "creation": (None, 2)}[fam]
    for i, v in enumerate(cell):
        if i == dts[0]:
            tot += 10 * _dt_cost(v)
        elif i == dts[1]:
            tot += 100 * _dt_cost(v, cell[dts[0]] if dts[0] is not None else None)
        elif fam == "creation" and i == 1:
            tot += v
        elif isinstance(v, str) and v == "-":
            tot += 0
        elif not (fam in ("cons", "creation") and i == 0):
            tot += _COSTS.get(v, 3)
    return tot


def shrink(fam, cell, pred, failing):
    """greedy feature-monotone minimisation inside the (completely evaluated) lattice"""
    cell = tuple(cell)
    changed = True
    while changed:
        changed = False
        for idx, val in candidates(fam, cell):
            c2 = cell[:idx] + (val,) + cell[idx + 1:]
            if cost(fam, c2) < cost(fam, cell) and pred in failing.get((fam, c2), ()):
                cell, changed = c2, True
                break
    return cell


def signature(fam, cell, pred):
    """property | failure class | entry point | minimal feature list (of the *minimised* cell)"""
    feats = []
    if fam == "cons":
        fn, track, kind, sdt, st, dtarg, carg, copyv, ndv = cell
        feats = [fn, kind_class(kind) + ("" if kind in ("pyBool", "pyInt", "pyFloat", "list", "tensor", "arrOwn", "npScalar") else ":" + kind)]
        feats += [f"src-dtype={_cls(sdt)}"] if _cls(sdt) != "float" else []
        feats += [f"state={st}"] if st not in ("-", "leaf") else []
        feats += ["dtype=" + ("same" if dtarg == sdt else _cls(dtarg))] if dtarg != "-" else []
        feats += [f"constant={carg}"] if carg != "-" else []
        feats += [f"copy={copyv}"] if copyv != "default" and fn != "astensor" else []
        feats += [f"ndmin={ndv}"] if ndv != "zero" else []
        feats += ["untracked"] if not track else []
    elif fam == "astype":
        track, sdt, st, target, casting, copyv, carg = cell
        feats = ["astype", f"src-dtype={_cls(sdt)}", "dtype=" + ("same" if target == sdt else _cls(target))]
        feats += [f"state={st}"] if st != "leaf" else []
        feats += [f"casting={casting}"] if casting != "unsafe" else []
        feats += [f"copy={copyv}"] if copyv != "default" else []
        feats += [f"constant={carg}"] if carg != "-" else []
        feats += ["untracked"] if not track else []
    elif fam == "copy":
        track, sdt, st, carg, how = cell
        feats = [how, f"src-dtype={_cls(sdt)}"]
        feats += [f"state={st}"] if st != "leaf" else []
        feats += [f"constant={carg}"] if carg != "-" else []
        feats += ["untracked"] if not track else []
    elif fam == "asarray":
        kind, sdt, st, lay, dtarg, order = cell
        feats = ["asarray", kind_class(kind)]
        feats += ["dtype=" + ("same" if dtarg == sdt else _cls(dtarg))] if dtarg != "-" else []
        feats += [f"order={order}"] if order != "-" else []
        feats += [f"layout={lay}"] if lay != "both" else []
    elif fam == "creation":
        name, i, dtarg, carg, track = cell
        feats = [name]
        feats += [f"args={creation_argsets(name)[i][2]}"] if i != 0 else []
        feats += [f"dtype={_cls(dtarg)}"] if dtarg != "-" else []
        feats += [f"constant={carg}"] if carg != "-" else []
        feats += ["untracked"] if not track else []
    else:
        feats = [fam]
    return f"C17|{pred}|" + "|".join(feats)


def run(ctx: Ctx) -> Outcome:
    out = Outcome()
    out.rule = ("exhaustive enumeration of the construction lattice on the implementation: tensor/Tensor/astensor x 134 "
                "sources (Python scalars, lists, nested lists, owning/view/read-only/0-d ndarrays of 15 dtypes, NumPy "
                "scalars, tensors of 12 dtypes in 8 graph states) x dtype argument (None + 15) x constant "
                "(None/True/False/non-bool) x copy (default/True/False) x ndmin (negative/0/=ndim/>ndim/non-integer) x "
                "tracking on/off; asarray x order x layout; astype x casting x copy x constant; copy; creation routines "
                "x argument sets x dtype x constant.  non-trivial = the input owns memory that could be aliased, or is a "
                "tensor; distinct by cell.")
    items = [("cons", c) for c in cons_cells()] + [("asarray", c) for c in asarray_cells()] + \
            [("astype", c) for c in astype_cells()] + [("copy", c) for c in copy_cells()] + \
            [("extra", c) for c in extra_cells()] + [("dtspell", c) for c in dtspell_cells()] + \
            [("creation", c) for c in creation_cells()]
    # the lattice is finite and always enumerated completely; the seed only selects among equivalent spellings
    n = 3000
    chunks = [(ctx.seed, items[i:i + n]) for i in range(0, len(items), n)]
    results = [r for ch in pmap(_work, chunks) for r in ch]
    lines = [r["line"] for r in results if r["line"]]
    table = _ask_parallel(lines)
    hist, fam_hist, errs = {}, {}, {}
    pending = []
    n_corr = 0
    for (fam, cell), r in zip(items, results):
        out.evaluations += 1
        fam_hist[fam] = fam_hist.get(fam, 0) + 1
        key = r["obs"].split(" ")[1] if r["obs"].startswith(("ok ", "err ")) else r["obs"].split(" ")[0]
        hist[key] = hist.get(key, 0) + 1
        if fam in ("astype", "copy") or (fam in ("cons", "asarray") and (cell[2 if fam == "cons" else 0] in
                                                                          ("arrOwn", "arrView", "arrRO", "arr0d", "tensor"))):
            out.nontrivial.add(stable_hash([fam, cell]))
        if r["line"]:
            out.traces_validated += 1
            m = table[r["line"]]
            if m != r["obs"]:
                n_corr += 1
                if len(out.corr_breaks) < 20:
                    out.corr_breaks.append(CorrBreak("Dtype model (M7 construction lattice) vs implementation",
                                                     {"family": fam, "cell": list(cell), "query": r["line"], "model": m,
                                                      "implementation": r["obs"]}))
        for pred, detail in r["fails"]:
            errs[pred] = errs.get(pred, 0) + 1
            pending.append((fam, cell, pred, detail, r.get("kindchar")))
        if len(out.samples) < 6 and fam in ("cons", "astype") and out.evaluations % 50021 == 1:
            out.samples.append({"family": fam, "cell": list(cell), "implementation": r["obs"],
                                "model": table.get(r["line"]) if r["line"] else None})
    failing = {}
    for fam, cell, pred, _d, _k in pending:
        failing.setdefault((fam, tuple(cell)), {})[pred] = _d
    seen_min = set()
    for fam, cell, pred, detail, kindchar in pending:
        if fam == "dtspell":
            sig, mcell = f"C17|{pred}|{cell[0]}|{cell[2]}|{'float' if cell[1] in ('f16', 'f32', 'f64') else 'int'}", tuple(cell)
            if any(s_ == sig for s_, _ in seen_min):
                continue
        elif fam == "extra":
            sig, mcell = f"C17|{pred}|dtype-kind={kindchar}", tuple(cell)
        else:
            mcell = shrink(fam, cell, pred, failing)
            sig = signature(fam, mcell, pred)
        if (sig, mcell) in seen_min:
            continue
        seen_min.add((sig, mcell))
        d = failing.get((fam, mcell), {}).get(pred, detail)
        out.violations.append(Violation(sig, f"{fam} {list(mcell)}: {pred}: {d}",
                                        {"family": fam, "cell": list(mcell), "predicate": pred, "seed": ctx.seed}))
    out.stats = {"cells_by_family": fam_hist, "outcomes": hist, "predicate_failures": errs,
                 "model_mismatches": n_corr}
    out.extra["exhaustive"] = True
    out.assumptions = [
        "array values are 0/1 so that every cast in the lattice is value-defined; data-dependent cast failures are out of the lattice",
        "non-real dtypes are represented in the model by complex64/complex128/object; str/bytes/datetime/void by direct probes",
        "Tensor.copy() duplicates the tensor's own gradient (documented); 'detached' is read as: no creator, no base, no shared memory",
    ]
    return out


def replay(data) -> bool:
    r = data["replay"]
    fam, cell = r["family"], tuple(r["cell"])
    res = RUNNERS[fam](cell, r.get("seed", 0))
    print("family:", fam, "cell:", cell)
    print("implementation:", res["obs"])
    if res["line"]:
        print("model:", ask([res["line"]])[0], " (query:", res["line"], ")")
    print("predicate failures:", res["fails"])
    return any(p == r["predicate"] for p, _ in res["fails"])


MANIFEST = {
    "category": "proof",
    "design_ref": "DESIGN.md §5 C17",
    "technique": "Lean 4 proofs over the complete finite construction lattice (model M7: decision functions of "
                 "tensor/Tensor/astensor/asarray/astype/copy and the creation routines) + exhaustive cell-by-cell "
                 "correspondence with the implementation + the property's predicates evaluated directly on every cell "
                 "+ creation routines differentially against their NumPy namesakes",
    "text": "For every cell of the lattice input kind x dtype x dtype argument x constant x copy x ndmin relation x tracking "
            "switch the Lean theorems state: default construction copies (fresh memory, no creator/grad/base); copy=False, "
            "astensor and asarray reuse the input's memory exactly when it owns an array and the dtype is unchanged; "
            "astensor(t) is t iff dtype and constant match (creator, grad, base intact); copy()/astype() results carry no "
            "creator/base and share no memory; a non-real result dtype is a TypeError while tracking; integer/bool tensors "
            "are constant while tracking (constant=False is a ValueError). The lattice is finite and is enumerated "
            "completely on the implementation on every run and compared with the model cell by cell; the creation "
            "routines are compared with NumPy for values, shape and dtype (float32 default of zeros/ones/empty).",
    "note": "Trusted: Lean kernel; axioms {propext, Quot.sound} at most; the harness that builds each cell's input and maps "
            "results to observations; NumPy's own array creation. Data-dependent cast failures (e.g. str -> float) are "
            "outside the lattice. Tensor.copy() duplicates the gradient as documented, so 'detached' excludes `grad is None` "
            "for copy(). Two open findings on the unchanged tree (known_findings/C17.json): timedelta64 passes the dtype gate "
            "while tracking; tensor(t, constant=True, copy=False, ndmin>ndim) drops the constant flag inside no_autodiff.",
}

MANIFEST_ADDENDUM = 'Oracle additions: falsy shape= overrides ((), 0, []) and empty shapes for the *_like routines.'
