"""C14 — seeding backward and the shape/dtype of every stored gradient."""
from __future__ import annotations

import copy

import numpy as np

import mygrad as mg

from .. import engcheck, progs
from ..core import Ctx, Outcome, Violation, pmap, stable_hash

ID = "C14"
LEVEL = "proof"
EXTRA_TARGETS = ["MG.DriverEng"]
THEOREMS = {
    "MG.Proofs.C14": [
        "MG.C14.seed_none_is_vjp_of_sum",
        "MG.C14.seed_rule",
        "MG.C14.seed_shape",
        "MG.C14.bad_seed_rejected_no_write",
        "MG.C14.stored_grads_have_tensor_shape",
        "MG.C14.seeded_graphless_terminal",
    ]
}

GEN = dict(inplace=True, p_inplace=0.15, p_view=0.25, p_fail=0.0, p_const=0.15, n_stmts=8, final_back=False)


def fresh_name(prog):
    return max([st[1] for st in prog if isinstance(st[1], int)] + [0]) + 1


def oracle(prog, idx):
    """L.backward() == L.sum().backward();  L.backward(g) == (L*g).sum().backward();  bad g rejected, nothing written"""
    import random

    rng = random.Random(f"c14:{idx}:{len(prog)}")
    names = [st[1] for st in prog if st[0] in ("leaf", "bin", "un", "sum", "view", "take")]
    ex0, res0 = engcheck.run_all(prog)
    live = sorted(ex0.v)
    if not live:
        return []
    L = rng.choice(live)
    shape = ex0.v[L].shape
    if ex0.v[L].constant:
        return []
    fails = []
    n1 = fresh_name(prog)
    # (1) no seed
    a = prog + [["back", L, None]]
    b = prog + [["sum", n1, ["t", L], None, 0, None], ["back", n1, None]]
    exa, _ = engcheck.run_all(a)
    exb, _ = engcheck.run_all(b)
    d = engcheck.same_grads(engcheck.grads_of(exa), engcheck.grads_of(exb), names=[n for n in live if n != L and exa.v[n].base is None])
    if d:
        fails.append(("seed-none-vs-sum", f"t{L}.backward() and t{L}.sum().backward() disagree: {d}"))
    # (2) seed g broadcastable to L
    gs = progs.bshape_for(rng, shape)
    gdata = [rng.randint(-2, 3) for _ in range(int(np.prod(gs)))]
    a = prog + [["back", L, ["l", list(gs), gdata]]]
    b = prog + [["bin", n1, "mul", ["t", L], ["l", list(gs), gdata], None], ["sum", n1 + 1, ["t", n1], None, 0, None], ["back", n1 + 1, None]]
    exa, ra = engcheck.run_all(a)
    exb, _ = engcheck.run_all(b)
    if ra[-1] != "ok":
        fails.append(("good-seed-rejected", f"t{L}.backward(g) raised for g of shape {gs} (tensor shape {shape})"))
    else:
        d = engcheck.same_grads(engcheck.grads_of(exa), engcheck.grads_of(exb), names=[n for n in live if n != L and exa.v[n].base is None])
        if d:
            fails.append(("seed-vs-mul-sum", f"t{L}.backward(g) and (t{L}*g).sum().backward() disagree: {d}"))
        gL = exa.v[L].grad
        if exa.v[L].base is None and (gL is None or gL.shape != shape or not np.array_equal(gL, np.broadcast_to(np.array(gdata, dtype=float).reshape(gs), shape))):
            fails.append(("seed-not-stored", f"after t{L}.backward(g), t{L}.grad = {None if gL is None else gL.tolist()}"))
    # (3) a g that does not broadcast to L's shape: rejected, no gradient written
    bad = [s for s in [(7,), (2, 7), (3, 1, 5), shape + (2,) if shape else (2,), (2,) + shape if shape else (3, 2)]
           if not progs._bcastable(s, shape)]
    bs = rng.choice(bad)
    c = prog + [["back", L, ["l", list(bs), [1] * int(np.prod(bs))]]]
    exc, rc = engcheck.run_all(c)
    if rc[-1] == "ok":
        fails.append(("bad-seed-accepted", f"t{L}.backward(g) accepted g of shape {bs} for a tensor of shape {shape}"))
    else:
        for n, t in exc.v.items():
            if t.grad is not None:
                fails.append(("bad-seed-wrote-grad", f"after the rejected t{L}.backward(g of shape {bs}) t{n}.grad = {np.asarray(t.grad).tolist()}"))
                break
    # (4) invariant: every non-None grad is an ndarray of the tensor's shape and dtype
    for exx in (exa, exb):
        for n, t in exx.v.items():
            g = t.grad
            if g is not None and (not isinstance(g, np.ndarray) or g.shape != t.shape or g.dtype != t.dtype):
                fails.append(("grad-shape-dtype", f"t{n}: shape {t.shape} dtype {t.dtype} but grad {type(g).__name__} shape {getattr(g, 'shape', None)} dtype {getattr(g, 'dtype', None)}"))
                return fails
    return fails


# ------------------------------------------------------------------ shape/dtype invariant across dtypes, 0-d and nnet layers


class MixedDT:
    """mixed precision: successive operands of a case get alternating float64/float32 dtypes"""

    def __init__(self, first):
        self.k = first

    def next(self):
        self.k += 1
        return [np.float64, np.float32][self.k % 2]


def layer_cases():
    from mygrad.nnet import activations as A, losses as Lo
    from mygrad.nnet.layers import batchnorm, conv_nd, gru, max_pool

    def T(rng, *s, dt=np.float64, lo=-1.0, hi=1.0):
        if isinstance(dt, MixedDT):
            dt = dt.next()
        return mg.tensor(rng.uniform(lo, hi, size=s).astype(dt))

    cs = []

    def case(name):
        def deco(f):
            cs.append((name, f)); return f
        return deco

    @case("elementwise-mixed")
    def _(rng, dt):
        x, y = T(rng, 2, 3, dt=dt), T(rng, 3, dt=dt)
        return [x, y], mg.exp(x) * y + mg.sqrt(mg.abs(x) + 1) / (y * y + 1)

    @case("0-d")
    def _(rng, dt):
        x, y = T(rng, dt=dt), T(rng, 2, dt=dt)
        return [x, y], (x * y).sum() * x

    @case("python-scalars")
    def _(rng, dt):
        x = T(rng, 2, 2, dt=dt)
        return [x], (x * 2.5 + 1) ** 2 / 3

    @case("reductions")
    def _(rng, dt):
        x = T(rng, 2, 3, dt=dt)
        return [x], mg.mean(x, axis=0) + mg.max(x, axis=0) + mg.var(x, axis=0) + mg.prod(x, axis=0)

    @case("matmul-einsum")
    def _(rng, dt):
        x, y = T(rng, 2, 3, dt=dt), T(rng, 3, 2, dt=dt)
        return [x, y], mg.matmul(x, y) + mg.einsum("ij,jk->ik", x, y)

    @case("views-inplace")
    def _(rng, dt):
        x = T(rng, 2, 3, dt=dt)
        y = +x
        y[0] = y[1] * 2
        return [x], y.T.reshape(-1)

    @case("mixed-dtypes")
    def _(rng, dt):
        x, y = T(rng, 2, 3, dt=dt), T(rng, 2, 3, dt=np.float64)
        return [x, y], x * y

    @case("conv_nd")
    def _(rng, dt):
        x, w = T(rng, 1, 2, 5, dt=dt), T(rng, 2, 2, 3, dt=dt)
        return [x, w], conv_nd(x, w, stride=1)

    @case("max_pool")
    def _(rng, dt):
        x = T(rng, 1, 2, 4, dt=dt)
        return [x], max_pool(x, (2,), 2)

    @case("batchnorm")
    def _(rng, dt):
        x, g, b = T(rng, 4, 3, dt=dt), T(rng, 3, dt=dt), T(rng, 3, dt=dt)
        return [x, g, b], batchnorm(x, gamma=g, beta=b, eps=1e-3)

    @case("softmax")
    def _(rng, dt):
        x = T(rng, 3, 4, dt=dt)
        return [x], A.softmax(x) + A.logsoftmax(x)

    @case("activations")
    def _(rng, dt):
        x = T(rng, 3, 4, dt=dt)
        return [x], A.relu(x) + A.sigmoid(x) + A.tanh(x) + A.elu(x, alpha=1.0) + A.leaky_relu(x, 0.1) + A.hard_tanh(x) + A.soft_sign(x) + A.selu(x)

    @case("glu")
    def _(rng, dt):
        x = T(rng, 3, 4, dt=dt)
        return [x], A.glu(x)

    @case("softmax_crossentropy")
    def _(rng, dt):
        x = T(rng, 3, 4, dt=dt)
        return [x], Lo.softmax_crossentropy(x, np.array([0, 1, 3]))

    @case("margin_ranking_loss")
    def _(rng, dt):
        x, y = T(rng, 4, dt=dt), T(rng, 4, dt=dt)
        return [x, y], Lo.margin_ranking_loss(x, y, np.array([1, -1, 1, -1]), margin=0.5)

    @case("multiclass_hinge")
    def _(rng, dt):
        x = T(rng, 3, 4, dt=dt)
        return [x], Lo.multiclass_hinge(x, np.array([0, 1, 3]))

    @case("focal_loss")
    def _(rng, dt):
        x = T(rng, 3, 4, dt=dt)
        return [x], Lo.softmax_focal_loss(x, np.array([0, 1, 3]), alpha=0.5, gamma=2.0)

    @case("negative_log_likelihood")
    def _(rng, dt):
        x = T(rng, 3, 4, dt=dt)
        return [x], Lo.negative_log_likelihood(A.logsoftmax(x), np.array([0, 1, 3]))

    @case("0d-lowprec")
    def _(rng, dt):
        # a 0-d float64 tensor whose incoming gradient has a lower precision (dtype= on the op; written into a
        # float32 tensor); independent of `dt`
        x = mg.tensor(np.float64(rng.uniform(0.5, 1.5)))
        v = T(rng, 3, dt=np.float64)
        w = T(rng, 3, dt=np.float32)
        y = mg.multiply(x, w, dtype=np.float32) + mg.multiply(v, w, dtype=np.float32)
        b = +T(rng, 3, dt=np.float32)
        b[1] = x
        return [x, v, w], y + b

    @case("gru")
    def _(rng, dt):
        T_, N, C, D = 3, 2, 3, 2
        X = T(rng, T_, N, C, dt=dt)
        Uz, Ur, Uh = (T(rng, C, D, dt=dt) for _ in range(3))
        Wz, Wr, Wh = (T(rng, D, D, dt=dt) for _ in range(3))
        bz, br, bh = (T(rng, D, dt=dt) for _ in range(3))
        s = gru(X, Uz, Wz, bz, Ur, Wr, br, Uh, Wh, bh)
        return [X, Uz, Ur, Uh, Wz, Wr, Wh, bz, br, bh, s], s

    return cs


def layer_case(args):
    seed, ci, dti, seedkind = args
    cs = layer_cases()
    name, build = cs[ci % len(cs)]
    dt = [np.float64, np.float32, np.float16, MixedDT(0), MixedDT(1), np.dtype(">f4"), np.dtype(">f8")][dti % 7]
    dtn = (np.dtype(dt).name + ("-byteswapped" if np.dtype(dt).byteorder == ">" else "")) if not isinstance(dt, MixedDT) else f"mixed{dt.k}"
    rng = np.random.default_rng([seed, ci, dti])
    fails = []
    try:
        ins, out = build(rng, dt)
    except Exception as e:
        return {"name": name, "dtype": dtn, "fails": [], "skipped": f"{type(e).__name__}", "args": args}
    try:
        if seedkind == 0:
            out.backward()
        elif seedkind == 1:
            out.backward(2.0)
        elif seedkind == 2:
            out.backward(np.ones(out.shape, dtype=np.float64))
        elif seedkind == 3:  # a *tensor* seed of exactly L's shape and of another dtype
            out.backward(mg.tensor(np.ones(out.shape, dtype=np.float64 if out.dtype != np.float64 else np.float32)))
        elif seedkind == 4:  # an integer tensor seed
            out.backward(mg.tensor(np.ones(out.shape, dtype=np.int64)))
        else:  # an array seed of lower precision
            out.backward(np.ones(out.shape, dtype=np.float16))
    except Exception as e:
        return {"name": name, "dtype": dtn, "fails": [f"backward raised {type(e).__name__}: {str(e)[:80]}"], "args": args}
    for j, t in enumerate(ins + [out]):
        g = t.grad
        if g is None:
            continue
        if not isinstance(g, np.ndarray):
            fails.append(f"grad of operand {j} is a {type(g).__name__}, not an ndarray")
        elif g.shape != t.shape:
            fails.append(f"grad shape {g.shape} != tensor shape {t.shape} (operand {j})")
        elif g.dtype != t.dtype:
            fails.append(f"grad dtype {g.dtype} != tensor dtype {t.dtype} (operand {j})")
    return {"name": name, "dtype": dtn, "fails": fails, "args": args}


def _inv(t):
    g = t.grad
    if g is None:
        return None
    if not isinstance(g, np.ndarray):
        return f"grad is a {type(g).__name__}, not an ndarray"
    if g.shape != t.shape:
        return f"grad shape {g.shape} != tensor shape {t.shape}"
    if g.dtype != t.dtype:
        return f"grad dtype {g.dtype} != tensor dtype {t.dtype}"
    return None


def history_cases(only=None):
    """the shape/dtype invariant along histories in which a tensor that already holds a gradient changes shape
    (`.shape =` with tracking on and inside no_autodiff, on a base, on the base of a live view, on a view) or is updated
    in place inside no_autodiff; -> [(name, message)]"""
    out = []

    def fam():
        x = mg.tensor(np.arange(6.0))
        v = x[:4]
        ((v * 2).sum() + (x * 3).sum()).backward()
        return x, v

    def run(name, f):
        if only is not None and name != only:
            return
        x, v = fam()
        try:
            f(x, v)
        except Exception as e:  # noqa: BLE001
            out.append((name, f"raised {type(e).__name__}: {str(e)[:80]}"))
            return
        for nm, t in (("the tensor", x), ("its view", v)):
            m = _inv(t)
            if m:
                out.append((name, f"{nm}: {m}"))
                return

    def untracked(f):
        def g(x, v):
            with mg.no_autodiff:
                f(x, v)
        return g

    run("shape-setter-tracked", lambda x, v: setattr(x, "shape", (2, 3)))
    run("shape-setter-tracked-view", lambda x, v: setattr(v, "shape", (2, 2)))
    run("shape-setter-untracked", untracked(lambda x, v: setattr(x, "shape", (2, 3))))
    run("shape-setter-untracked-int", untracked(lambda x, v: setattr(x, "shape", 6)))
    run("shape-setter-untracked-infer", untracked(lambda x, v: setattr(x, "shape", (3, -1))))
    run("shape-setter-untracked-view", untracked(lambda x, v: setattr(v, "shape", (2, 2))))
    run("inplace-untracked", untracked(lambda x, v: x.__iadd__(1.0)))
    run("inplace-untracked-view", untracked(lambda x, v: v.__imul__(2.0)))
    run("setitem-untracked", untracked(lambda x, v: x.__setitem__(slice(0, 2), 7.0)))
    return out


N_HISTORY = 9


def former_view_terminal_cases(only=None):
    """`backward(g)` called on a tensor that *was* a view in an earlier, finished epoch (its graph is cleared, its base
    lingers): it is the terminal of a new graph of its own, so its gradient is the seed, as for any other tensor.
    -> [(name, message)]"""
    out = []
    VIEWS = [("x[::2]", lambda x: x[::2]), ("x.T", lambda x: x.T), ("x.reshape(-1)", lambda x: x.reshape(-1)), ("x[1]", lambda x: x[1])]
    SEEDS = [("none", lambda v: None), ("scalar", lambda v: 3.0), ("array", lambda v: np.arange(float(v.size)).reshape(v.shape) + 1),
             ("f32-array", lambda v: (np.arange(float(v.size)).reshape(v.shape) + 1).astype(np.float32))]
    for (vn, view), (sn, mkseed), first in [(a, b, c) for a in VIEWS for b in SEEDS for c in ("through-view", "through-base")]:
        name = f"former-view-terminal|{vn}|{sn}|{first}"
        if only is not None and name != only:
            continue
        x = mg.tensor(np.arange(12.0).reshape(4, 3) + 1)
        v = view(x)
        try:
            if first == "through-view":
                (v * 1.0).sum().backward()
            else:
                ((v * 1.0).sum() + (x * 2.0).sum()).backward()
            g = mkseed(v)
            v.backward(g) if g is not None else v.backward()
        except Exception as e:  # noqa: BLE001
            out.append((name, f"raised {type(e).__name__}: {str(e)[:80]}"))
            continue
        exp = np.ones(v.shape) if g is None else np.broadcast_to(np.asarray(g, dtype=v.dtype), v.shape)
        got = v.grad
        if got is None or got.shape != v.shape or got.dtype != v.dtype or not np.array_equal(got, exp):
            out.append((name, f"v = {vn}; an earlier backward() finished; v.backward({sn} seed): v.grad is "
                        f"{None if got is None else (str(got.dtype), got.tolist())}, the seed gives {exp.tolist()}"))
    return out


def nontrivial(prog):
    return len(prog) >= 5


def run(ctx: Ctx) -> Outcome:
    n = ctx.n(600, 4000)
    out, results = engcheck.run_programs(ctx, n, dict(GEN, n_stmts=ctx.n(8, 14)), "oracle", nontrivial)
    out.rule = ("random programs; for a random non-constant terminal tensor: backward() vs sum().backward(), backward(g) vs "
                "(L*g).sum().backward() for broadcastable g, a non-broadcastable g must be rejected with no gradient written, "
                "and every stored grad is an ndarray of its tensor's shape and dtype; plus 20 layer/op cases x float64/32/16/mixed precision x "
                "three seed kinds for the shape/dtype invariant (incl. a 0-d float64 tensor receiving float32 gradients); plus 9 histories in "
                "which a tensor that holds a gradient changes shape (`.shape =`, tracked and inside no_autodiff, base / base of a view / view) or is updated in place inside no_autodiff")
    engcheck.report(out, results, "C14", oracle, shrinkable=False)
    cs = layer_cases()
    items = [(ctx.seed + r, ci, dti, sk) for ci in range(len(cs)) for dti in range(7) for sk in range(6) for r in range(ctx.n(1, 4))
             if dti < 5 or sk in (0, 3)]  # (byte-swapped dtypes: default and tensor seeds)
    # the GRU kernels are numba-compiled per dtype (~30 s each): float64 only in the quick tier, scheduled first
    gru_i = [i for i, (nm, _) in enumerate(cs) if nm == "gru"][0]
    # (mixed precision runs in the widest dtype, float64: no further compilation)
    gru = [it for it in items if it[1] == gru_i and (it[2] in (0, 3, 4) or (ctx.thorough and it[2] == 1)) and it[0] == ctx.seed and it[3] < 4]
    items = gru + [it for it in items if it[1] != gru_i]
    res = pmap(layer_case, items)
    for r in res:
        _CACHE[tuple(r["args"])] = r
    seen = set()
    hist = {}
    for r in res:
        out.evaluations += 1
        hist[r["name"]] = hist.get(r["name"], 0) + 1
        out.nontrivial.add(stable_hash([r["name"], r["dtype"], r["args"][3]]))
        for f in r["fails"]:
            cls = "shape" if "shape" in f else ("dtype" if "dtype" in f else ("type" if "ndarray" in f else "raised"))
            sig = f"C14|grad-{cls}|{r['name']}"
            if sig not in seen:
                seen.add(sig)
                out.violations.append(Violation(sig, f"{r['name']} ({r['dtype']}): {f}", {"kind": "layer", "args": list(r["args"])}))
    out.stats["layer_cases"] = hist
    for name, msg in history_cases():
        out.violations.append(Violation(f"C14|grad-shape|{name}", f"{name}: {msg}", {"kind": "history", "name": name}))
    out.evaluations += N_HISTORY
    for k in range(N_HISTORY):
        out.nontrivial.add(stable_hash(["history", k]))
    fseen = set()
    for name, msg in former_view_terminal_cases():
        fam = name.split("|")[1]
        if fam not in fseen:
            fseen.add(fam)
            out.violations.append(Violation(f"C14|seeded-former-view|{fam}", f"{name}: {msg}", {"kind": "former-view", "name": name}))
    out.evaluations += 32
    for k in range(32):
        out.nontrivial.add(stable_hash(["former-view", k]))
    out.stats["skipped_layer_cases"] = sorted({f"{r['name']}:{r['dtype']}:{r['skipped']}" for r in res if r.get("skipped")})
    return out


_CACHE = {}


def check_witness(w):
    if "history" in w:
        for name, msg in history_cases(only=w["history"]):
            return Violation(f"C14|grad-shape|{name}", f"{name}: {msg}", {"kind": "history", "name": name})
        return None
    if "layer" in w:  # by name: the position of a case in the list is not part of the finding
        ci = [i for i, (nm, _) in enumerate(layer_cases()) if nm == w["layer"]]
        if not ci:
            return None
        w = dict(w, args=[w["args"][0], ci[0]] + list(w["args"][2:]))
    r = _CACHE.get(tuple(w["args"])) or layer_case(tuple(w["args"]))
    for f in r["fails"]:
        cls = "shape" if "shape" in f else ("dtype" if "dtype" in f else ("type" if "ndarray" in f else "raised"))
        return Violation(f"C14|grad-{cls}|{r['name']}", f"{r['name']} ({r['dtype']}): {f}", {"kind": "layer", "args": list(w["args"])})
    return None


def replay(data) -> bool:
    r = data["replay"]
    if r.get("kind") == "former-view":
        res = former_view_terminal_cases(only=r["name"])
        print(res)
        return bool(res)
    if r.get("kind") == "history":
        res = history_cases(only=r["name"])
        print(res)
        return bool(res)
    if r.get("kind") == "layer":
        res = layer_case(tuple(r["args"]))
        print(res)
        return bool(res["fails"])
    p = r["program"]
    for st in p:
        print(progs.to_line(st))
    f = oracle(p, 0)
    print("oracle:", f)
    return bool(f)


MANIFEST = {
    "category": "proof",
    "design_ref": "DESIGN.md §5 C14",
    "technique": "Lean 4 invariant of the back-propagation loop (every stored gradient has its tensor's shape and size) and "
                 "seed lemmas on the engine model + differential seeding oracle on random programs + shape/dtype predicate over "
                 "ops and nnet layers in float16/32/64",
    "text": "Proved on the engine model for all programs: the default seed is exactly what sum's VJP sends to L "
            "(seed_none_is_vjp_of_sum); a well-formed g of L's shape is used as is, any other g is broadcast iff "
            "it broadcasts TO L's shape and is otherwise rejected with ValueError (seed_rule, seed_shape); on "
            "rejection no gradient is written — every _grad is what it was or None, no buffer or op changes "
            "(bad_seed_rejected_no_write); every gradient the completed loop has accumulated has exactly its "
            "tensor's shape and element count, whatever mixture of broadcasting, where-masks, views and repeated "
            "use produced it (stored_grads_have_tensor_shape, by induction over the loop). The implementation is "
            "compared with the model on random programs, and the three seeding identities and the "
            "shape/dtype/type predicate are evaluated directly on MyGrad, including 0-d tensors, float16/32, mixed "
            "precision (operands alternating float64/float32; a 0-d float64 tensor receiving float32 gradients) and "
            "the nnet layers and losses.",
    "note": "Trusted: Lean kernel, standard axioms, the correspondence harness. dtype is not part of the Int-valued model: the "
            "dtype clause is decided by the direct predicate only. Ops that override Operation.backward (GRU) are outside the "
            "generic path and are covered by the predicate (known finding for the GRU hidden-sequence gradient).",
}

MANIFEST_ADDENDUM = 'Oracle additions: byte-swapped float dtypes; tensor seeds of another dtype, integer tensor seeds, float16 array seeds; 9 histories in which a tensor holding a gradient changes shape or is updated in place inside no_autodiff. Round 5: backward(seed) on a former view whose graph was cleared (4 views x 4 seeds x 2 first epochs); the Engine model`s backward starts such a tensor over (startOver); proved: seeded_graphless_terminal (backward(seed) on a tensor without a creator - a leaf or a former view whose base lingers - stores the broadcast seed as its public .grad and leaves it without a base).'
