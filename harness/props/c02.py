"""C02 — each operation's backward pass is the exact VJP of its forward pass.

Two strata built as sub-modules and merged here:
  c02_scalar : element-wise formulas — translator tie (symbolic tracing of backward_var -> Gen/ScalarOps.lean),
               one Lean theorem per (op, operand) over the reals, bitwise IR validation, mpmath oracle;
  c02_struct : index-arithmetic / reduction / bilinear / nnet ops — Lean adjointness lemmas + exact-Jacobian oracle
               over every op in the registry and every option combination.
"""
from __future__ import annotations

import importlib

from ..core import Ctx, Outcome

ID = "C02"
LEVEL = "proof"
_subs = []
for _n in ("c02_scalar", "c02_struct"):
    try:
        _subs.append(importlib.import_module(f"harness.props.{_n}"))
    except ModuleNotFoundError as e:  # sub-module not built yet
        if _n not in str(e):
            raise

THEOREMS = {}
EXTRA_TARGETS = []
for _m in _subs:
    for k, v in _m.THEOREMS.items():
        THEOREMS.setdefault(k, [])
        THEOREMS[k] += [t for t in v if t not in THEOREMS[k]]
    EXTRA_TARGETS += getattr(_m, "EXTRA_TARGETS", [])


def regen(ctx: Ctx):
    for m in _subs:
        if hasattr(m, "regen"):
            m.regen(ctx)


def run(ctx: Ctx) -> Outcome:
    out = Outcome()
    rules = []
    for m in _subs:
        o = m.run(ctx)
        rules.append(o.rule)
        out.merge(o)
    out.rule = " || ".join(rules)
    return out


def replay(data) -> bool:
    which = data["replay"].get("stratum", "scalar")
    for m in _subs:
        if m.__name__.endswith(which):
            return m.replay(data)
    raise SystemExit(f"no sub-module for stratum {which}")


if _subs:
    MANIFEST = {
        "category": "proof",
        "design_ref": "DESIGN.md §5 C02",
        "technique": "translator tie: symbolic tracing of every element-wise backward_var into Lean definitions over ℝ, "
                     "one HasDerivAt theorem per (op, operand); Lean adjointness lemmas for gather/scatter, broadcast-"
                     "reduction, transposes, reductions; exact-Jacobian differential oracle for every registered op × option",
        "text": " ".join(getattr(m, "MANIFEST_TEXT", "") for m in _subs),
        "note": " ".join(getattr(m, "MANIFEST_NOTE", "") for m in _subs),
    }
