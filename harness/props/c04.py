"""C04 — views and in-place updates mirror NumPy's memory semantics (within one graph epoch)."""
from __future__ import annotations

import numpy as np

from .. import engcheck, progs
from ..core import Ctx, Outcome, Violation

ID = "C04"
LEVEL = "proof"
EXTRA_TARGETS = ["MG.DriverEng"]
THEOREMS = {
    "MG.Proofs.C04": [
        "MG.C04.mirror_keeps_identity",
        "MG.C04.shares_iff_positions",
        "MG.C04.sharesMem_comm",
        "MG.C04.view_is_window_of_parent_buffer",
        "MG.C04.nonview_result_owns_fresh_memory",
        "MG.C04.inplace_write_is_confined",
    ],
    "MG.Proofs.Lemmas.WriteRead": [
        "MG.Eng.read_write_same",
        "MG.Eng.write_frames_buffer",
        "MG.Eng.write_frames_position",
        "MG.Eng.write_frames_disjoint_window",
    ],
    "MG.Proofs.Lemmas.InPlaceBase": [
        "MG.C04V.inplace_on_base_seen_through_view",
        "MG.C04V.mutate_base2_eq",
        "MG.C04V.stage8b_spec",
    ],
    "MG.Proofs.Lemmas.InPlaceWhere": [
        "MG.C04W.inplace_on_owner_where_refines_numpy",
        "MG.C04W.mutate_single_eqM",
        "MG.C04W.finalHLM_spec",
        "MG.C04W.opStep_applyMask",
    ],
    "MG.Proofs.Lemmas.InPlaceFlag": [
        "MG.C10F.inplace_ignores_explicit_constant",
    ],
    "MG.Proofs.Lemmas.InPlaceView": [
        "MG.C04V.inplace_through_view_refines_numpy",
        "MG.C04V.mkDupGraph_one_view",
        "MG.C04V.mutate_two_eq",
        "MG.C04V.stage8_spec",
        "MG.C04V.stage12_spec",
    ],
    "MG.Proofs.Lemmas.InPlaceRefine": [
        "MG.C04R.inplace_on_owner_refines_numpy_general",
        "MG.C04R.inplace_on_owner_refines_numpy",
        "MG.C04R.wrap_vals",
        "MG.C04R.mutate_single_eq",
        "MG.C04R.finalH_spec",
        "MG.C04R.opStepOut_tensors",
    ],
    "MG.Proofs.Lemmas.NDIndexLemmas": [
        "MG.ND.ravel_unravel",
        "MG.ND.positions_contig",
        "MG.Eng.read_newArr",
        "MG.ND.fstrides_eq_reverse_cstrides",
        "MG.ND.fortran_is_transposed_c",
    ],
}

GEN = dict(inplace=True, p_inplace=0.4, p_view=0.35, p_fail=0.0, p_const=0.15, n_stmts=10, final_back=False)
INPLACE = ("set", "aug", "outb", "outu")


def oracle(prog, idx):
    """the same statements on plain ndarrays: values, memory sharing, ownership, identity, constant flag"""
    ex, ref = progs.RealExec(), progs.NumpyExec()
    ids, consts = {}, {}
    fails = []
    for i, st in enumerate(prog):
        if st[0] == "set" and st[2][0] in ("a", "m") and st[3][0] == "t" and st[3][1] in ref.v and st[1] in ref.v \
                and np.shares_memory(ref.v[st[3][1]], ref.v[st[1]]):
            # NumPy gives no defined result for an advanced-index assignment whose value overlaps the target in
            # memory (elements are read after they were written); outside the property's domain
            break
        r1 = ex.step(st)
        r2 = ref.step(st)
        if (r1 == "ok") != (r2 == "ok"):
            if r1 == "ok" and r2 != "ok" and st[0] in INPLACE:
                # NumPy refuses in-place writes whose result would need an unsafe cast etc.; none occur with float64.
                pass
            fails.append(("accepts-differently", f"statement {progs.to_line(st)}: MyGrad {r1}, NumPy {r2}"))
            return fails
        names = sorted(ex.v)
        for n in names:
            t, a = ex.v[n], ref.v[n]
            if t.shape != a.shape or not np.array_equal(t.data, a):
                fails.append(("value", f"after `{progs.to_line(st)}`: t{n} = {t.data.tolist()} but NumPy gives {a.tolist()}"))
                return fails
            if n in ids and ids[n] != id(t):
                fails.append(("identity", f"t{n} is no longer the same Python object after `{progs.to_line(st)}`"))
                return fails
            ids[n] = id(t)
            if n in consts and consts[n] != t.constant and st[0] in INPLACE:
                tgt = ex.v.get(st[1])
                if consts[n] and n != st[1] and tgt is not None and not tgt.constant and (tgt.base is t or (tgt.base is not None and tgt.base is t.base)):
                    # family (also a C10 finding): a where-masked in-place ufunc through a view that was *forced*
                    # non-constant on a constant base turns the constant members of the family non-constant
                    w_ = (st[5] if st[0] == "outb" else st[4]) if st[0] in ("outb", "outu") else None
                    how = st[0] + ("+where" if w_ is not None else "")
                    fails.append((f"flag-flips-under-forced-nonconstant-view:{how}!", f"`{progs.to_line(st)}` turned the constant tensor t{n} non-constant"))
                    return fails
                fails.append(("constant-flag", f"t{n}.constant changed from {consts[n]} to {t.constant} by `{progs.to_line(st)}`"))
                return fails
            consts[n] = t.constant
        for i1, n in enumerate(names):
            for m in names[i1 + 1:]:
                s1 = np.shares_memory(ex.v[n].data, ex.v[m].data)
                s2 = np.shares_memory(ref.v[n], ref.v[m])
                if s1 != s2:
                    fails.append(("sharing", f"after `{progs.to_line(st)}`: shares_memory(t{n}, t{m}) = {s1}, NumPy: {s2}"))
                    return fails
        # .base is the tensor that owns the memory (None for owners)
        for n in names:
            t, a = ex.v[n], ref.v[n]
            b = t.base
            U = a
            while U.base is not None:
                U = U.base
            owner = [m for m in names if ref.v[m] is U]
            line = progs.to_line(st)
            if U is a:
                if b is not None:
                    fails.append(("base", f"t{n} owns its memory in NumPy but .base is t{ex.name_of(b)} after `{line}`"))
                    return fails
            elif owner:
                if b is not ex.v[owner[0]]:
                    fails.append(("base", f"t{n} is a view of t{owner[0]} in NumPy but .base is {'None' if b is None else 't' + ex.name_of(b)} after `{line}`"))
                    return fails
            elif a.size and not any(m != n and np.shares_memory(a, ref.v[m]) for m in names):
                # NumPy's owner is an anonymous temporary (e.g. the copy a non-mergeable reshape makes): nobody else
                # shares the memory, so the tensor is the effective owner
                if b is not None and ex.name_of(b) != "anon":
                    fails.append(("base", f"t{n} shares memory with no live array but .base is t{ex.name_of(b)} after `{line}`"))
                    return fails
    return fails


def nontrivial(prog):
    f = progs.features(prog)
    n_in = sum(v for k, v in f.items() if k in INPLACE or k.startswith("set"))
    n_view = sum(v for k, v in f.items() if k.startswith("view"))
    return n_in >= 2 and n_view >= 1


def _fails_pred(cls):
    def pred(p):
        return any(c == cls for c, _ in oracle(p, 0))
    return pred


def run(ctx: Ctx) -> Outcome:
    n = ctx.n(2000, 12000)
    out, results = engcheck.run_programs(ctx, n, dict(GEN, n_stmts=ctx.n(10, 24)), "oracle", nontrivial)
    out.rule = ("random single-epoch histories of view creation (basic indexing, reshape, transposes, expand/squeeze, "
                "broadcast_to), non-view ops and in-place updates (item assignment, augmented assignment, out= with optional "
                "where=) on bases, views and views of views; non-trivial = >=2 in-place updates and >=1 view; distinct by hash")
    seen = engcheck.report(out, results, "C04", oracle)
    # the same with statements that NumPy and MyGrad both reject (a rejected statement produces nothing on either side)
    # and with handles dropped along the way (the middle view of a view of a view is then held by the graph alone)
    outf, resultsf = engcheck.run_programs(ctx, ctx.n(700, 4000), dict(GEN, n_stmts=ctx.n(12, 24), p_fail=0.12, p_del=0.08),
                                           "oracle", nontrivial, label="rejects:")
    engcheck.report(outf, resultsf, "C04", oracle)
    out.merge(outf)
    # ... and with memory guarding switched off (`mem_guard_off`): the same semantics without the locks
    outg, resultsg = engcheck.run_programs(ctx, ctx.n(500, 3000), dict(GEN, n_stmts=ctx.n(10, 20), _guard_off=True),
                                           "oracle", nontrivial, label="guard-off:")
    engcheck.report(outg, resultsg, "C04", oracle)
    out.merge(outg)
    # the `.shape` setter followed by in-place updates (not modelled in Lean: compared with ndarrays directly)
    for v in shape_setter_cases(ctx):
        if v.signature not in seen:
            seen.add(v.signature)
            out.violations.append(v)
    korder_corr(ctx, out)
    for name, shape, msg in noop_view_cases():
        sig = f"C04|noop-view-detached|{name}"
        if sig not in seen:
            seen.add(sig)
            out.violations.append(Violation(sig, f"{name} on a tensor of shape {shape}: {msg}", {"kind": "noop", "name": name}))
    for name, msg in mutable_arg_cases():
        out.violations.append(Violation(f"C04|mutable-argument|{name}", f"{name}: {msg}", {"kind": "mutarg", "name": name}))
    vseen = set()
    for name, msg in view_or_copy_cases():
        fam = name.split("|")[0]
        if fam not in vseen:
            vseen.add(fam)
            out.violations.append(Violation(f"C04|view-or-copy|{fam}", f"{name}: {msg}", {"kind": "voc", "name": name}))
    out.evaluations += 21 * 3 * 2
    out.stats["view_or_copy_cases"] = 21 * 3 * 2
    for name, msg in dtype_inplace_cases():
        sig = f"C04|dtype-family|{name.split('|')[0]}"
        if sig not in seen:
            seen.add(sig)
            out.violations.append(Violation(sig, f"{name}: {msg}", {"kind": "dtypefam", "name": name}))
    out.evaluations += 26 + 8 + 42
    out.assumptions = ["advanced-index assignment whose value aliases the target (NumPy's result is order-dependent there) is excluded",
                       "H_fresh: leaves own fresh memory (tensors made with copy=False from overlapping user arrays are outside the model)",
                       "owner tensors are C- or Fortran-ordered leaves; the copy of the base made by an in-place update is laid out "
                       "by NumPy's 'K' rule (modelled, korderStrides, tied to NumPy on every run); the result layout of element-wise "
                       "kernels on non-C-contiguous operands is not modelled: `reshape` is generated only where the model knows the strides"]
    return out


def mutable_arg_cases(only=None):
    """a view made with a *mutable* argument object (a list giving the new shape / the axes / the index) that the caller
    changes afterwards: the view is what it was made to be — an in-place update of its base (which re-creates the view
    from recorded arguments) must leave its shape and its window as they are on ndarrays.  -> [(name, message)]"""
    import mygrad as mg

    out = []

    def L(v):
        return list(v)

    cases = [
        ("reshape-method-list", (6,), lambda t, a: (L([2, 3]),), lambda t, m: t.reshape(m[0]), lambda a, m: a.reshape(m[0]), lambda m: m[0].__setitem__(slice(None), [3, 2])),
        ("reshape-func-list", (6,), lambda t, a: (L([2, 3]),), lambda t, m: mg.reshape(t, m[0]), lambda a, m: np.reshape(a, m[0]), lambda m: m[0].__setitem__(slice(None), [3, 2])),
        ("transpose-list", (2, 3), lambda t, a: (L([1, 0]),), lambda t, m: mg.transpose(t, m[0]), lambda a, m: np.transpose(a, m[0]), lambda m: m[0].__setitem__(slice(None), [0, 1])),
        ("moveaxis-lists", (2, 3, 4), lambda t, a: (L([0]), L([2])), lambda t, m: mg.moveaxis(t, m[0], m[1]), lambda a, m: np.moveaxis(a, m[0], m[1]), lambda m: m[1].__setitem__(0, 1)),
        ("broadcast_to-list", (3,), lambda t, a: (L([2, 3]),), lambda t, m: mg.broadcast_to(t, m[0]), lambda a, m: np.broadcast_to(a, m[0]), lambda m: m[0].__setitem__(0, 4)),
        ("expand_dims-list", (2, 3), lambda t, a: (L([0]),), lambda t, m: mg.expand_dims(t, tuple(m[0])), lambda a, m: np.expand_dims(a, tuple(m[0])), lambda m: m[0].__setitem__(0, 2)),
        ("squeeze-axis-list", (1, 3, 1), lambda t, a: (L([0]),), lambda t, m: mg.squeeze(t, tuple(m[0])), lambda a, m: np.squeeze(a, tuple(m[0])), lambda m: m[0].__setitem__(0, 2)),
        ("getitem-tuple-of-slices", (6,), lambda t, a: (L([slice(1, 4)]),), lambda t, m: t[tuple(m[0])], lambda a, m: a[tuple(m[0])], lambda m: m[0].__setitem__(0, slice(0, 2))),
        # basic indices that hold integer-valued 0-d tensors / arrays (NumPy uses their __index__): still views
        ("getitem-slice-tensor-start", (6,), lambda t, a: (mg.tensor(1),), lambda t, m: t[m[0]:4], lambda a, m: a[m[0]:4], lambda m: m[0].__iadd__(2)),
        ("getitem-slice-tensor-stop-step", (6,), lambda t, a: (mg.tensor(5), mg.tensor(1)), lambda t, m: t[0:m[0]:m[1]], lambda a, m: a[0:m[0]:m[1]], lambda m: (m[0].__isub__(2), m[1].__iadd__(1))),
        ("getitem-slice-0d-array-start", (6,), lambda t, a: (np.array(1),), lambda t, m: t[m[0]:4], lambda a, m: a[m[0]:4], lambda m: m[0].__iadd__(2)),
        ("getitem-tuple-slice-tensor-bound", (2, 3), lambda t, a: (mg.tensor(0),), lambda t, m: t[:, m[0]:2], lambda a, m: a[:, m[0]:2], lambda m: m[0].__iadd__(1)),
        ("getitem-0d-tensor-index", (2, 3), lambda t, a: (mg.tensor(0),), lambda t, m: t[m[0]], lambda a, m: a[m[0]], lambda m: m[0].__iadd__(1)),
        ("getitem-tuple-0d-tensor-index", (2, 3), lambda t, a: (mg.tensor(0),), lambda t, m: t[:, m[0]], lambda a, m: a[:, m[0]], lambda m: m[0].__iadd__(2)),
    ]
    for name, shape, mkargs, f, g, mutate in cases:
        if only is not None and name != only:
            continue
        a = np.arange(float(np.prod(shape))).reshape(shape).copy()
        x = mg.tensor(a.copy())
        m = mkargs(x, a)
        m2 = mkargs(x, a)
        try:
            v, w = f(x, m), g(a, m2)
            mutate(m)
            mutate(m2)
            x[...] = x.data * 2.0 + 1.0
            a[...] = a * 2.0 + 1.0
        except Exception as e:  # noqa: BLE001
            out.append((name, f"raised {type(e).__name__}: {str(e)[:80]}"))
            continue
        if v.shape != w.shape or not np.array_equal(v.data, w):
            out.append((name, f"after the argument object was changed and the base updated in place the view is {v.data.tolist()} "
                        f"(shape {v.shape}); NumPy: {w.tolist()} (shape {w.shape})"))
        elif bool(np.shares_memory(v.data, x.data)) != bool(np.shares_memory(w, a)):
            out.append((name, "memory sharing with the base differs from NumPy's after the update"))
    return out


def dtype_inplace_cases(only=None):
    """view families over other dtypes than float64 (float32, float16, constant integer and boolean tensors), updated in
    place with exactly representable operands: dtype, values, memory sharing and `.base` after every statement equal
    NumPy's; statements NumPy refuses for the dtype (an unsafe cast into an integer array) are refused.
    -> [(name, message)]"""
    import mygrad as mg

    out = []
    stmts = [
        ("v*=2", lambda x, v, w: v.__imul__(2.0), lambda a, b, c: b.__imul__(2.0)),
        ("x[::2]=0.5", lambda x, v, w: x.__setitem__(slice(None, None, 2), 0.5), lambda a, b, c: a.__setitem__(slice(None, None, 2), 0.5)),
        ("add(v,1,out=v)", lambda x, v, w: np.add(v, 1.0, out=v), lambda a, b, c: np.add(b, 1.0, out=b)),
        ("w+=arr", lambda x, v, w: w.__iadd__(np.ones(w.shape, dtype=w.dtype)), lambda a, b, c: c.__iadd__(np.ones(c.shape, dtype=c.dtype))),
        ("x+=1.5", lambda x, v, w: x.__iadd__(1.5), lambda a, b, c: a.__iadd__(1.5)),
        ("mul(w,w,out=w,where=m)", lambda x, v, w: np.multiply(w, w, out=w, where=np.array([[True, False], [False, True], [True, True]])),
         lambda a, b, c: np.multiply(c, c, out=c, where=np.array([[True, False], [False, True], [True, True]]))),
        ("x[[0,0,5]]=v0", lambda x, v, w: x.__setitem__(np.array([0, 0, 5]), 2.0), lambda a, b, c: a.__setitem__(np.array([0, 0, 5]), 2.0)),
    ]
    for dt in ("float32", "float16", "int32", "int64", "uint8", "bool"):
        for k in range(len(stmts)):
            seq = [stmts[k], stmts[(k + 3) % len(stmts)], stmts[(k + 5) % len(stmts)]]
            name = f"{dt}|" + ";".join(s[0] for s in seq)
            if only is not None and name != only:
                continue
            a = (np.arange(6) % 2 == 0) if dt == "bool" else (np.arange(6) + 1).astype(dt)
            x = mg.tensor(a.copy())
            v, w = x[1:4], x.reshape(2, 3).T
            b, c = a[1:4], a.reshape(2, 3).T
            for sname, f, g in seq:
                e1 = e2 = None
                try:
                    f(x, v, w)
                except Exception as e:  # noqa: BLE001
                    e1 = type(e).__name__
                try:
                    g(a, b, c)
                except Exception as e:  # noqa: BLE001
                    e2 = type(e).__name__
                if (e1 is None) != (e2 is None):
                    out.append((name, f"`{sname}`: MyGrad {'raises ' + e1 if e1 else 'accepts'}, NumPy {'raises ' + e2 if e2 else 'accepts'}"))
                    break
                bad = None
                for nm, t, r in (("x", x, a), ("v", v, b), ("w", w, c)):
                    if t.dtype != r.dtype or t.shape != r.shape or not np.array_equal(t.data, r):
                        bad = f"after `{sname}` {nm} is {t.data.tolist()} ({t.dtype}); NumPy: {r.tolist()} ({r.dtype})"
                        break
                if bad is None and not (np.shares_memory(v.data, x.data) and np.shares_memory(w.data, x.data) and v.base is x and w.base is x):
                    bad = f"after `{sname}` the views no longer share the base's memory / name it as their base"
                if bad:
                    out.append((name, bad))
                    break
    return out


def view_or_copy_cases(only=None):
    """every shape-manipulating routine, on operands of several memory layouts, tracked and inside no_autodiff: the
    result shares memory with its operand exactly when NumPy's does (flatten / copy / astype / repeat / roll never,
    ravel / reshape only when the layout allows it, the transposing routines always), and in tracked mode it names the
    operand as its `.base` exactly then.  -> [(name, message)]"""
    import mygrad as mg

    ops = [("flatten", lambda t: t.flatten(), lambda a: a.flatten()),
           ("ravel", lambda t: mg.ravel(t), lambda a: np.ravel(a)),
           ("ravel-method", lambda t: t.ravel(), lambda a: a.ravel()),
           ("reshape(-1)", lambda t: t.reshape(-1), lambda a: a.reshape(-1)),
           ("reshape(3,2)", lambda t: mg.reshape(t, (3, 2)), lambda a: np.reshape(a, (3, 2))),
           ("T", lambda t: t.T, lambda a: a.T),
           ("transpose", lambda t: mg.transpose(t), lambda a: np.transpose(a)),
           ("swapaxes", lambda t: mg.swapaxes(t, 0, 1), lambda a: np.swapaxes(a, 0, 1)),
           ("moveaxis", lambda t: mg.moveaxis(t, 0, 1), lambda a: np.moveaxis(a, 0, 1)),
           ("expand_dims", lambda t: mg.expand_dims(t, 1), lambda a: np.expand_dims(a, 1)),
           ("atleast_3d", lambda t: mg.atleast_3d(t), lambda a: np.atleast_3d(a)),
           ("x[0]", lambda t: t[0], lambda a: a[0]),
           ("x[:, ::2]", lambda t: t[:, ::2], lambda a: a[:, ::2]),
           ("x[[0, 1]]", lambda t: t[[0, 1]], lambda a: a[[0, 1]]),
           ("x[x > 2]", lambda t: t[t.data > 2], lambda a: a[a > 2]),
           ("copy", lambda t: t.copy(), lambda a: a.copy()),
           ("astype(f64)", lambda t: t.astype(np.float64), lambda a: a.astype(np.float64)),
           ("repeat", lambda t: mg.repeat(t, 1, axis=0), lambda a: np.repeat(a, 1, axis=0)),
           ("roll", lambda t: mg.roll(t, 0), lambda a: np.roll(a, 0)),
           ("positive", lambda t: +t, lambda a: +a),
           ("sum(())", lambda t: mg.sum(t, axis=()), lambda a: np.sum(a, axis=()))]
    layouts = [("C", lambda a: a), ("F", lambda a: np.asfortranarray(a)), ("strided", lambda a: np.repeat(a, 2, axis=1)[:, ::2])]
    out = []
    for (lname, lay), (name, f, g), tracked in [(l, o, t) for l in layouts for o in ops for t in (True, False)]:
        nm = f"{name}|{lname}|{'tracked' if tracked else 'no_autodiff'}"
        if only is not None and nm != only:
            continue
        a = lay(np.arange(6.0).reshape(2, 3) + 1)
        x = mg.tensor(a, copy=False) if lname == "strided" else mg.tensor(a)
        a = x.data
        try:
            if tracked:
                y = f(x)
            else:
                with mg.no_autodiff:
                    y = f(x)
            b = g(a)
        except Exception as e:  # noqa: BLE001
            out.append((nm, f"raised {type(e).__name__}: {str(e)[:60]}"))
            continue
        shares = bool(np.shares_memory(b, a))
        got = bool(np.shares_memory(y.data, x.data))
        if got != shares:
            out.append((nm, f"the result {'shares' if got else 'does not share'} memory with its operand; NumPy's {'does' if shares else 'does not'}"))
        elif tracked and (y.base is x) != shares and y is not x:
            out.append((nm, f"the result {'shares' if shares else 'does not share'} memory with x but its .base is {'x' if y.base is x else 'not x'}"))
    return out


def noop_view_cases():
    """view-producing routines called so that there is *nothing to do* (NumPy then returns the input array itself or a
    trivial view of it): the result shares memory with x, so x must be its base and an in-place update of x must be
    seen through it, exactly as on ndarrays"""
    import mygrad as mg

    ops = [("squeeze", lambda t: mg.squeeze(t), lambda a: np.squeeze(a)),
           ("squeeze-method", lambda t: t.squeeze(), lambda a: a.squeeze()),
           ("reshape-same", lambda t: t.reshape(t.shape), lambda a: a.reshape(a.shape)),
           ("ravel-1d", lambda t: mg.ravel(t), lambda a: np.ravel(a)),
           ("transpose-1d", lambda t: t.T, lambda a: a.T),
           ("transpose-fn", lambda t: mg.transpose(t), lambda a: np.transpose(a)),
           ("ellipsis", lambda t: t[...], lambda a: a[...]),
           ("full-slice", lambda t: t[:], lambda a: a[:]),
           ("broadcast_to-same", lambda t: mg.broadcast_to(t, t.shape), lambda a: np.broadcast_to(a, a.shape)),
           ("swapaxes-same", lambda t: mg.swapaxes(t, 0, 0), lambda a: np.swapaxes(a, 0, 0)),
           ("moveaxis-same", lambda t: mg.moveaxis(t, 0, 0), lambda a: np.moveaxis(a, 0, 0)),
           ("atleast_1d", lambda t: mg.atleast_1d(t), lambda a: np.atleast_1d(a)),
           ("expand-squeeze", lambda t: mg.squeeze(mg.expand_dims(t, 0)), lambda a: np.squeeze(np.expand_dims(a, 0)))]
    out = []
    for shape in [(4,), (2, 3)]:
        for name, f, g in ops:
            a = np.arange(float(np.prod(shape))).reshape(shape).copy()
            x = mg.tensor(a.copy())
            try:
                y, b = f(x), g(a)
            except Exception as e:  # noqa: BLE001
                out.append((name, shape, f"raised {type(e).__name__}"))
                continue
            if y is x:
                continue
            shares = bool(np.shares_memory(b, a))
            if bool(np.shares_memory(y.data, x.data)) != shares:
                out.append((name, shape, f"shares_memory = {not shares}, NumPy: {shares}"))
                continue
            if shares and y.base is not x:
                out.append((name, shape, "the result shares memory with x but x is not its .base"))
                continue
            if name.startswith("broadcast_to"):
                continue  # read-only in NumPy: no update through / under it is compared
            x[...] = 7.0
            a[...] = 7.0
            if not np.array_equal(y.data, g(a)) or not np.array_equal(x.data, a):
                out.append((name, shape, f"after x[...] = 7 the result reads {y.data.tolist()}, NumPy {np.asarray(g(a)).tolist()}"))
    return out


def korder_corr(ctx, out):
    """tie of the model's `korderStrides` (layout of `np.copy(a, order='K')`, used for the copy of the base that an
    in-place update mutates) to NumPy itself, on random C/Fortran arrays under transposes, strided/reversed slices and
    new axes; strides of axes of length 1 are not compared (they address nothing)"""
    from ..core import CorrBreak
    from ..leanbuild import run_driver

    rng = ctx.rng("korder")
    lines, exp = [], []
    for _ in range(ctx.n(400, 4000)):
        shape = [rng.choice([1, 2, 3, 4]) for _ in range(rng.randint(1, 4))]
        a = np.arange(int(np.prod(shape)), dtype=np.int64).reshape(shape)
        if rng.random() < 0.35:
            a = np.asfortranarray(a)
        for _ in range(rng.randint(0, 3)):
            k = rng.choice(["tr", "sl", "na"])
            if k == "tr":
                p = list(range(a.ndim))
                rng.shuffle(p)
                a = a.transpose(p)
            elif k == "sl":
                sl = [slice(None)] * a.ndim
                sl[rng.randrange(a.ndim)] = slice(None, None, rng.choice([1, 2, -1, -2]))
                a = a[tuple(sl)]
            else:
                a = np.expand_dims(a, rng.randint(0, a.ndim))
        if a.size == 0:
            continue
        st = [x // 8 for x in a.strides]
        lines.append("eng kstrides %s %s" % (",".join(map(str, a.shape)), ",".join(map(str, st))))
        exp.append((list(a.shape), st, [x // 8 for x in np.copy(a, order="K").strides]))
    got = run_driver(lines, driver="MG/DriverEng.lean")
    bad = 0
    for (sh, st, e), o in zip(exp, got):
        m = [int(x) for x in o.split(",")] if o and o != "bad-op" else None
        if m is None or len(m) != len(e) or any(d != 1 and x != y for d, x, y in zip(sh, e, m)):
            bad += 1
            if bad <= 3:
                out.corr_breaks.append(CorrBreak("K-order copy layout: korderStrides vs NumPy",
                                                 {"shape": sh, "strides": st, "numpy": e, "model": o}))
    out.traces_validated += len(exp)
    out.stats["korder_layout_cases"] = len(exp)
    out.stats["korder_layout_noncontiguous"] = sum(1 for sh, st, e in exp if st != e)


def run_shape_steps(steps):
    """execute structured shape-setter steps on MyGrad and on ndarrays; -> (failure class or None, message)"""
    import mygrad as mg

    x, a = mg.tensor(np.arange(12.0)), np.arange(12.0)
    fam_t, fam_a = [x], [a]
    log = []
    for stp in steps:
        k, i = stp[0], stp[1]
        t, arr = fam_t[i], fam_a[i]
        # NumPy first: a statement NumPy itself refuses must be refused as well, and leave the family as it is
        np_refuses = False
        try:
            if k == "view":
                idx = slice(*stp[2]) if isinstance(stp[2], list) else (None if stp[2] == "None" else stp[2])
                new_a = arr.T if stp[2] == "T" else arr[idx]
            elif k == "shape":
                arr.shape = tuple(stp[2])
            else:
                arr *= stp[2]
        except Exception:
            if k != "shape":
                return None, "invalid"
            np_refuses = True
        if np_refuses:
            log.append(f"v{i}.shape = {tuple(stp[2])}")
            try:
                t.shape = tuple(stp[2])
            except Exception:
                pass
            else:
                return "accepted-rejected-shape", f"`{'; '.join(log)}`: NumPy refuses the last statement, MyGrad accepted it"
            log[-1] += "  (refused)"
            for j, (tt, aa) in enumerate(zip(fam_t, fam_a)):
                if tt.shape != aa.shape or not np.array_equal(tt.data, aa):
                    return "stale-view", f"after `{'; '.join(log)}` v{j} = {tt.data.tolist()} but NumPy gives {aa.tolist()}"
            continue
        try:
            if k == "view":
                fam_a.append(new_a); fam_t.append(t.T if stp[2] == "T" else t[idx]); log.append(f"v{len(fam_t)-1} = v{i}[{idx}]" if stp[2] != "T" else f"v{len(fam_t)-1} = v{i}.T")
            elif k == "shape":
                log.append(f"v{i}.shape = {tuple(stp[2])}")
                t.shape = tuple(stp[2])
            else:
                log.append(f"v{i} *= {stp[2]}")
                t *= stp[2]
        except Exception as e:
            return "raised", f"`{'; '.join(log)}` raised {type(e).__name__} (NumPy accepts it)"
        for j, (tt, aa) in enumerate(zip(fam_t, fam_a)):
            if tt.shape != aa.shape or not np.array_equal(tt.data, aa):
                return "stale-view", f"after `{'; '.join(log)}` v{j} = {tt.data.tolist()} but NumPy gives {aa.tolist()}"
    return None, ""


# sequences run under every seed: `.shape =` on memory that cannot take the shape without a copy (NumPy refuses) and
# on strided memory that can
PINNED_SHAPE_SEQS = [
    [["shape", 0, [3, 4]], ["view", 0, "T"], ["shape", 1, [12]], ["inplace", 0, 2.0]],
    [["shape", 0, [3, 4]], ["view", 0, "T"], ["shape", 1, [2, 6]], ["inplace", 1, 3.0]],
    [["shape", 0, [2, 6]], ["view", 0, "T"], ["shape", 1, [3, 4]], ["inplace", 0, 2.0]],
    [["shape", 0, [3, 4]], ["view", 0, [None, None, 2]], ["shape", 1, [8]], ["inplace", 1, -1.0]],
    [["view", 0, [None, None, 2]], ["shape", 1, [2, 3]], ["inplace", 0, 2.0]],
    [["view", 0, [None, None, -1]], ["shape", 1, [3, 4]], ["view", 1, "T"], ["shape", 2, [12]], ["inplace", 0, 2.0]],
    [["shape", 0, [2, 2, 3]], ["view", 0, "T"], ["shape", 1, [6, 2]], ["shape", 1, [3, 4]], ["inplace", 1, 2.0]],
]


def shape_setter_cases(ctx):
    """`.shape = …` on members of a view family, followed by in-place updates, vs the same statements on ndarrays"""
    rng = ctx.rng("shape")
    best = {}
    for c in range(-len(PINNED_SHAPE_SEQS), ctx.n(150, 2000)):
        steps = []
        if c < 0:
            steps = [list(x) for x in PINNED_SHAPE_SEQS[c]]
        shapes = [(12,)]  # shape of each family member, tracked on ndarrays
        arrs = [np.arange(12.0)]
        for step in range(rng.randint(2, 6) if c >= 0 else 0):
            k = rng.choice(["view", "view", "shape", "inplace", "inplace"])
            i = rng.randrange(len(arrs))
            arr = arrs[i]
            if k == "view":
                if arr.ndim == 1 and arr.size > 1:
                    sl = rng.choice([[None, None, 2], [1, None, None], [None, None, -1]])
                    steps.append(["view", i, sl]); arrs.append(arr[slice(*sl)])
                elif arr.ndim >= 2 and rng.random() < 0.5:
                    steps.append(["view", i, "T"]); arrs.append(arr.T)
                elif arr.ndim >= 2:
                    steps.append(["view", i, 0]); arrs.append(arr[0])
                else:
                    steps.append(["view", i, "None"]); arrs.append(arr[None])
            elif k == "shape":
                cands = [s for s in [(12,), (3, 4), (4, 3), (2, 6), (6, 2), (2, 2, 3), (6,), (2, 3), (3, 2), (1, 6), (1, 12)]
                         if int(np.prod(s)) == arr.size and s != arr.shape]
                if not cands:
                    continue
                s = rng.choice(cands)
                try:
                    arr.shape = s
                except Exception:
                    pass  # NumPy refuses (memory that cannot take the shape without a copy): so must MyGrad
                steps.append(["shape", i, list(s)])
            else:
                val = float(rng.randint(-3, 3))
                arr *= val
                steps.append(["inplace", i, val])
        cls, msg = run_shape_steps(steps)
        if cls is not None:
            # shrink: drop steps while the same class persists
            cur = steps
            for j in range(len(cur) - 1, -1, -1):
                cand = cur[:j] + cur[j + 1:]
                try:
                    if run_shape_steps(cand)[0] == cls:
                        cur = cand
                except Exception:
                    pass
            cls, msg = run_shape_steps(cur)
            sig = f"C04|shape-setter|{cls}"
            if sig not in best or len(cur) < len(best[sig].replay["steps"]):
                best[sig] = Violation(sig, msg, {"kind": "shape", "steps": cur})
    return list(best.values())


def check_witness(w):
    if "noop" in w:
        for name, shape, msg in noop_view_cases():
            if name == w["noop"]:
                return Violation(f"C04|noop-view-detached|{name}", f"{name} on a tensor of shape {shape}: {msg}", {"kind": "noop", "name": name})
        return None
    if "program" in w:
        for cls, msg in oracle(w["program"], 0):
            if cls.endswith("!"):
                return Violation(f"C04|{cls[:-1]}", msg, {"kind": "program", "program": w["program"], "class": cls})
        return None
    cls, msg = run_shape_steps(w["steps"])
    return None if cls is None else Violation(f"C04|shape-setter|{cls}", msg, {"kind": "shape", "steps": w["steps"]})


def replay(data) -> bool:
    r = data["replay"]
    if r.get("kind") == "dtypefam":
        f = dtype_inplace_cases(only=r["name"])
        print(f)
        return bool(f)
    if r.get("kind") == "voc":
        f = view_or_copy_cases(only=r["name"])
        print(f)
        return bool(f)
    if r.get("kind") == "mutarg":
        f = mutable_arg_cases(only=r["name"])
        print(f)
        return bool(f)
    if r.get("kind") == "noop":
        f = [c for c in noop_view_cases() if c[0] == r["name"]]
        print(f)
        return bool(f)
    if r.get("kind") == "shape":
        cls, msg = run_shape_steps(r["steps"])
        print(cls, msg)
        return cls is not None
    p = r["program"]
    for st in p:
        print(progs.to_line(st))
    f = oracle(p, 0)
    print("oracle:", f)
    return bool(f)


MANIFEST = {
    "category": "proof",
    "design_ref": "DESIGN.md §5 C04",
    "technique": "Lean 4: strided-descriptor model of NumPy views with the view-or-copy reshape rule, executable model of "
                 "_in_place_op/DuplicatingGraph, theorems on descriptor views = logical gathers, identity/flag preservation by "
                 "mirroring and the base-target refinement; model/implementation correspondence after every statement; NumPy twin oracle",
    "text": "NumPy's memory semantics (buffers, strided windows, basic indexing, transposes, view-or-copy "
            "reshape, broadcasting) and MyGrad's view/in-place machinery (view detection and base assignment, "
            "placeholders, DuplicatingGraph, copy of the base, view replay, guarded kernel call, ApplyMask, "
            "UnView, mirroring, re-creation of views in placeholder-DFS order) are modelled executably in Lean "
            "and run against MyGrad after every statement of random single-epoch histories (values, shapes, "
            "memory-sharing matrix, .base, constant flag, creator). Proved for all heaps and arguments: mirroring "
            "changes a public tensor's state and never its identity or any other tensor (mirror_keeps_identity); "
            "a view op NumPy serves as a view yields a window into the parent's own buffer and allocates/writes "
            "nothing (view_is_window_of_parent_buffer); every other forward result lives in a fresh buffer no "
            "existing tensor can share (nonview_result_owns_fresh_memory); two windows share memory iff same "
            "buffer and a common position (shares_iff_positions); the guarded kernel call of an in-place update "
            "writes only the fresh copy of the base, never memory the placeholders still point at "
            "(inplace_write_is_confined); a write through a window with pairwise distinct in-range positions is read "
            "back exactly and leaves every other buffer, every position outside the window and hence every window "
            "disjoint from it unchanged (read_write_same, write_frames_*); C-order ravel/unravel are inverse, a "
            "contiguous window addresses its buffer in order, a fresh array reads back its values, and a "
            "Fortran-ordered array is the .T of the C-ordered array of the reversed shape (fortran_is_transposed_c). End to end, for the whole _in_place_op of the model on a tensor that owns C-contiguous memory and has no live "
            "views, with any operands (tensors, itself included, and literals — ndarrays / Python scalars) and any kernel: if the NumPy-level statement yields `vals` "
            "then the update succeeds and the same tensor id reads `vals`, keeps its flag and owns its memory, no buffer "
            "that existed before is written and every other tensor keeps its array and flag "
            "(inplace_on_owner_refines_numpy_general, via the closed form finalHL of the result heap). And for an update "
            "whose target is the one live view v = vf(b) of such a tensor b (any view op NumPy serves as a view, with a "
            "window of pairwise distinct positions): the update succeeds, v reads the written values and is still a view "
            "of b, b reads its old values with exactly v's window overwritten, and nothing else changes "
            "(inplace_through_view_refines_numpy: DuplicatingGraph with two placeholders, replay on the copy, UnView, "
            "re-creation of the view). "
            "The direct oracle executes the same statements on plain ndarrays.",
    "note": "Trusted: Lean kernel, standard axioms, the correspondence harness; Owner tensors are C- or "
            "Fortran-ordered; np.copy's 'K' layout is modelled and tied to NumPy; the 'K'-order *result* layout of element-wise "
            "kernels is not modelled (reshape is generated only on tensors whose strides the model knows). The end-to-end "
            "refinement 'heap after an in-place update = NumPy buffer write' is proved for a tensor without live views "
            "(inplace_on_owner_refines_numpy_general) and for a base with one live view updated through that view "
            "(inplace_through_view_refines_numpy); for a general view forest (several views, views of views, where= masks) it is validated by correspondence + NumPy twin on "
            "every run, not proved (named gap inplace_refines_numpy_forest). `.shape =` is not modelled in Lean: shape/view/in-place sequences are compared with ndarrays directly "
            "(the defects found there are repaired); advanced-index assignment whose value aliases the target is excluded "
            "(NumPy's own result is order-dependent there).",
}

MANIFEST_ADDENDUM = 'Also proved: inplace_on_base_seen_through_view (an update on a base is seen through its live view), inplace_on_owner_where_refines_numpy (where=-masked update: guarded call + ApplyMask in closed form). Oracle additions: programs with statements both sides reject and with dropped handles; views made with mutable argument objects that the caller changes afterwards. Round 5: views made with integer-valued 0-d tensors/arrays as indices and slice bounds that the caller changes afterwards; .shape statements NumPy refuses (transposed views, pinned sequences) must be refused and leave the family unchanged; explicit constant= on out= statements in the program IR (ties inplace_ignores_explicit_constant to the code by correspondence). Round 6: view-or-copy parity (shares memory with its operand exactly when NumPy`s result does, .base set exactly then) of 21 shape/copy routines over C-, F-ordered and strided operands, tracked and inside no_autodiff.'
