"""C08 — memory guard: arrays in a live graph are read-only, and restored afterwards.

Histories (one seed) of user arrays / views / tensors / ops / out= / in-place updates / failing ops /
backward / clear_graph / reference drops are executed on real MyGrad with ``gc.disable()``.

(i)  correspondence: a spy (installed here, no change to /repo) on ``lock_arr_writeability``,
     ``_release_lock_on_arr_writeability``, ``release_writeability_lock_on_op``, ``unique_arrs_and_bases`` and the
     ``finalize`` registrations records the events actually produced (arrays named by first-sight index, addresses by a
     canonical numbering — never raw ``id()``); the same events are fed to the Lean model ``MG/Core/Lock.lean`` which
     must predict the ``writeable`` flag of every alive array after every statement (and the order in which
     ``unique_arrs_and_bases`` yields).  CPython's finalizer timing is replayed, not predicted.
(ii) direct oracle (independent of model and spy): the op graph reachable from the tensors the user holds decides which
     arrays must be read-only (flag *and* an attempted write); arrays no live op refers to must carry their original
     flag; natively read-only arrays never become writeable.
"""
from __future__ import annotations

import gc
import json
import os
import random
import weakref

import numpy as np

import mygrad as mg
import mygrad._utils.lock_management as _mem
import mygrad.tensor_base as _tb

from ..core import CorrBreak, Ctx, Outcome, Violation, pmap, stable_hash
from ..core import LEAN
from ..leanbuild import run_driver as _shared_driver


def run_driver(lines):
    """the shared driver (`lock` tag of MG/Driver.lean); if it cannot start (another property's handler is being
    rebuilt) the same handler is run through the stand-alone entry point MG/IO/LockMain.lean"""
    try:
        return _shared_driver(lines)
    except RuntimeError:
        import subprocess

        r = subprocess.run(["lake", "env", "lean", "--run", "MG/IO/LockMain.lean"], cwd=LEAN,
                           input="\n".join(lines) + "\n", capture_output=True, text=True, timeout=1200)
        out = r.stdout.splitlines()
        if r.returncode != 0 or len(out) != len(lines):
            raise RuntimeError("Lean lock driver failed: " + (r.stderr or r.stdout)[-1500:])
        return out

ID = "C08"
LEVEL = "proof"
THEOREMS = {
    "MG.Proofs.C08": [
        "MG.C08.guard_inv_partial",
        "MG.C08.restore_at_quiescence_partial",
        "MG.C08.never_unlocks_native_readonly_partial",
        "MG.C08.step_ginv",
        "MG.C08.guard_inv_neg",
        "MG.C08.restore_at_quiescence_neg",
        "MG.C08.restore_needs_fresh_neg",
        "MG.C08.restore_needs_flags_neg",
        "MG.C08.never_unlocks_native_readonly_neg",
        "MG.C08.never_unlocks_needs_flags_neg",
        "MG.C08.never_unlocks_needs_fresh_neg",
        "MG.C08.guard_inv_needs_fresh_neg",
    ]
}

N = 4  # length of every user array


# =============================================================================================== environment


class HarnessError(Exception):
    pass


class Env:
    """the user's namespace: name -> object, plus what the *user* knows about each array (ground truth for `orig`)"""

    def __init__(self):
        self.obj = {}
        self.meta = {}  # name -> dict (arrays only)
        self.orig = {}  # id(arr) -> (weakref, orig flag, descriptor dict)   [user arrays]
        self.held_exc = None  # the exception of the statement being observed (see exec_stmt)

    def note_user_array(self, arr, orig, desc):
        self.orig[id(arr)] = (weakref.ref(arr), bool(orig), desc)

    def user_info(self, arr):
        e = self.orig.get(id(arr))
        if e is not None and e[0]() is arr:
            return e
        return None


def _operand(env, ref):
    k, v = ref
    if k == "s":
        return float(v)
    name = f"{k}{v}"
    if name not in env.obj:
        raise KeyError(name)
    return env.obj[name]


VIEW_IDX = {0: (slice(None),), 1: (slice(None, None, -1),), 2: (Ellipsis,)}

UN = {"neg": lambda x: mg.negative(x), "pos": lambda x: mg.positive(x), "sum": lambda x: mg.sum(x),
      "vslice": lambda x: _as_t(x)[:], "vrev": lambda x: _as_t(x)[::-1],
      "reshape": lambda x: mg.reshape(x, (2, 2)), "T": lambda x: mg.transpose(mg.reshape(x, (2, 2)))}
BIN = {"add": lambda x, y: mg.add(x, y), "mul": lambda x, y: mg.multiply(x, y), "opmul": lambda x, y: _as_t(x) * y,
       "sub": lambda x, y: mg.subtract(x, y)}
OUTOPS = {"add": mg.add, "mul": mg.multiply}


def _as_t(x):
    return x if isinstance(x, mg.Tensor) else mg.astensor(x)


def exec_stmt(env: Env, st):
    """execute one statement; returns the exception class name or '-'.  A statement that refers to a name that does
    not exist (any more) is a no-op ('skip') — this keeps shrinking feature-monotone."""
    k = st[0]
    try:
        if k == "arr":  # ["arr", name, ro]
            _, name, ro = st
            a = np.arange(1.0, N + 1.0)
            if ro:
                a.flags.writeable = False
            env.obj[name] = a
            env.meta[name] = {"kind": "owner", "ro": bool(ro), "orig": not ro}
            env.note_user_array(a, not ro, env.meta[name])
        elif k == "view":  # ["view", name, parent, idxkind, ro]
            _, name, parent, ik, ro = st
            p = env.obj[parent]
            pm = env.meta[parent]
            v = p[VIEW_IDX[ik]]
            stale = (not v.flags.writeable) and pm["orig"]
            if ro:
                v.flags.writeable = False
            env.obj[name] = v
            root = pm.get("root", parent)
            env.meta[name] = {"kind": "view", "ro": bool(ro), "orig": pm["orig"] and not ro, "stale": stale,
                              "root": root, "vov": pm["kind"] == "view"}
            env.note_user_array(v, env.meta[name]["orig"], env.meta[name])
        elif k == "setro":  # ["setro", name]  — the user makes an array read-only before it is used
            _, name = st
            a = env.obj[name]
            m = env.meta[name]
            if m.get("entered") or not a.flags.writeable:
                return "skip"
            a.flags.writeable = False
            m["orig"] = False
            m["ro"] = True
            m["setro"] = True
            env.note_user_array(a, False, m)
        elif k == "tens":  # ["tens", name]
            env.obj[st[1]] = mg.tensor(np.arange(1.0, N + 1.0))
        elif k == "wrap":  # ["wrap", name, arrname, const]
            _, name, an, const = st
            env.obj[name] = mg.tensor(env.obj[an], copy=False, constant=bool(const))
        elif k == "tview":  # ["tview", name, tname, kind]: a tensor that is a view of another tensor
            _, name, tn, vk = st
            t = env.obj[tn]
            env.obj[name] = t[: max(1, N // 2)] if vk == 0 else (t[::-1] if vk == 1 else t[...])
        elif k == "un":  # ["un", name, op, x]
            _, name, op, x = st
            env.obj[name] = UN[op](_operand(env, x))
        elif k == "bin":
            _, name, op, x, y = st
            env.obj[name] = BIN[op](_operand(env, x), _operand(env, y))
        elif k == "seq":  # ["seq", name, [operands]]
            _, name, xs = st
            env.obj[name] = mg.multiply_sequence(*[_operand(env, x) for x in xs])
        elif k == "out":  # ["out", name|None, op, x, y, target]   target = ("t", i) | ("a", i)
            _, name, op, x, y, tgt = st
            r = OUTOPS[op](_operand(env, x), _operand(env, y), out=_operand(env, tgt))
            if tgt[0] == "a" and name:
                env.obj[name] = r
        elif k == "set":  # ["set", tname, idxkind, value]
            _, tn, ik, val = st
            t = env.obj[tn]
            v = _operand(env, val)
            t[(slice(None),) if ik == 0 else ((Ellipsis,) if ik == 1 else (slice(None, None, -1),))] = v
        elif k == "aug":  # ["aug", tname, op, value]
            _, tn, op, val = st
            t = env.obj[tn]
            v = _operand(env, val)
            if op == "add":
                t += v
            else:
                t *= v
            env.obj[tn] = t
        elif k == "fail":  # ["fail", kind, x]
            _, kind, x = st
            xv = _operand(env, x)
            if kind == "shape":
                mg.add(xv, np.ones(N + 1))
            elif kind == "index":
                _as_t(xv)[N + 3]
            elif kind == "matmul":
                mg.matmul(xv, np.ones((N + 1, 2)))
        elif k == "back":
            env.obj[st[1]].backward()
        elif k == "clear":
            env.obj[st[1]].clear_graph()
        elif k == "del":
            name = st[1]
            if name not in env.obj:
                return "skip"
            del env.obj[name]
        elif k == "goff":  # handled by the runner (nested statements)
            raise HarnessError("goff is expanded by the runner")
        else:
            raise HarnessError(f"unknown statement {st!r}")
    except KeyError as e:
        if e.args and isinstance(e.args[0], str) and (e.args[0][:1] in "at") and e.args[0][1:].isdigit():
            return "skip"
        return "KeyError"
    except HarnessError:
        raise
    except Exception as e:  # the statement raised inside MyGrad / NumPy
        # the caller is still "inside the handler" while it observes the flags: the exception object (and with it the
        # traceback and the frames of the failed call) stays referenced until the observation is over
        env.held_exc = e
        return type(e).__name__
    return "-"


# =============================================================================================== spy


class Spy:
    """records the lock-management events of the real code; names arrays by first-sight index"""

    def __init__(self, env: Env):
        self.env = env
        self.reg = {}  # id(arr) -> (weakref, index)
        self.aids = {}  # id() value -> canonical small int
        self.info = []  # index -> dict(orig=…, base=…)
        self.alive = {}  # index -> weakref
        self.lines = []  # driver lines produced so far
        self.checks = []  # (line number, kind, expected)  things the model's answer is compared with
        self.holds = []  # mirror of the model's hold list (group keys)
        self.refs2grp = {}  # id(refs object) -> group key
        self.open = None  # currently open group: dict(key, yields, in_idx, pending)
        self.next_grp = 0
        self.problems = []  # unmodelled call patterns
        self.dying = []
        self.releasing = None  # arrays passed to _release_lock_on_arr_writeability by the running finalizer
        self.installed = False

    # ---- registry
    def idx(self, arr):
        e = self.reg.get(id(arr))
        if e is not None and e[0]() is arr:
            return e[1]
        b = arr.base if isinstance(arr.base, np.ndarray) else None
        bi = self.idx(b) if b is not None else None
        i = len(self.info)
        w = bool(arr.flags.writeable)
        ui = self.env.user_info(arr)
        if ui is not None:
            orig = ui[1]
            ui[2]["entered"] = True
        elif bi is None:
            orig = w
        else:
            binfo = self.info[bi]
            orig = True if (w or (binfo["orig"] and not b.flags.writeable)) else False
        if not orig:
            w = False
        aid = self.aids.setdefault(id(arr), len(self.aids))
        self.info.append({"orig": orig, "base": bi})

        def died(_r, i=i, self=self):
            # NumPy releases `arr.base` before the weak references of `arr` are cleared, so a base that dies
            # together with its last view reports first: hold its event back until its views have reported
            self.alive.pop(i, None)
            self._flush_group_if_needed()
            self.dying.insert(0, i)
            progress = True
            while progress:
                progress = False
                for d in list(self.dying):
                    if not any(self.info[j]["base"] == d for j in self.alive):
                        self.dying.remove(d)
                        self.lines.append(f"lock die {d}")
                        self.checks.append((len(self.lines) - 1, "ok", None))
                        progress = True

        r = weakref.ref(arr, died)
        self.reg[id(arr)] = (r, i)
        self.alive[i] = r
        self.lines.append(f"lock new {aid} {'-' if bi is None else bi} {int(w)} {int(orig)}")
        self.checks.append((len(self.lines) - 1, "new", i))
        return i

    # ---- grouping of lock calls into opCreated / opExtend
    def _flush_group_if_needed(self):
        g = self.open
        if g is not None and g["pending"]:
            outs = g["pending"]
            forced = None
            if outs and outs[-1][1]:
                forced = outs[-1][0]
                outs = outs[:-1]
            if any(f for _, f in outs):
                self.problems.append("force-lock not last in its group")
            k = self.holds.index(g["key"])
            self.lines.append(f"lock ext {k} {','.join(str(o) for o, _ in outs) or '-'} {'-' if forced is None else forced}")
            self.checks.append((len(self.lines) - 1, "ok", None))
            g["pending"] = []

    def _close_inputs(self):
        g = self.open
        if g is not None and not g["sent"]:
            self.lines.append("lock opc " + (",".join(map(str, g["ins"])) or "-"))
            self.checks.append((len(self.lines) - 1, "locks", list(g["yields"])))
            self.holds.append(g["key"])
            g["sent"] = True

    def on_uniq(self, tensors):
        tensors = tuple(tensors)
        self._flush_group_if_needed()
        ins = [self.idx(t.data) for t in tensors]
        self.open = {"key": self.next_grp, "ins": ins, "yields": [], "await": None, "pending": [], "sent": False,
                     "inputs_done": False}
        self.next_grp += 1
        return tensors

    def on_yield(self, arr):
        g = self.open
        i = self.idx(arr)
        if g is None or g["inputs_done"]:
            self.problems.append("unique_arrs_and_bases yields outside an input group")
            return
        g["yields"].append(i)
        g["await"] = i

    def on_uniq_done(self):
        g = self.open
        if g is not None:
            g["inputs_done"] = True
            self._close_inputs()

    def on_lock(self, arr, force):
        i = self.idx(arr)
        g = self.open
        if g is None:
            self.problems.append("lock_arr_writeability outside any op group")
            return
        if not g["inputs_done"]:
            if g["await"] == i and not force:
                g["await"] = None  # the lock of a yielded input: performed by the model's opCreated
            else:
                self.problems.append("lock call does not follow the unique_arrs_and_bases order")
            return
        g["pending"].append((i, bool(force)))

    def on_register(self, refs):
        self._flush_group_if_needed()
        g = self.open
        if g is None:
            self.problems.append("finalize registered outside any op group")
            return
        self._close_inputs()
        self.refs2grp[id(refs)] = (g["key"], refs)
        self.open = None

    def on_release_op(self, refs):
        self._flush_group_if_needed()
        e = self.refs2grp.pop(id(refs), None)
        if e is not None and e[1] is refs:
            key = e[0]
        elif self.open is not None:
            self._close_inputs()
            key = self.open["key"]  # the failure path of Tensor._op: refs never registered
            self.open = None
        else:
            self.problems.append("release_writeability_lock_on_op on unknown refs")
            return
        if key not in self.holds:
            self.problems.append("release of a hold that was never created")
            return
        k = self.holds.index(key)
        self.holds.pop(k)
        self.lines.append(f"lock fin {k}")
        self.releasing = []
        self.checks.append((len(self.lines) - 1, "rel", self.releasing))

    # ---- installation
    def install(self):
        spy = self
        self._orig = {
            "lock": _mem.lock_arr_writeability, "rel": _mem._release_lock_on_arr_writeability,
            "relop": _mem.release_writeability_lock_on_op, "uniq": _mem.unique_arrs_and_bases,
            "fin_mem": _mem.finalize, "fin_tb": _tb.finalize,
        }
        o = self._orig

        def lock_arr_writeability(arr, force_lock=False):
            spy.on_lock(arr, force_lock)
            return o["lock"](arr, force_lock)

        def release_writeability_lock_on_op(arr_refs):
            spy.on_release_op(arr_refs)
            try:
                return o["relop"](arr_refs)
            finally:
                spy.releasing = None

        def _release_lock_on_arr_writeability(arr):
            if spy.releasing is not None:
                spy.releasing.append(spy.idx(arr))
            else:
                spy.problems.append("_release_lock_on_arr_writeability outside release_writeability_lock_on_op")
            return o["rel"](arr)

        def unique_arrs_and_bases(tensors):
            tensors = spy.on_uniq(tensors)

            def gen():
                try:
                    for a in o["uniq"](tensors):
                        spy.on_yield(a)
                        yield a
                finally:
                    spy.on_uniq_done()

            return gen()

        def make_finalize(real):
            def finalize(obj, func, *args, **kw):
                if getattr(func, "__name__", "") == "release_writeability_lock_on_op" and args:
                    spy.on_register(args[0])
                return real(obj, func, *args, **kw)

            return finalize

        _mem.lock_arr_writeability = lock_arr_writeability
        _mem.release_writeability_lock_on_op = release_writeability_lock_on_op
        _mem._release_lock_on_arr_writeability = _release_lock_on_arr_writeability
        _mem.unique_arrs_and_bases = unique_arrs_and_bases
        _mem.finalize = make_finalize(o["fin_mem"])
        _tb.finalize = make_finalize(o["fin_tb"])
        self.installed = True

    def uninstall(self):
        if not self.installed:
            return
        o = self._orig
        _mem.lock_arr_writeability = o["lock"]
        _mem._release_lock_on_arr_writeability = o["rel"]
        _mem.release_writeability_lock_on_op = o["relop"]
        _mem.unique_arrs_and_bases = o["uniq"]
        _mem.finalize = o["fin_mem"]
        _tb.finalize = o["fin_tb"]
        self.installed = False

    def flags_line(self):
        items = []
        for i in sorted(self.alive):
            a = self.alive[i]()
            if a is not None:
                items.append(f"{i}:{int(a.flags.writeable)}")
        return "w=" + (",".join(items) or "-")


# =============================================================================================== direct oracle


class _IdMap:
    """weak map keyed by object identity (Tensors are unhashable)"""

    def __init__(self):
        self.d = {}

    def get(self, k, default=None):
        e = self.d.get(id(k))
        if e is not None and e[0]() is k:
            return e[1]
        return default

    def __setitem__(self, k, v):
        self.d[id(k)] = (weakref.ref(k), v)


class Oracle:
    """the property's own predicate on the implementation; uses only public attributes (creator, variables, data,
    flags) and what the user did — neither the model nor the spy"""

    def __init__(self, env: Env, pin=False):
        self.env = env
        self.pin = [] if pin else None  # no-address-re-use mode: arrays that entered an op are never freed
        self.ops = _IdMap()  # Operation -> dict(born=stmt index, guarded=bool)
        self.cleared = _IdMap()  # Tensor -> stmt index of the last clear
        self.any_cleared = False
        self.known = {}  # id(arr) -> (weakref, orig, descriptor)   arrays that entered an op
        self.fails = []  # (class, descriptor, detail)
        self.seen_fail = set()
        self.dead_ids = set()
        self.idreuse = False
        self.cyclic_garbage = 0

    def _desc_user(self, m):
        return m

    def _learn(self, arr, role):
        e = self.known.get(id(arr))
        if e is not None and e[0]() is arr:
            return e
        if id(arr) in self.dead_ids:
            self.idreuse = True
        ui = self.env.user_info(arr)
        if ui is not None:
            m = ui[2]
            m["entered"] = True
            if m["kind"] == "owner":
                d = f"user-owner[{'w' if m['orig'] else ('ro-set' if m.get('setro') else 'ro')}]"
            else:
                rm = self.env.meta.get(m["root"], {})
                rd = "w" if rm.get("orig", True) else ("ro-set" if rm.get("setro") else "ro")
                d = f"user-view[{'w' if m['orig'] else 'ro'}{',stale' if m.get('stale') and m['orig'] else ''}]<owner[{rd}]"
            orig = ui[1]
        else:
            b = arr.base if isinstance(arr.base, np.ndarray) else None
            if b is None:
                orig, d = True, "internal-owner"
            else:
                be = self._learn(b, "base")
                orig, d = be[1], f"internal-view<{be[2].split('<')[0]}"
        ids = id(arr)

        def died(_r, ids=ids, self=self):
            self.dead_ids.add(ids)

        e = (weakref.ref(arr, died), orig, d)
        self.known[id(arr)] = e
        if self.pin is not None:
            self.pin.append(arr)
        return e

    def _walk(self, when, guard_on):
        """-> (must_ro: {id: (arr, role)}, referenced: set of ids) from the tensors the user holds.
        (no recursive closure: with gc disabled a self-referencing closure would keep the arrays alive)"""
        must, refd, memo = {}, set(), {}
        for name, obj in list(self.env.obj.items()):
            if isinstance(obj, mg.Tensor):
                self._visit(obj, when, guard_on, must, refd, memo)
        return must, refd

    def _visit(self, t, when, guard_on, must, refd, memo):
        """returns the time of the latest clear of t or of anything upstream of it (-1: never)"""
        key = id(t)
        if key in memo:
            return memo[key]
        memo[key] = self.cleared.get(t, -1)  # (also the value seen by a corrupted, cyclic graph)
        op = t.creator
        if t.base is not None:  # public attribute: a view tensor keeps its base tensor (and that one's graph) alive
            self._visit(t.base, when, guard_on, must, refd, memo)
        if op is None:
            memo[key] = self.cleared.get(t, -1)
            return memo[key]
        rec = self.ops.get(op)
        first = rec is None
        if first:
            rec = {"born": when, "guarded": guard_on, "arrs": []}
            self.ops[op] = rec
        last_clear = self.cleared.get(t, -1)
        arrs = []
        for v in op.variables:
            last_clear = max(last_clear, self._visit(v, when, guard_on, must, refd, memo))
            arrs.append((v.data, "input"))
            if isinstance(v.data.base, np.ndarray):
                arrs.append((v.data.base, "input-base"))
        arrs.append((t.data, "output"))
        if isinstance(t.data.base, np.ndarray):
            arrs.append((t.data.base, "output-base"))
        if first:
            # the arrays the operation was recorded with (a later in-place update may re-point `op.variables`;
            # after a partial clear MyGrad can even re-point them to the *mutated* tensor — C09's business)
            rec["arrs"] = [(weakref.ref(a), role) for a, role in arrs]
        tainted = last_clear >= rec["born"]
        for a, role in arrs:
            refd.add(id(a))
        for r, role in rec["arrs"]:
            a = r()
            if a is None:
                continue
            refd.add(id(a))
            if rec["guarded"]:
                self._learn(a, role)
                if not tainted:
                    must.setdefault(id(a), (a, role))
            del a
        memo[key] = last_clear
        return last_clear

    def learn_operands(self, st):
        """arrays the user hands to an operation have 'entered an op' whether or not the op succeeds"""
        refs = []
        k = st[0]
        if k == "un":
            refs = [st[3]]
        elif k == "bin":
            refs = [st[3], st[4]]
        elif k == "seq":
            refs = list(st[2])
        elif k == "fail":
            refs = [st[2]]
        if any(r[0] != "s" and f"{r[0]}{r[1]}" not in self.env.obj for r in refs):
            return  # the statement is a no-op (refers to a name that does not exist)
        for r in refs:
            if r[0] == "s":
                continue
            o = self.env.obj.get(f"{r[0]}{r[1]}")
            a = o.data if isinstance(o, mg.Tensor) else o
            if isinstance(a, np.ndarray):
                if isinstance(a.base, np.ndarray):
                    self._learn(a.base, "base")
                self._learn(a, "operand")

    def mark_cleared(self, t, when):
        self.any_cleared = True
        seen = set()
        stack = [t]
        while stack:
            x = stack.pop()
            if id(x) in seen:
                continue
            seen.add(id(x))
            self.cleared[x] = when  # clear_graph() ran on x (it empties x._ops even when x is a leaf)
            if x.creator is not None:
                stack.extend(x.creator.variables)

    def check(self, when, guard_on, st):
        must, refd = self._walk(when, guard_on)
        for ida, (a, role) in must.items():
            w = bool(a.flags.writeable)
            wrote = False
            if w:
                try:
                    np.copyto(a, a)
                    wrote = True
                except ValueError:
                    wrote = False
            if w or wrote:
                self._fail("locked-array-writeable", self.known[ida][2] + f"({role})", when, st)
        del must
        stuck = []
        for ida, (r, orig, d) in list(self.known.items()):
            a = r()
            if a is None:
                continue
            w = bool(a.flags.writeable)
            if not orig and w:
                self._fail("readonly-became-writeable", d, when, st)
                continue
            b = a.base if isinstance(a.base, np.ndarray) else None
            if ida in refd or (b is not None and id(b) in refd):
                continue
            if w != orig:
                stuck.append((r, d))
            del a, b
        if stuck:
            # ops that are unreachable but not freed (reference cycles; gc is disabled) are not "a live graph" in
            # the property's sense and are C07's business: collect them, then judge the flags
            key = tuple(sorted(d for _, d in stuck))
            if key not in self.seen_fail:
                n = gc.collect()
                still = [(r, d) for r, d in stuck if r() is not None and not r().flags.writeable]
                if len(still) < len(stuck):
                    self.cyclic_garbage += 1
                    if not self.any_cleared:
                        # ... unless nothing was ever cleared in this history: the reference cycles of the unchanged
                        # code arise from re-using tensors after backward()/clear_graph() (C09's recorded defect);
                        # without that, dropping the last reference must free the graph, and with it the locks
                        for r, d in stuck:
                            if (r, d) not in still:
                                self._fail("stuck-readonly-until-gc", d, when, st)
                for r, d in still:
                    self._fail("stuck-readonly", d, when, st)
                if not still:
                    self.seen_fail.add(key)

    def _fail(self, cls, desc, when, st):
        key = (cls, desc)
        if key in self.seen_fail:
            return
        self.seen_fail.add(key)
        self.fails.append({"class": cls, "subject": desc, "at": when, "stmt": st})


# =============================================================================================== running a history


def _reset_mygrad():
    for name in ("_array_counter", "_array_tracker", "_views_waiting_for_unlock"):
        t = getattr(_mem, name, None)
        if t is not None and hasattr(t, "clear"):
            t.clear()
    mg.turn_memory_guarding_on()
    import mygrad._utils.graph_tracking as _track

    _track.TRACK_GRAPH = True


def flatten(hist):
    for st in hist:
        if st[0] == "goff":
            yield ["goff-enter"]
            for s in st[1]:
                yield s
            yield ["goff-exit"]
        else:
            yield st


_FROZEN = False


def run_history(hist, with_spy=True, noreuse=False):
    """-> dict(lines, checks, flags (per statement), fails, outcomes, problems, idreuse)"""
    global _FROZEN
    gc.disable()
    gc.collect()
    if not _FROZEN:
        gc.freeze()  # keep later collections cheap: everything imported so far is permanent
        _FROZEN = True
    _reset_mygrad()
    env = Env()
    spy = Spy(env) if with_spy else None
    oracle = Oracle(env, pin=noreuse)
    outcomes = []
    stmt_marks = []  # (line index of the `lock flags` query, expected flags)
    guard_depth = 0
    try:
        if spy:
            spy.install()
            spy.lines.append("lock reset")
        for n, st in enumerate(flatten(hist)):
            if st[0] == "goff-enter":
                mg.mem_guard_off.__enter__()
                guard_depth += 1
                outcomes.append("-")
                continue
            if st[0] == "goff-exit":
                mg.mem_guard_off.__exit__(None, None, None)
                guard_depth -= 1
                outcomes.append("-")
                continue
            if st[0] in ("back", "clear") and st[1] in env.obj and isinstance(env.obj[st[1]], mg.Tensor):
                oracle.mark_cleared(env.obj[st[1]], n)
            if guard_depth == 0:
                oracle.learn_operands(st)
            oc = exec_stmt(env, st)
            outcomes.append(oc)
            if spy:
                spy._flush_group_if_needed()
                if spy.open is not None:
                    # an op that locked its inputs and neither registered a finalizer nor released them
                    spy._close_inputs()
                    spy.open = None
                spy.lines.append("lock flags")
                stmt_marks.append((len(spy.lines) - 1, spy.flags_line(), n))
            oracle.check(n, guard_depth == 0, st)
            env.held_exc = None
        # quiescence: drop everything the user holds, tensors first (in name order), then arrays
        for name in sorted(k for k, v in env.obj.items() if isinstance(v, mg.Tensor)):
            del env.obj[name]
        if spy:
            spy._flush_group_if_needed()
            spy.lines.append("lock flags")
            stmt_marks.append((len(spy.lines) - 1, spy.flags_line(), "end"))
        oracle.check(10 ** 6, True, ["end"])
    finally:
        while guard_depth > 0:
            mg.mem_guard_off.__exit__(None, None, None)
            guard_depth -= 1
        if spy:
            spy.uninstall()
    res = {"fails": oracle.fails, "outcomes": outcomes, "idreuse": oracle.idreuse, "cyclic": oracle.cyclic_garbage}
    if spy:
        res.update(lines=spy.lines, checks=spy.checks, marks=stmt_marks, problems=spy.problems)
    env.obj.clear()
    return res


# =============================================================================================== generator


def gen_history(rng: random.Random, maxlen: int, profile: str = "plain"):
    """profile 'plain': no explicitly read-only views of writeable owners and no owner made read-only after a view of
    it exists (the two known `H_flags` findings would otherwise drown everything); 'flags': those included."""
    hist = []
    arrs, tens = [], []  # live names
    ameta = {}
    na = nt = 0

    def new_a():
        nonlocal na
        na += 1
        return f"a{na - 1}"

    def new_t():
        nonlocal nt
        nt += 1
        return f"t{nt - 1}"

    def operand(allow_scalar=True):
        r = rng.random()
        if tens and (r < 0.55 or not arrs):
            return ("t", int(rng.choice(tens)[1:]))
        if arrs and r < 0.92:
            return ("a", int(rng.choice(arrs)[1:]))
        if allow_scalar:
            return ("s", rng.choice([2, 3]))
        if tens:
            return ("t", int(rng.choice(tens)[1:]))
        return ("a", int(rng.choice(arrs)[1:])) if arrs else ("s", 2)

    def emit(st, into):
        into.append(st)

    def one(into, depth=0):
        r = rng.random()
        if not arrs or r < 0.10:
            n = new_a()
            ro = rng.random() < 0.15
            emit(["arr", n, int(ro)], into)
            arrs.append(n)
            ameta[n] = {"owner": True, "ro": ro, "views": 0}
        elif r < 0.22:
            p = rng.choice(arrs)
            n = new_a()
            ro = profile == "flags" and rng.random() < 0.3
            emit(["view", n, p, rng.choice([0, 1, 2]), int(ro)], into)
            arrs.append(n)
            root = ameta[p].get("root", p)
            ameta[n] = {"owner": False, "root": root}
            ameta[root]["views"] = ameta[root].get("views", 0) + 1
        elif r < 0.24 and profile == "flags":
            emit(["setro", rng.choice(arrs)], into)
        elif r < 0.30:
            n = new_t()
            if rng.random() < 0.7:
                emit(["wrap", n, rng.choice(arrs), int(rng.random() < 0.3)], into)
            else:
                emit(["tens", n], into)
            tens.append(n)
        elif r < 0.52:
            n = new_t()
            k = rng.random()
            if k < 0.35:
                emit(["un", n, rng.choice(list(UN)), operand(False)], into)
            elif k < 0.85:
                emit(["bin", n, rng.choice(list(BIN)), operand(), operand()], into)
            else:
                emit(["seq", n, [operand() for _ in range(rng.randint(2, 4))]], into)
            tens.append(n)
        elif r < 0.58:
            tgt = operand(False)
            n = new_t() if tgt[0] == "a" else None
            emit(["out", n, rng.choice(list(OUTOPS)), operand(), operand(), tgt], into)
            if n:
                tens.append(n)
        elif r < 0.61 and tens:
            n = new_t()
            emit(["tview", n, rng.choice(tens), rng.choice([0, 1, 2])], into)
            tens.append(n)
        elif r < 0.64 and tens:
            emit(["set", rng.choice(tens), rng.choice([0, 1, 2]), operand()], into)
        elif r < 0.69 and tens:
            emit(["aug", rng.choice(tens), rng.choice(["add", "mul"]), operand()], into)
        elif r < 0.74:
            emit(["fail", rng.choice(["shape", "index", "matmul"]), operand(False)], into)
        elif r < 0.80 and tens:
            emit(["back", rng.choice(tens)], into)
        elif r < 0.84 and tens:
            emit(["clear", rng.choice(tens)], into)
        elif r < 0.97:
            pool = tens * 3 + arrs
            if pool:
                n = rng.choice(pool)
                emit(["del", n], into)
                (tens if n[0] == "t" else arrs).remove(n)
        elif depth == 0:
            body = []
            for _ in range(rng.randint(1, 3)):
                one(body, 1)
            emit(["goff", body], into)
        else:
            one(into, depth)

    for _ in range(rng.randint(4, maxlen)):
        one(hist)
    # reference drops in a random order at the end (the runner drops what is left in name order)
    left = list(tens)
    rng.shuffle(left)
    for n in left[: rng.randint(0, len(left))]:
        hist.append(["del", n])
    return hist


def kinds_of(hist):
    out = []
    for st in flatten(hist):
        k = st[0]
        if k == "arr":
            out.append("arr:ro" if st[2] else "arr")
        elif k == "view":
            out.append("view:ro" if st[4] else "view")
        elif k == "out":
            out.append("out:" + st[5][0])
        elif k == "fail":
            out.append("fail:" + st[1])
        else:
            out.append(k)
    return out


# the witnesses of the `_neg` theorems (MG/Proofs/C08.lean), as user-level histories
WITNESSES = {
    "D1 read-only view of a writeable owner is made writeable": [
        ["arr", "a0", 0], ["view", "a1", "a0", 0, 1], ["un", "t0", "neg", ("a", 1)], ["del", "t0"]],
    "D3 writeable view stays read-only when its owner was made read-only after the view was taken": [
        ["arr", "a0", 0], ["view", "a1", "a0", 0, 0], ["setro", "a0"], ["un", "t0", "neg", ("a", 1)], ["del", "t0"]],
    "B id re-use: a view that waits for its base dies, a new view gets its address and is never unlocked": [
        ["arr", "a0", 0], ["arr", "a1", 0], ["view", "a2", "a0", 0, 0], ["un", "t0", "neg", ("a", 0)],
        ["un", "t1", "neg", ("a", 2)], ["del", "t1"], ["del", "a2"], ["view", "a3", "a1", 0, 0],
        ["un", "t2", "neg", ("a", 1)], ["un", "t3", "neg", ("a", 3)], ["del", "t3"], ["del", "t0"], ["del", "t2"]],
    "R id re-use: an array dies while an op holds it (the documented in-place state leak), a natively read-only "
    "array born at its address is made writeable": (
        [["tens", "t0"], ["un", "t1", "vslice", ("t", 0)], ["un", "t2", "vslice", ("t", 1)], ["back", "t1"],
         ["aug", "t1", "add", ("s", 0)], ["back", "t1"], ["del", "t0"], ["del", "t1"], ["del", "t2"]]
        + [["arr", f"a{i}", 1] for i in range(64)]
        + [st for i in range(64) for st in (["un", f"t{10 + i}", "neg", ("a", i)], ["del", f"t{10 + i}"])]),
}


# =============================================================================================== model comparison


def compare_with_model(res, out_lines):
    """-> list of disagreements between the Lean model's answers and the implementation"""
    bad = []
    for ln, kind, exp in res["checks"]:
        o = out_lines[ln]
        if not o.startswith("ok"):
            bad.append({"line": res["lines"][ln], "model": o, "implementation": "event happened"})
            continue
        if kind == "locks":
            got = o.split("locks=")[1].split()[0]
            want = ",".join(map(str, exp)) or "-"
            if got != want:
                bad.append({"line": res["lines"][ln], "model": "yields " + got, "implementation": "yields " + want})
        if kind == "rel":
            got = o.split("rel=")[1].split()[0]
            want = ",".join(map(str, exp)) or "-"
            if got != want:
                bad.append({"line": res["lines"][ln], "model": "releases " + got, "implementation": "releases " + want})
    for ln, flags, n in res["marks"]:
        if out_lines[ln] != flags:
            bad.append({"line": f"flags after statement {n}", "model": out_lines[ln], "implementation": flags})
            break
    return bad


def hyp_stats(res, out_lines):
    st = {"fresh": 0, "flags": 0, "outs": 0, "force": 0}
    for o in out_lines:
        if o.startswith("ok") and " H=" in o:
            h = o.split(" H=")[1][:4]
            for k, c in zip(("fresh", "flags", "outs", "force"), h):
                if c == "0":
                    st[k] += 1
    return st


# =============================================================================================== shrinking


def fails_of(hist, noreuse=False):
    return run_history(hist, with_spy=False, noreuse=noreuse)


_NOREUSE = [False]


def _has(hist, cls, subject):
    r = fails_of(hist, _NOREUSE[0])
    return any(f["class"] == cls and f["subject"] == subject for f in r["fails"])


def _ddmin(cur, cls, subject, used, budget):
    n = 2
    while len(cur) >= 2 and used[0] < budget:
        chunk = max(1, len(cur) // n)
        reduced = False
        for i in range(0, len(cur), chunk):
            cand = cur[:i] + cur[i + chunk:]
            used[0] += 1
            if cand and _has(cand, cls, subject):
                cur = cand
                n = max(n - 1, 2)
                reduced = True
                break
        if not reduced:
            if chunk == 1:
                break
            n = min(n * 2, len(cur))
    return cur


def shrink(hist, cls, subject, budget=500):
    """delta debugging on statements, preserving the failure class and the subject descriptor; then each statement is
    replaced by the simplest equivalent of its kind that still fails (failed op -> op + del, out=array -> plain op,
    in-place update -> plain op, backward/clear -> del, any op -> negative/add), and ddmin runs again"""
    used = [0]
    cur = _ddmin(list(hist), cls, subject, used, budget)
    for _round in range(2):
        # mem_guard_off sections: unwrap or drop
        i = 0
        while i < len(cur) and used[0] < budget:
            st = cur[i]
            if st[0] == "goff":
                for body in (list(st[1]), []):
                    cand = cur[:i] + body + cur[i + 1:]
                    used[0] += 1
                    if cand and _has(cand, cls, subject):
                        cur = cand
                        i -= 1
                        break
            i += 1
        i = 0
        while i < len(cur) and used[0] < budget:
            for repl in _simpler(cur[i], 900 + i):
                cand = cur[:i] + repl + cur[i + 1:]
                used[0] += 1
                if _has(cand, cls, subject):
                    cur = cand
                    break
            i += 1
        cur = _ddmin(cur, cls, subject, used, budget)
    return cur


def _simpler(st, fresh):
    k = st[0]
    tz = f"t{fresh}"
    if k == "fail":
        yield [["un", tz, "neg", st[2]], ["del", tz]]
        if st[1] != "shape":
            yield [["fail", "shape", st[2]]]
    if k == "out" and st[5][0] == "a":
        yield [["un", st[1] or tz, "neg", st[3]]]
        yield [["un", st[1] or tz, "neg", st[4]]]
        yield [["bin", st[1] or tz, "add", st[3], st[4]]]
    if k in ("aug", "set"):
        yield [["un", tz, "neg", st[3]]]
        yield [["bin", tz, "add", ("t", int(st[1][1:])), st[3]]]
    if k == "out" and st[5][0] == "t":
        yield [["bin", tz, "add", st[3], st[4]]]
        if st[2] != "add":
            yield [["out", st[1], "add", st[3], st[4], st[5]]]
    if k in ("back", "clear"):
        yield [["del", st[1]]]
    if k == "un" and st[2] != "neg":
        yield [["un", st[1], "neg", st[3]]]
    if k == "bin":
        yield [["un", st[1], "neg", st[3]]]
        yield [["un", st[1], "neg", st[4]]]
        if st[2] != "add":
            yield [["bin", st[1], "add", st[3], st[4]]]
    if k == "seq":
        for x in st[2]:
            yield [["un", st[1], "neg", x]]
        yield [["bin", st[1], "add", st[2][0], st[2][1]]]
    if k == "view" and st[3] != 0:
        yield [["view", st[1], st[2], 0, st[4]]]
    if k == "wrap" and st[3]:
        yield [["wrap", st[1], st[2], 0]]
    if k == "aug" and st[2] != "add":
        yield [["aug", st[1], "add", st[3]]]
    if k == "set" and st[2] != 0:
        yield [["set", st[1], 0, st[3]]]


FEATURE_KINDS = ("set", "aug", "out:t", "out:a", "goff", "setro", "fail:shape", "fail:index", "fail:matmul", "back", "clear")


def signature(cls, subject, hist, idreuse):
    if idreuse:  # the whole family "a lingering table entry meets a re-used address" is one signature per symptom
        return f"C08|{cls}|id-reuse"
    ks = set(kinds_of(hist))
    feats = []
    if ks & {"set", "aug", "out:t"}:
        feats.append("inplace")
    if "out:a" in ks:
        feats.append("out-array")
    if "goff" in ks:
        feats.append("guard-off")
    if any(k.startswith("fail:") for k in ks):
        feats.append("failed-op")
    if idreuse:
        feats.append("id-reuse")
    return f"C08|{cls}|{subject}|{'+'.join(feats) or '-'}"


def minimise_violation(hist, f):
    cls, subject = f["class"], f["subject"]
    try:
        _NOREUSE[0] = False
        small = shrink(hist, cls, subject)
        if not _has(small, cls, subject):  # flaky (address re-use): keep the original
            small = hist
        # does the failure need an address to be re-used?  (re-run with every array that entered an op pinned)
        _NOREUSE[0] = True
        needs_reuse = not _has(small, cls, subject)
        if not needs_reuse:
            small = shrink(small, cls, subject)  # canonical form without incidental re-use
        _NOREUSE[0] = not needs_reuse
        r = fails_of(small, _NOREUSE[0])
        ff = [x for x in r["fails"] if x["class"] == cls and x["subject"] == subject] or [f]
    finally:
        _NOREUSE[0] = False
    sig = signature(cls, subject, small, needs_reuse)
    what = (f"{cls}: array {subject} after statement {ff[0]['at']} {ff[0]['stmt']} "
            f"in a history of {len(small)} statements ({', '.join(kinds_of(small))})")
    return Violation(sig, what, {"kind": "history", "history": small, "class": cls, "subject": subject,
                                 "needs_address_reuse": needs_reuse, "expected": EXPECT[cls], "observed": ff[0]})


PINNED_HISTORIES = {
    "out-view-of-array-held-by-another-graph|del": [["arr", "a0", 0], ["view", "a1", "a0", 0, 0], ["arr", "a2", 0], ["un", "t0", "neg", ("a", 0)],
                                                     ["out", "t1", "add", ("a", 2), ("a", 2), ("a", 1)], ["del", "t0"]],
    "out-view-of-array-held-by-another-graph|back": [["arr", "a0", 0], ["view", "a1", "a0", 0, 0], ["arr", "a2", 0], ["un", "t0", "neg", ("a", 0)],
                                                      ["out", "t1", "add", ("a", 2), ("a", 2), ("a", 1)], ["back", "t0"]],
    "out-view-sibling-view-held-by-another-graph|clear": [["arr", "a0", 0], ["view", "a1", "a0", 0, 0], ["view", "a3", "a0", 1, 0], ["arr", "a2", 0],
                                                           ["un", "t0", "neg", ("a", 3)], ["out", "t1", "mul", ("a", 2), ("s", 2), ("a", 1)], ["clear", "t0"]],
    "out-view-own-operand|back": [["arr", "a0", 0], ["view", "a1", "a0", 0, 0], ["arr", "a2", 0], ["out", "t1", "mul", ("a", 2), ("a", 0), ("a", 1)], ["back", "t1"]],
}


EXPECT = {
    "locked-array-writeable": "every input/output/base/out= target of an op in a live, uncleared graph is read-only",
    "stuck-readonly": "an array no live op refers to has its original (writeable) flag back",
    "stuck-readonly-until-gc": "in a history without backward()/clear_graph(), dropping the last reference to the results frees "
                               "the graph by reference counting and gives the arrays their original flag back (no cyclic-GC pass needed)",
    "readonly-became-writeable": "an array that was read-only before it entered an op is never made writeable",
}


# =============================================================================================== worker / run


def work(args):
    seed, tier, lo, hi, maxlen = args
    out = {"n": 0, "traces": 0, "viol": [], "corr": [], "nontrivial": [], "kinds": {}, "outcomes": {}, "hyp": {},
           "samples": [], "fail_groups": {}, "problems": {}}
    batch = []
    for k in range(lo, hi):
        rng = random.Random(f"c08:{seed}:{k}")
        profile = "flags" if rng.random() < 0.04 else "plain"
        hist = gen_history(rng, maxlen, profile)
        res = run_history(hist)
        batch.append((k, hist, res))
    # one driver process per chunk
    lines = []
    offs = []
    for k, hist, res in batch:
        offs.append(len(lines))
        lines += res["lines"]
    obs = run_driver(lines) if lines else []
    for (k, hist, res), off in zip(batch, offs):
        ol = obs[off: off + len(res["lines"])]
        out["n"] += 1
        out["traces"] += 1
        ks = kinds_of(hist)
        for x in ks:
            out["kinds"][x] = out["kinds"].get(x, 0) + 1
        for oc in res["outcomes"]:
            out["outcomes"][oc] = out["outcomes"].get(oc, 0) + 1
        for kk, v in hyp_stats(res, ol).items():
            out["hyp"][kk] = out["hyp"].get(kk, 0) + (1 if v else 0)
        n_events = sum(1 for l in res["lines"] if l.startswith(("lock opc", "lock fin")))
        if n_events >= 4 and any(x.startswith("view") for x in ks):
            out["nontrivial"].append(stable_hash(hist))
        if len(out["samples"]) < 2 and n_events >= 6:
            out["samples"].append({"history": hist, "model_events": res["lines"][:40], "flags_after_last": res["marks"][-1][1]})
        bad = compare_with_model(res, ol)
        if res["cyclic"]:
            out["cyclic"] = out.get("cyclic", 0) + 1
            if "cyclic_sample" not in out:
                out["cyclic_sample"] = hist
        for p in res["problems"]:
            out["problems"][p] = out["problems"].get(p, 0) + 1
        if bad or res["problems"]:
            out["corr"].append({"history": hist, "disagreements": bad[:3], "unmodelled": res["problems"][:3], "k": k})
        groups = {}
        for f in res["fails"]:
            groups.setdefault((f["class"], f["subject"]), f)
        for key, f in groups.items():
            g = out["fail_groups"].setdefault("|".join(key), 0)
            out["fail_groups"]["|".join(key)] = g + 1
            if g < 3:
                out["viol"].append(minimise_violation(hist, f))
            else:
                out["viol"].append(None)  # counted, same group already minimised thrice in this chunk
    out["viol"] = [v for v in out["viol"] if v is not None]
    return out


def run(ctx: Ctx) -> Outcome:
    out = Outcome()
    out.rule = ("histories of <= %d statements over user arrays (owning / natively read-only / views / views of views / "
                "views taken while the owner is locked), tensors wrapping them (copy=False), ops on tensors/arrays/mixed, "
                "out= (Tensor and ndarray), setitem / augmented updates, failing ops, backward, clear_graph, del in any "
                "order, overlapping graphs, mem_guard_off sections; gc disabled. non-trivial = at least 4 op-created/"
                "op-finalized events and a view; distinct by canonical history." % ctx.n(22, 36))
    total = ctx.n(1400, 32000)
    maxlen = ctx.n(22, 36)
    per = ctx.n(50, 400)
    jobs = [(ctx.seed, ctx.tier, lo, min(lo + per, total), maxlen) for lo in range(0, total, per)]
    results = pmap(work, jobs)
    fail_groups = {}
    for r in results:
        out.evaluations += r["n"]
        out.traces_validated += r["traces"]
        out.nontrivial |= set(r["nontrivial"])
        out.violations += r["viol"]
        for c in r["corr"]:
            out.corr_breaks.append(CorrBreak("Lock model vs lock_management (events replayed, flags predicted)", c))
        for name in ("kinds", "outcomes", "hyp", "problems"):
            d = out.stats.setdefault(name, {})
            for k, v in r[name].items():
                d[k] = d.get(k, 0) + v
        for k, v in r["fail_groups"].items():
            fail_groups[k] = fail_groups.get(k, 0) + v
        out.stats["histories_with_cyclic_garbage_holding_locks"] = out.stats.get("histories_with_cyclic_garbage_holding_locks", 0) + r.get("cyclic", 0)
        if "cyclic_sample" in r and "cyclic_garbage_sample" not in out.extra:
            out.extra["cyclic_garbage_sample"] = r["cyclic_sample"]
        for s in r["samples"]:
            if len(out.samples) < 3:
                out.samples.append(s)
    out.stats["oracle_failure_groups"] = fail_groups
    out.stats["histories_violating_hypothesis"] = out.stats.pop("hyp", {})

    # the witnesses of the `_neg` theorems, replayed on the implementation (each is a known finding or a violation)
    wit = {}
    for name, hist in WITNESSES.items():
        r = run_history(hist)
        wit[name] = [f"{f['class']}|{f['subject']}" for f in r["fails"]]
        groups = {}
        for f in r["fails"]:
            groups.setdefault((f["class"], f["subject"]), f)
        for f in groups.values():
            out.violations.append(minimise_violation(hist, f))
        ol = run_driver(r["lines"])
        bad = compare_with_model(r, ol)
        if bad:
            out.corr_breaks.append(CorrBreak("Lock model vs implementation on a _neg witness", {"witness": name, "disagreements": bad[:3]}))
        out.evaluations += 1
    out.extra["neg_witnesses_on_implementation"] = wit
    # histories run under every seed: an out= target that is a view of an array another live graph holds, that graph
    # released first (the out= operation must hold its own lock on the base)
    for name, hist in PINNED_HISTORIES.items():
        r = run_history(hist)
        groups = {}
        for f in r["fails"]:
            groups.setdefault((f["class"], f["subject"]), f)
        for f in groups.values():
            out.violations.append(minimise_violation(hist, f))
        bad = compare_with_model(r, run_driver(r["lines"]))
        if bad:
            out.corr_breaks.append(CorrBreak("Lock model vs implementation on a pinned history", {"history": name, "disagreements": bad[:3]}))
        out.evaluations += 1

    # a corr break: evaluate the predicate on the disagreeing histories again (already done above by the oracle:
    # every history is checked by both).  Lean breakage: targeted search = the same oracle over more histories.
    if ctx.lean_broken:
        extra = pmap(work, [(ctx.seed + 1000, ctx.tier, lo, lo + 50, maxlen) for lo in range(0, 500, 50)])
        for r in extra:
            out.evaluations += r["n"]
            out.violations += r["viol"]
    out.assumptions = [
        "CPython refcount / weakref.finalize timing is replayed (spy-recorded event order), not predicted by the model",
        "H_fresh (no address re-use while a table entry lingers), H_flags (a view's original flag is its owner's), "
        "H_outs, H_force are hypotheses of the _partial theorems; the driver evaluates them on every recorded event "
        "(stats.histories_violating_hypothesis) and the direct oracle covers the histories that violate them",
        "leaked table entries for dead arrays (documented xfail in the repo) are not a violation: only flags are judged",
    ]
    return out


def replay(data) -> bool:
    r = data.get("replay") or {}
    if r.get("kind") != "history":
        print("C08 replay: nothing to execute (kind=%s)" % data.get("kind"))
        print(json.dumps(data.get("broken_obligations") or data.get("broken_correspondence"), indent=1)[:3000])
        return False
    hist = [_norm(st) for st in r["history"]]
    print("history:")
    for st in hist:
        print("   ", st)
    res = run_history(hist, with_spy=False, noreuse=not r.get("needs_address_reuse", True))
    print("expected:", r.get("expected"))
    hit = [f for f in res["fails"] if f["class"] == r["class"] and f["subject"] == r["subject"]]
    print("observed:", hit or res["fails"] or "no failure")
    return bool(hit)


def _norm(st):
    """JSON turns tuples into lists; statements only use lists, so nothing to do except nested bodies"""
    if st[0] == "goff":
        return ["goff", [_norm(s) for s in st[1]]]
    return [tuple(x) if isinstance(x, list) and len(x) == 2 and x[0] in ("t", "a", "s") else
            ([tuple(y) for y in x] if isinstance(x, list) else x) for x in st]


MANIFEST = {
    "category": "proof",
    "design_ref": "DESIGN.md §5 C08",
    "technique": "Lean 4 invariant proof by induction over all histories of lock events (model M5 over an M2 heap, "
                 "ghost multiset of live holds) + spy-recorded event replay against lock_management + direct flag oracle",
    "text": "guard_inv_partial (counter = number of live op-holds, held => read-only), restore_at_quiescence_partial "
            "(no live hold on an array and its base => original flag) and never_unlocks_native_readonly_partial are "
            "proved for every history of newArr/opCreated/opExtend/opFinalized/arrayDied events (any length, any order, "
            "arrays dying while held, addresses re-used) under the named hypotheses H_fresh (no address re-use while a "
            "table entry lingers), H_flags (a view's original flag is its owner's), H_outs, H_force. The full statements "
            "are FALSE of the code as written: guard_inv_neg, restore_at_quiescence_neg (+ restore_needs_fresh_neg, "
            "restore_needs_flags_neg) and never_unlocks_native_readonly_neg (+ never_unlocks_needs_flags_neg, "
            "never_unlocks_needs_fresh_neg) prove that from concrete witnesses, and four user-level witnesses are replayed "
            "on the implementation on every run (4 open known findings). The model is tied to lock_management.py by "
            "replaying the recorded events (order of unique_arrs_and_bases yields, of releases, and every alive array's "
            "flag after every statement are predicted); the property itself is evaluated directly on the implementation "
            "from the op graph reachable from the tensors the user holds (flag and attempted write).",
    "note": "The model cannot exhibit CPython's refcount/finalizer timing: the order of lock/release/death events is "
            "recorded by the spy and replayed, not predicted; hypotheses are evaluated by the driver on every recorded "
            "event and histories outside them are covered by the direct oracle only. Locks kept alive by cyclic garbage "
            "(gc disabled) are collected before judging restoration and counted (C07/C09 territory). Trusted: Lean "
            "kernel, the spy/translator in c08.py, NumPy's flag semantics (view inheritance, refusal to make a view of "
            "a read-only base writeable).",
}

MANIFEST_ADDENDUM = 'Oracle addition: flags are observed while the exception of a failing statement is still referenced, and again after it is dropped. Round 5: tensors that are views of other tensors in the histories (in-place updates through them); in a history without backward()/clear_graph() a lock that survives until a cyclic-GC pass is a violation. Round 7: pinned histories in which the out= target is a view of an array that another live graph holds (released first) or of one of the operation`s own operands.'
