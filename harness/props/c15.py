"""C15 — no_autodiff / mem-guard switches are scoped, exception-safe, value-preserving."""
from __future__ import annotations

import numpy as np

import mygrad as mg
import mygrad._utils.graph_tracking as _track
import mygrad._utils.lock_management as _mem

from ..core import CorrBreak, Ctx, Outcome, Violation, pmap, stable_hash
from ..leanbuild import run_driver

ID = "C15"
LEVEL = "proof"
EXTRA_TARGETS = ["MG.DriverCtx"]
THEOREMS = {
    "MG.Proofs.C15": [
        "MG.C15.exit_restores_entry",
        "MG.C15.scope_restores_own_switch",
        "MG.C15.wf_reachable",
        "MG.C15.turn_sets_default",
        "MG.C15.exit_enter",
    ]
}

MGRS = {"na": mg.no_autodiff, "gon": mg.mem_guard_on, "goff": mg.mem_guard_off}
OWN = {"na": 0, "gon": 1, "goff": 1}  # index into globals() of the switch a manager controls


class Boom(Exception):
    pass


def globals_():
    return (bool(_track.TRACK_GRAPH), bool(_mem.MEM_GUARD))


def reset_switches():
    _track.TRACK_GRAPH = True
    mg.turn_memory_guarding_on()


# ---------------------------------------------------------------- words


def gen_block(rng, depth, allow_turn, allow_raise=True):
    n = rng.choice([0, 1, 1, 2, 2, 3]) if depth > 0 else rng.choice([0, 1])
    items = []
    for _ in range(n):
        r = rng.random()
        if depth > 0 and r < 0.6:
            items.append(["S", rng.choice(["na", "gon", "goff"]), rng.choice(["with", "deco"]),
                          gen_block(rng, depth - 1, allow_turn, allow_raise)])
        elif r < 0.7 and allow_turn:
            items.append(["T", rng.choice([0, 1])])
        elif r < 0.82 and allow_raise:
            items.append(["R"])
        else:
            items.append(["N"])
    return items


def enum_words(max_blocks):
    """every well-nested word with <= max_blocks scopes over the 3 managers (scope structure only),
    and for each, every position of one raise"""
    from functools import lru_cache

    @lru_cache(None)
    def forests(n):  # forests with exactly n scope nodes: tuples of (mgr, children-forest)
        if n == 0:
            return ((),)
        out = []
        for k in range(1, n + 1):  # size of first tree
            for sub in forests(k - 1):
                for rest in forests(n - k):
                    for m in ("na", "gon", "goff"):
                        out.append(((m, sub),) + rest)
        return tuple(out)

    def to_items(f):
        return [["S", m, "with", to_items(sub)] for m, sub in f]

    def raise_positions(items):
        # yield copies with a single R inserted at each possible position (incl. none)
        yield items
        for i in range(len(items) + 1):
            yield items[:i] + [["R"]] + items[i:]
        for i, it in enumerate(items):
            if it[0] == "S":
                for body in raise_positions(it[3]):
                    if body is not it[3] and body != it[3]:
                        yield items[:i] + [["S", it[1], it[2], body]] + items[i + 1:]

    for n in range(1, max_blocks + 1):
        for f in forests(n):
            for w in raise_positions(to_items(f)):
                yield w


def encode(items):
    toks = []
    for it in items:
        if it[0] == "S":
            toks += ["S", it[1], "("] + encode(it[3]) + [")"]
        elif it[0] == "T":
            toks.append(f"T{it[1]}")
        else:
            toks.append(it[0])
    return toks


def turn_free(items):
    return all((it[0] != "T") and (it[0] != "S" or turn_free(it[3])) for it in items)


def n_scopes(items):
    return sum(1 + n_scopes(it[3]) for it in items if it[0] == "S")


def exec_block(items, ev, fails):
    """run on the real managers; ev collects (event, observed globals); fails collects oracle failures"""
    for it in items:
        k = it[0]
        if k == "N":
            continue
        if k == "R":
            raise Boom()
        if k == "T":
            (mg.turn_memory_guarding_on if it[1] else mg.turn_memory_guarding_off)()
            ev.append((f"turn {it[1]}", globals_()))
            continue
        _, m, form, body = it
        before = globals_()
        try:
            if form == "with":
                with MGRS[m]:
                    ev.append((f"enter {m}", globals_()))
                    exec_block(body, ev, fails)
            else:
                @MGRS[m]
                def f():
                    ev.append((f"enter {m}", globals_()))
                    exec_block(body, ev, fails)

                f()
        finally:
            after = globals_()
            ev.append((f"exit {m}", after))
            # ---- the property itself, on the implementation ----
            if after[OWN[m]] != before[OWN[m]]:
                fails.append(("own-switch-not-restored", m, before, after))
            elif turn_free(body) and after != before:
                fails.append(("settings-not-restored", m, before, after))


def run_word(word):
    reset_switches()
    ev, fails = [], []
    exc = 0
    try:
        exec_block(word, ev, fails)
    except Boom:
        exc = 1
    except Exception as e:  # KeyError etc. from the managers themselves
        fails.append(("manager-raised", type(e).__name__, None, None))
        exc = 2
    final = globals_()
    # a probe after the word: each manager must still work (bookkeeping did not leak)
    for m, mgr in MGRS.items():
        b = globals_()
        try:
            with mgr:
                inside = globals_()
            if inside[OWN[m]] != {"na": False, "gon": True, "goff": False}[m]:
                fails.append(("probe-enter-value", m, b, inside))
            if globals_() != b:
                fails.append(("probe-not-restored", m, b, globals_()))
        except Exception as e:
            fails.append(("probe-raised", m, type(e).__name__, None))
    reset_switches()
    return ev, exc, final, fails


def check_words(words):
    """runs in a worker: returns per word the impl trace + oracle failures"""
    return [run_word(w) for w in words]


# ---------------------------------------------------------------- untracked ops


def _mk(rng, shape):
    return np.array([rng.randint(-4, 4) for _ in range(int(np.prod(shape)))], dtype=float).reshape(shape)


OPS = [
    ("add", lambda x, y: x + y), ("mul", lambda x, y: mg.multiply(x, y)), ("sub_np", lambda x, y: np.subtract(x, y)),
    ("getitem", lambda x, y: x[1:]), ("reshape", lambda x, y: x.reshape(-1)), ("T", lambda x, y: x.T),
    ("sum", lambda x, y: x.sum(axis=0)), ("exp", lambda x, y: mg.exp(x)), ("matmul", lambda x, y: x @ y.T),
    ("where", lambda x, y: mg.where(x > 0, x, y)), ("stack", lambda x, y: mg.stack([x, y])),
    ("f32", lambda x, y: x.astype(np.float32) * 2), ("int", lambda x, y: mg.tensor([1, 2, 3]) + 1),
    ("maxr", lambda x, y: mg.max(x, axis=1)), ("einsum", lambda x, y: mg.einsum("ij,ij->i", x, y)),
    ("sqrt_abs", lambda x, y: mg.sqrt(mg.abs(x) + 1)), ("expand", lambda x, y: mg.expand_dims(x, 0)),
    # operands of different floating dtypes: the result takes NumPy's promoted dtype, tracked or not
    ("mixed_add", lambda x, y: x.astype(np.float32) + y), ("mixed_mul_f16", lambda x, y: mg.multiply(x.astype(np.float16), y.astype(np.float32))),
    ("batchnorm", lambda x, y: _bn(x, gamma=y[0], beta=y[1])),
    ("batchnorm_f32_x", lambda x, y: _bn(x.astype(np.float32), gamma=y[0], beta=y[1])),
    ("batchnorm_f16_x_f32_gamma", lambda x, y: _bn(x.astype(np.float16), gamma=y[0].astype(np.float32))),
    ("batchnorm_f32_x_list_beta", lambda x, y: _bn(x.astype(np.float32), beta=[0.5] * x.shape[1])),
    ("softmax_f32", lambda x, y: _sm(x.astype(np.float32))),
]


def _bn(x, **kw):
    from mygrad.nnet.layers import batchnorm

    return batchnorm(x, eps=1e-3, **kw)


def _sm(x):
    from mygrad.nnet.activations import softmax

    return softmax(x)
INPLACE = [
    ("setitem", lambda x, y: x.__setitem__((slice(0, 1),), y[0:1])), ("iadd", lambda x, y: x.__iadd__(y)),
    ("imul_scalar", lambda x, y: x.__imul__(2.0)), ("out=", lambda x, y: mg.add(x, y, out=x)),
    ("setitem_mask", lambda x, y: x.__setitem__(x.data > 0, 7.0)),
    ("out_where", lambda x, y: mg.multiply(x, y, out=x, where=y.data > 0)),
    ("shape=", lambda x, y: setattr(x, "shape", (x.size,))),
]


def untracked_case(args):
    seed, k = args
    import random

    rng = random.Random(f"c15u:{seed}:{k}")
    reset_switches()
    fails = []
    shape = (rng.randint(2, 3), rng.randint(2, 3))
    xa, ya = _mk(rng, shape), _mk(rng, shape)
    name, op = rng.choice(OPS)
    wrap = rng.choice(["with", "deco"])
    # tracked reference value
    xt, yt = mg.tensor(xa), mg.tensor(ya)
    ref = op(xt, yt)
    ref_data, ref_dtype = np.array(ref.data if isinstance(ref, mg.Tensor) else ref), np.asarray(ref).dtype
    # give x a gradient and an existing graph
    x, y = mg.tensor(xa), mg.tensor(ya)
    L = (x * 3.0).sum()
    L.backward()
    g_before = x.grad
    w = x * 2.0  # a live tracked graph on x (nulls x.grad — so re-seed via a fresh leaf for the grad test)
    z = mg.tensor(xa)
    (z * z).sum().backward()
    zg = z.grad.copy()
    zg_obj = z.grad
    n_ops_before = len(getattr(x, "_ops", ()))
    n_ops_z = len(getattr(z, "_ops", ()))

    # a view whose gradient exists only implicitly (its base holds one; the view's own has not been derived yet):
    # reading it replays the view op on the base's gradient — inside a scope that must not disturb the scope's settings
    vb = mg.tensor(xa)
    vv = vb[0]
    (vb * 2.0).sum().backward()
    probe = rng.choice(["view-grad", "view-grad", "base", "repr", "none"])
    inside = {}

    def body():
        inside["before"] = globals_()
        if probe == "view-grad":
            inside["value"] = vv.grad
        elif probe == "base":
            inside["value"] = vv.base
        elif probe == "repr":
            inside["value"] = repr(vv)
        inside["after"] = globals_()
        return op(x, y), op(z, y)

    if wrap == "with":
        with mg.no_autodiff:
            r, rz = body()
    else:
        r, rz = mg.no_autodiff(body)()
    if globals_() != (True, True):
        fails.append(f"switches not restored after untracked op {name}")
    if inside.get("before") != inside.get("after"):
        fails.append(f"untracked: reading {probe} of an existing view inside no_autodiff changed the switches from "
                     f"{inside.get('before')} to {inside.get('after')}")
    if probe == "view-grad" and (inside.get("value") is None or not np.array_equal(inside["value"], np.full(xa.shape[1:], 2.0))):
        fails.append("untracked: the gradient of a view read inside no_autodiff is wrong")
    rd = r.data if isinstance(r, mg.Tensor) else np.asarray(r)
    if not isinstance(r, mg.Tensor):
        fails.append(f"untracked {name} returned {type(r).__name__}")
    else:
        if r.creator is not None:
            fails.append(f"untracked {name}: result has a creator")
        if r.base is not None:
            fails.append(f"untracked {name}: result has a base")
        if rd.dtype != ref_dtype or rd.shape != ref_data.shape or not np.array_equal(rd, ref_data, equal_nan=True):
            fails.append(f"untracked {name}: value/dtype differs from tracked evaluation")
        if not rd.flags.writeable and rd.base is None:
            fails.append(f"untracked {name}: result array locked")
    if len(getattr(x, "_ops", ())) != n_ops_before or len(getattr(z, "_ops", ())) != n_ops_z:
        fails.append(f"untracked {name}: input recorded a consumer")
    if z.grad is None or z.grad is not zg_obj or not np.array_equal(z.grad, zg):
        fails.append(f"untracked {name}: input lost its gradient")
    if not y.data.flags.writeable or not z.data.flags.writeable:
        fails.append(f"untracked {name}: an input array was locked")
    # backward inside no_autodiff does nothing
    q = mg.tensor(xa)
    Lq = (q * q).sum()
    with mg.no_autodiff:
        Lq.backward()
    if q.grad is not None or Lq.creator is None:
        fails.append("backward() inside no_autodiff did something")
    Lq.backward()
    if q.grad is None or not np.array_equal(q.grad, 2 * xa):
        fails.append("backward() after a no-op backward inside no_autodiff is wrong")
    # ... for every kind of tensor it is called on: terminal, intermediate, view, constant result of a tracked op,
    # with and without a seed — creators, consumers, gradients and locks of the whole graph stay as they were, and the
    # graph still back-propagates afterwards
    for kind in ("terminal", "intermediate", "view", "constant-with-creator", "seeded"):
        a = mg.tensor(xa)
        m = a * ya
        c = mg.multiply(m, ya, constant=True)  # a constant tensor that has a creator (tracked op, constant=True)
        vw = m[0]
        Lk = (m * m).sum() + vw.sum()
        target = {"terminal": Lk, "intermediate": m, "view": vw, "constant-with-creator": c, "seeded": m}[kind]
        graph = [a, m, c, vw, Lk]
        before = [(t.creator, len(getattr(t, "_ops", ())), t.grad, t.data.flags.writeable) for t in graph]

        def call():
            if kind == "seeded":
                target.backward(np.ones(m.shape))
            else:
                target.backward()

        if wrap == "with":
            with mg.no_autodiff:
                call()
        else:
            mg.no_autodiff(call)()
        after = [(t.creator, len(getattr(t, "_ops", ())), t.grad, t.data.flags.writeable) for t in graph]
        for nm_, b_, a_ in zip(("leaf", "product", "constant result", "view", "loss"), before, after):
            if b_[0] is not a_[0] or b_[1] != a_[1] or (b_[2] is None) != (a_[2] is None) or b_[3] != a_[3]:
                fails.append(f"backward() on a {kind} tensor inside no_autodiff changed the graph: the {nm_} tensor's "
                             f"(creator, #consumers, grad, writeable) went from {(type(b_[0]).__name__, b_[1], b_[2] is not None, b_[3])} "
                             f"to {(type(a_[0]).__name__, a_[1], a_[2] is not None, a_[3])}")
                break
        else:
            try:
                Lk.backward()
                exp = 2 * (xa * ya) * ya
                exp[0] += ya[0]
                if a.grad is None or not np.allclose(a.grad, exp):
                    fails.append(f"after a no-op backward() on a {kind} tensor inside no_autodiff the graph back-propagates wrongly")
            except Exception as e:  # noqa: BLE001
                fails.append(f"after backward() on a {kind} tensor inside no_autodiff, backward() outside raised {type(e).__name__}")
    # in-place updates write into the tensor's own memory
    iname, iop = rng.choice(INPLACE)
    t = mg.tensor(xa)
    v = t[...]  # view taken with tracking on
    v.backward()  # release the graph/locks so the array is writeable again
    ref_arr = xa.copy()
    yv = mg.tensor(ya)
    npx = ref_arr
    # numpy reference of the same statement
    if iname == "setitem":
        npx[0:1] = ya[0:1]
    elif iname == "iadd":
        npx += ya
    elif iname == "imul_scalar":
        npx *= 2.0
    elif iname == "out=":
        np.add(npx, ya, out=npx)
    elif iname == "setitem_mask":
        npx[npx > 0] = 7.0
    elif iname == "out_where":
        np.multiply(npx, ya, out=npx, where=ya > 0)
    elif iname == "shape=":
        npx.shape = (npx.size,)
    (yv * 3.0).sum().backward()  # the operand, too, holds a gradient from a finished epoch
    arr_obj, ptr = t.data, t.data.ctypes.data
    held = [(nm_, x_, None if x_.grad is None else np.array(x_.grad), x_.base, len(x_._ops))
            for nm_, x_ in (("target", t), ("its view", v), ("the operand", yv))]
    with mg.no_autodiff:
        iop(t, yv)
    for nm_, x_, g_, b_, n_ in held:
        g2 = x_.grad
        if iname == "shape=" and g_ is not None and g2 is not None:
            # (the gradient a tensor holds is re-shaped along with it)
            g_, g2 = np.ravel(g_), np.ravel(g2)
        if (g_ is None) != (g2 is None) or (g_ is not None and not np.array_equal(g_, g2)):
            fails.append(f"untracked in-place {iname}: {nm_} lost or changed the gradient it held "
                         f"({None if g_ is None else g_.tolist()} -> {None if g2 is None else np.asarray(g2).tolist()})")
        if x_.base is not b_:
            fails.append(f"untracked in-place {iname}: the base link of {nm_} changed")
        if len(x_._ops) != n_:
            fails.append(f"untracked in-place {iname}: {nm_} recorded a consumer")
    if t.data is not arr_obj or t.data.ctypes.data != ptr:
        fails.append(f"untracked in-place {iname}: tensor's array was replaced")
    if not np.array_equal(t.data, npx):
        fails.append(f"untracked in-place {iname}: wrong values")
    if t.creator is not None:
        fails.append(f"untracked in-place {iname}: target acquired a creator")
    if not np.shares_memory(v.data, t.data) or not np.array_equal(v.data.reshape(-1), npx.reshape(-1)):
        fails.append(f"untracked in-place {iname}: existing view does not see the write")
    del w
    reset_switches()
    return {"op": name, "inplace": iname, "wrap": wrap, "shape": shape, "fails": fails, "seed": seed, "k": k}


# ---------------------------------------------------------------- run


def run(ctx: Ctx) -> Outcome:
    out = Outcome()
    out.rule = ("well-nested words over {no_autodiff, mem_guard_on, mem_guard_off} as `with` or decorator with "
                "raise/turn items (random depth<=5; thorough adds every word with <=4 scopes x every raise position); "
                "non-trivial = contains >=2 scopes and (a nested scope or a raise); distinct by canonical encoding. "
                "Plus untracked-op cases: one op + one in-place update inside no_autodiff.")
    rng = ctx.rng("words")
    words = []
    for i in range(ctx.n(1500, 12000)):
        words.append(gen_block(rng, rng.randint(1, 5), allow_turn=rng.random() < 0.4))
    # always: small exhaustive enumeration (words with <= 3 scopes; thorough: <= 4)
    exhaustive = list(enum_words(ctx.n(3, 4)))
    words += exhaustive
    out.extra["exhaustive_words"] = len(exhaustive)
    chunks = [words[i:i + 200] for i in range(0, len(words), 200)]
    results = [r for chunk in pmap(check_words, chunks) for r in chunk]

    # model side: per-event semantics and structured semantics
    lines, index = [], []
    for wi, (w, (ev, exc, final, fails)) in enumerate(zip(words, results)):
        lines.append("ctx reset")
        index.append((wi, "reset", None))
        for e, g in ev:
            lines.append("ctx " + e)
            index.append((wi, e, g))
        lines.append("ctx reset")
        index.append((wi, "reset", None))
        lines.append("ctx run " + " ".join(encode(w)))
        index.append((wi, "run", (final, exc)))
    obs = run_driver(lines, driver="MG/DriverCtx.lean")
    bad_words = {}
    for (wi, e, g), o in zip(index, obs):
        if e == "reset":
            continue
        if e == "run":
            final, exc = g
            exp = f"track={int(final[0])} guard={int(final[1])} exc={int(exc)}"
        else:
            exp = f"track={int(g[0])} guard={int(g[1])}"
        if o != exp and wi not in bad_words:
            bad_words[wi] = {"event": e, "model": o, "implementation": exp}
    out.traces_validated = len(words)
    hist = {"scopes": {}, "with_raise": 0, "with_turn": 0, "deco": 0}
    for wi, w in enumerate(words):
        ev, exc, final, fails = results[wi]
        out.evaluations += 1
        ns = n_scopes(w)
        hist["scopes"][str(ns)] = hist["scopes"].get(str(ns), 0) + 1
        enc = " ".join(encode(w))
        hist["with_raise"] += "R" in enc
        hist["with_turn"] += "T" in enc
        if ns >= 2 and ("( S" in enc or "R" in enc):
            out.nontrivial.add(stable_hash(w))
        if len(out.samples) < 4 and ns >= 3:
            out.samples.append({"word": enc, "events": [e for e, _ in ev], "final": final, "raised": exc})
        for f in fails:
            sig = f"C15|{f[0]}|{f[1]}"
            out.violations.append(Violation(sig, f"context managers: {f[0]} for {f[1]} (before={f[2]}, after={f[3]}) in word `{enc}`",
                                            {"kind": "word", "word": w, "failure": list(map(str, f))}))
        if wi in bad_words:
            out.corr_breaks.append(CorrBreak("Ctx model vs ContextTracker", {"word": enc, **bad_words[wi]}))
    out.stats["words"] = hist

    # untracked-op predicate
    n = ctx.n(300, 3000)
    res = pmap(untracked_case, [(ctx.seed, k) for k in range(n)])
    ophist = {}
    for r in res:
        out.evaluations += 1
        ophist[r["op"]] = ophist.get(r["op"], 0) + 1
        out.nontrivial.add(stable_hash([r["op"], r["inplace"], r["wrap"], r["shape"]]))
        for f in r["fails"]:
            out.violations.append(Violation("C15|untracked|" + f.split(":")[0], f, {"kind": "untracked", "seed": r["seed"], "k": r["k"]}))
    out.samples.append({"untracked_case": {k: res[0][k] for k in ("op", "inplace", "wrap", "shape")}})
    out.stats["untracked_ops"] = ophist
    out.assumptions = ["generator-interleaved (non-LIFO) exits are outside the quantifier (well-nested words)",
                       "tensor-level effects of the untracked fast paths are checked by the direct oracle only"]
    return out


def replay(data) -> bool:
    r = data["replay"]
    if r.get("kind") == "word":
        ev, exc, final, fails = run_word(r["word"])
        print("word:", " ".join(encode(r["word"])))
        print("events:", ev)
        print("failures:", fails)
        return bool(fails)
    res = untracked_case((r["seed"], r["k"]))
    print(res)
    return bool(res["fails"])


MANIFEST = {
    "category": "proof",
    "design_ref": "DESIGN.md §5 C15",
    "technique": "Lean 4 proof by mutual structural induction over well-nested words (model M6) + model/implementation "
                 "correspondence on generated and exhaustively enumerated nestings + direct predicate on untracked ops",
    "text": "exit_restores_entry / scope_restores_own_switch are proved in Lean for every well-nested word over the three "
            "managers (any depth, re-entrant, with/decorator, exceptions anywhere): each exit restores the settings and all "
            "depth bookkeeping in force at its enter and never raises. The model is hand-written and is run against "
            "ContextTracker on every check (per-event and structured semantics, globals compared after every enter/exit). "
            "The tensor-level clauses (untracked ops record nothing, in-place writes go to own memory, backward is a no-op) "
            "are decided by a direct predicate on the implementation; backward() inside no_autodiff is called on terminal, "
            "intermediate, view, seeded and constant-with-creator tensors and must leave creators, consumers, gradients and "
            "locks of the whole graph as they were.",
    "note": "Trusted: Lean kernel; axioms {propext, Quot.sound}; the harness that maps `with`/decorator executions to "
            "enter/exit events; Python's `with` semantics. Non-LIFO (generator-interleaved) exits are outside the quantifier.",
}

MANIFEST_ADDENDUM = "Oracle additions: inside no_autodiff, in-place updates keep the gradients, base links and consumer sets of target, view and operand; reading an existing view's lazily derived .grad (or base, repr) leaves the switches as the scope set them. Round 5: mixed-dtype arithmetic and batchnorm/softmax with narrower data than parameters inside no_autodiff (dtype promotion must equal the tracked result's); .shape = as an untracked in-place statement (same array object, views see it)."
