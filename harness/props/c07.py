"""C07 — backward() releases the whole graph and gradients never go stale."""
from __future__ import annotations

import gc
import types
import weakref

import numpy as np

import mygrad as mg
from mygrad.operation_base import Operation

from .. import engcheck, progs
from ..core import Ctx, Outcome, Violation

ID = "C07"
LEVEL = "proof"
EXTRA_TARGETS = ["MG.DriverEng"]
THEOREMS = {
    "MG.Proofs.C07": [
        "MG.C07.clearGraph_shrinks",
        "MG.C07.clearGraph_clears_root",
        "MG.C07.clearGraph_clears_inputs",
        "MG.C07.clearGraph_clears_upstream",
        "MG.C07.backward_clears_upstream",
        "MG.C07.backward_clears_graph",
        "MG.C07.cleared_tensor_holds_no_strong_edge",
        "MG.C07.disconnect_keeps_reported_grad",
    ],
    "MG.Proofs.C13": [
        "MG.C13.mkDupGraph_discards_family_grads",
    ],
}

GEN = dict(inplace=True, p_inplace=0.25, p_view=0.3, p_fail=0.0, p_const=0.1, n_stmts=9)
MG_TYPES = (mg.Tensor, Operation)


def graph_objects(roots):
    """every Tensor and Operation reachable from `roots` through creators and variables (the recorded graph)"""
    out, seen, stack = [], set(), list(roots)
    while stack:
        x = stack.pop()
        if x is None or id(x) in seen:
            continue
        seen.add(id(x))
        out.append(x)
        if isinstance(x, mg.Tensor):
            stack.append(x.creator)
            stack.append(x.base)
        else:
            stack.extend(x.variables)
    return out


def strongly_reachable(roots):
    """ids of Tensors/Operations/ndarrays reachable from `roots` through *strong* references (gc.get_referents; weakrefs
    are not followed), through plain containers, functions, cells and bound methods"""
    seen, found, stack = set(), set(), list(roots)
    while stack:
        x = stack.pop()
        if id(x) in seen:
            continue
        seen.add(id(x))
        if isinstance(x, MG_TYPES) or isinstance(x, np.ndarray):
            found.add(id(x))
        if isinstance(x, (type, types.ModuleType, weakref.ReferenceType)) or isinstance(x, (str, bytes, int, float, bool, np.dtype, type(None))):
            continue
        if isinstance(x, np.ndarray) and x.dtype != object:
            if x.base is not None:
                stack.append(x.base)
            continue
        if isinstance(x, (types.FunctionType, types.MethodType, types.CellType, dict, list, tuple, set, frozenset) + MG_TYPES) or \
                type(x).__module__.startswith("mygrad") or isinstance(x, types.BuiltinFunctionType) or hasattr(x, "__wrapped__"):
            for r in gc.get_referents(x):
                if isinstance(r, (type, types.ModuleType)):
                    continue
                if isinstance(r, dict) and ("__builtins__" in r or "__name__" in r):  # module globals
                    continue
                stack.append(r)
    return found


def oracle(prog, idx):
    if not prog or prog[-1][0] != "back":
        return []
    import random

    rng = random.Random(f"c07:{idx}:{len(prog)}")
    fails = []
    was = gc.isenabled()
    gc.collect()
    gc.disable()
    try:
        ex = progs.RealExec()
        for st in prog[:-1]:
            ex.step(st)
        st = prog[-1]
        L = ex.v.get(st[1])
        if L is None:
            return []
        objs = graph_objects(list(ex.v.values()))
        refs = [(type(o).__name__, weakref.ref(o)) for o in objs]
        upstream = [o for o in graph_objects([L]) if isinstance(o, mg.Tensor)]
        del objs
        r = ex.step(st)
        if r != "ok":
            return []
        # (i) L and everything upstream: no creator, no recorded consumers
        if not L.constant or True:
            for t in upstream:
                if t.creator is not None:
                    fails.append(("creator-kept", f"after backward a tensor upstream of t{st[1]} still has a creator ({type(t.creator).__name__})"))
                    return fails
                ops = getattr(t, "_ops", None)
                if ops is not None and len(ops) != 0:
                    fails.append(("consumers-kept", f"after backward a tensor upstream of t{st[1]} still records {len(ops)} consumer(s)"))
                    return fails
        del upstream, t, L
        # (ii) the caller keeps a random subset of its handles; everything else must be freed by refcount alone
        names = sorted(ex.v)
        keep = set(rng.sample(names, k=min(len(names), rng.choice([0, 1, 2, 3]))))
        for n in names:
            if n not in keep:
                del ex.v[n]
        legit = strongly_reachable([ex.v])
        leaked = [(k, o) for k, o in ((k, w()) for k, w in refs) if o is not None and id(o) not in legit]
        if leaked:
            kinds = sorted({k for k, _ in leaked})
            fails.append(("not-freed-by-refcount", f"{len(leaked)} object(s) of the graph ({', '.join(kinds)}) survive backward although the caller "
                          f"holds no reference to them (kept handles: {sorted(keep)})"))
            del leaked
            return fails
        del leaked
        # (iii) no cyclic garbage was ever created
        gc.set_debug(gc.DEBUG_SAVEALL)
        gc.collect()
        garb = [type(o).__name__ for o in gc.garbage if isinstance(o, MG_TYPES + (np.ndarray,))]
        gc.garbage.clear()
        gc.set_debug(0)
        if garb:
            fails.append(("cyclic-garbage", f"a cyclic-GC pass found unreachable {sorted(set(garb))}: they were not freed by reference counting"))
            return fails
    finally:
        gc.set_debug(0)
        gc.garbage.clear()
        if was:
            gc.enable()
    return fails


def oracle_stale(prog, idx):
    """multi-epoch histories: the moment a non-constant *leaf* that owns its memory is used as an input of a non-view
    operation or of an in-place update (as target, as the base of the target, or as an operand), its old gradient and
    the gradients of its views must read None.  View or not is decided from memory sharing of the result, not from
    MyGrad's bookkeeping."""
    ex = progs.RealExec()
    voided = {}  # tensors whose gradient was discarded since the last backward: name -> the statement that did it
    for st in prog:
        k = st[0]
        if k in ("back", "del"):
            voided = {} if k == "back" else {n: w for n, w in voided.items() if n != st[1]}
        # "... read None until recomputed": a discarded gradient must not come back before the next backward
        for n, why in voided.items():
            if n in ex.v and ex.v[n].grad is not None:
                return [("stale-grad-returns", f"the gradient of t{n}, discarded by `{why}`, is readable again before "
                         f"`{progs.to_line(st)[:60]}` although no backward pass ran in between")]
        refs = [x[1] for x in st[1:] if isinstance(x, list) and len(x) == 2 and x[0] == "t"]
        if k in ("set", "aug", "outb", "outu"):
            refs.append(st[1])
        is_leaf = {n: (t.base is None and t.creator is None and not t.constant) for n, t in ex.v.items()}
        r = ex.step(st)
        if r != "ok" or k not in ("bin", "un", "sum", "take", "view", "set", "aug", "outb", "outu"):
            continue
        if k in ("set", "aug", "outb", "outu"):
            # the owner of the memory that was written (a view left over from an earlier epoch becomes its own base)
            b = ex.v[st[1]].base
            if b is not None and ex.name_of(b).isdigit():
                refs.append(int(ex.name_of(b)))
        leaves = [n for n in set(refs) if is_leaf.get(n)]
        if k == "view":
            res = ex.v[st[1]]
            src = ex.v.get(st[3][1]) if st[3][0] == "t" else None
            if src is None or res.size == 0 or np.shares_memory(res.data, src.data):
                continue  # a genuine view (or nothing to tell): the gradient persists
        for n in leaves:
            voided[n] = progs.to_line(st)[:60]
            for m, v in ex.v.items():
                if v.base is ex.v[n]:
                    voided[m] = progs.to_line(st)[:60]
        for n in leaves:
            t = ex.v[n]
            if t.grad is not None:
                return [("stale-grad", f"after `{progs.to_line(st)}` used the leaf t{n} its old gradient is still readable: {np.asarray(t.grad).tolist()}")]
            for m, v in ex.v.items():
                if v.base is t and v.grad is not None:
                    return [("stale-view-grad", f"after `{progs.to_line(st)}` used the leaf t{n}, the gradient of its view t{m} is still readable")]
    return []


def drop_case(args):
    """a forward result the caller simply drops (an auxiliary evaluation next to the one on the path to L): after
    L.backward() every tensor and operation of the dropped branch must be dead by reference counting alone"""
    src, ci = args
    if src == "layer":
        from .c14 import layer_cases
        name, build = layer_cases()[ci]
        mk = lambda seed: build(np.random.default_rng([7, ci, seed]), np.float64)
    else:
        from .c05 import op_cases
        name, build = op_cases()[ci]
        mk = lambda seed: build(np.random.default_rng([7, ci, seed]))
    fails = []
    # warm-up (numba-compiled kernels leave cyclic garbage of their own on first use), then no cyclic GC at all
    try:
        _i, _o = mk(0)
        _o.sum().backward()
        del _i, _o
    except Exception as e:
        return {"name": name, "fails": [], "skipped": f"{type(e).__name__}", "args": list(args)}
    gc.collect()
    was = gc.isenabled()
    gc.disable()
    try:
        ins1, out1 = mk(1)
        ins2, out2 = mk(2)
        # the caller keeps the leaves only (some builders list intermediate results among their "inputs")
        ins1 = [t for t in ins1 if t.creator is None]
        ins2 = [t for t in ins2 if t.creator is None]
        objs = [o for o in graph_objects([out2]) if not any(o is t for t in ins2)]
        refs = [(type(o).__name__, weakref.ref(o)) for o in objs]
        del objs
        L = out1.sum()
        del out1, out2
        L.backward()
        alive = sorted({k for k, w in refs if w() is not None})
        if alive:
            fails.append(f"{name}: after L.backward() the dropped branch is still alive without any reference from the caller "
                         f"({', '.join(alive)}): only a cyclic-GC pass could free it")
        del ins1, ins2, L
    finally:
        if was:
            gc.enable()
        gc.collect()
    return {"name": name, "fails": fails, "args": list(args)}


def stale_case(args):
    """gradient persistence / staleness and bit-identical iteration on a small training-like step"""
    seed, k = args
    import random

    rng = random.Random(f"c07s:{seed}:{k}")
    fails = []
    a = np.array([rng.randint(-3, 3) for _ in range(6)], dtype=float).reshape(2, 3) * 0.37
    x, w = mg.tensor(a.copy()), mg.tensor(np.array([0.3, -1.2, 2.0]))
    v = x[0]  # a view taken before the graph

    def step():
        h = (x * w).sum(axis=1)
        y = mg.tanh(h) * h + x[1].sum() + (x.T @ x).sum()
        y.backward()
        return x.grad.copy(), w.grad.copy()

    g1 = step()
    for it in range(rng.randint(2, 5)):
        g = step()
        if not (np.array_equal(g[0], g1[0]) and np.array_equal(g[1], g1[1])):
            fails.append(f"iteration {it + 2} of the same forward/backward step gave different gradients (accumulation or staleness)")
            break
    gx = x.grad
    if v.grad is None or not np.array_equal(v.grad, gx[0]):
        fails.append("the gradient of a view of the leaf is not the view of the leaf's gradient")
    # persistence: a view op does not touch the gradient
    u = x[:, 1:]
    if x.grad is not gx:
        fails.append("creating a view dropped the leaf's gradient")
    kind = rng.choice(["nonview", "inplace", "backward", "null", "backward-through-view", "backward-through-view"])
    if kind == "nonview":
        z = x + 1
        ok = x.grad is None and v.grad is None and u.grad is None
    elif kind == "inplace":
        x[0, 0] = 5.0
        ok = x.grad is None and v.grad is None and u.grad is None
    elif kind == "null":
        x.null_grad()
        ok = x.grad is None and v.grad is None and u.grad is None
    elif kind == "backward-through-view":
        # the leaf only enters *view* ops here, so nothing nulls its gradient before the new pass reaches it
        (x[0] * 3.0).sum().backward()
        exp = np.array([[3.0, 3.0, 3.0], [0.0, 0.0, 0.0]])
        ok = x.grad is not None and np.array_equal(x.grad, exp) and np.array_equal(v.grad, exp[0])
    else:
        (x * 2.0).sum().backward()
        ok = x.grad is not None and np.array_equal(x.grad, np.full((2, 3), 2.0)) and np.array_equal(v.grad, [2.0, 2.0, 2.0])
    if not ok:
        fails.append(f"after the leaf was next used ({kind}) its old gradient (or that of a view) is still readable / was accumulated into")
    return {"kind": kind, "fails": fails, "args": args}


def nontrivial(prog):
    f = progs.features(prog)
    return sum(v for k, v in f.items() if k in ("set:b", "set:a", "set:m", "aug", "outb", "outu")) >= 1 and len(prog) >= 6


def run(ctx: Ctx) -> Outcome:
    from ..core import pmap

    n = ctx.n(600, 6000)
    out, results = engcheck.run_programs(ctx, n, dict(GEN, n_stmts=ctx.n(9, 16)), "oracle", nontrivial)
    out.rule = ("random programs with views, item/augmented assignment and where=/out= targets, one backward, then the caller "
                "drops a random subset of its handles — run with gc disabled; non-trivial = >=1 in-place update (placeholder "
                "graphs exist); checks: upstream tensors have no creator/consumers, every graph object not strongly reachable "
                "from kept handles is dead, no cyclic garbage; multi-epoch histories: a leaf's gradient (and its views') reads None "
                "the moment the leaf enters a non-view op or an in-place update; a dropped auxiliary branch of each of ~40 op/layer "
                "families (incl. GRU, conv, pooling, batchnorm, losses) is dead after L.backward() with gc disabled; plus gradient "
                "persistence/staleness/iteration cases")
    engcheck.report(out, results, "C07", oracle, shrinkable=False)
    out2, results2 = engcheck.run_programs(ctx, ctx.n(1000, 6000), dict(GEN, n_stmts=ctx.n(12, 18), multi_back=True, p_view=0.35),
                                           "oracle_stale", lambda p: sum(1 for s in p if s[0] == "back") >= 2, label="epochs:")
    engcheck.report(out2, results2, "C07", oracle_stale)
    out.merge(out2)
    res = pmap(stale_case, [(ctx.seed, k) for k in range(ctx.n(60, 600))])
    seen = set()
    for r in res:
        out.evaluations += 1
        for f in r["fails"]:
            sig = "C07|stale|" + ("iteration" if "iteration" in f else ("view" if "view" in f else r["kind"]))
            if sig not in seen:
                seen.add(sig)
                out.violations.append(Violation(sig, f, {"kind": "stale", "args": list(r["args"])}))
    from .c14 import layer_cases
    from .c05 import op_cases
    items = [("layer", i) for i in range(len(layer_cases()))] + [("op", i) for i in range(len(op_cases()))]
    dropped = {}
    for r in pmap(drop_case, items):
        out.evaluations += 1
        dropped[r["name"]] = "skipped" if r.get("skipped") else "ok"
        for f in r["fails"]:
            out.violations.append(Violation(f"C07|dropped-branch-not-freed|{r['name']}", f, {"kind": "drop", "args": r["args"]}))
    out.stats["dropped_branch_families"] = dropped
    out.assumptions = ["CPython reference counting and weakref semantics are observed, not modelled: the Lean model proves the "
                       "state rules (what backward clears, which strong edges remain); that an object without strong referrers "
                       "is freed immediately is CPython's contract"]
    return out


def replay(data) -> bool:
    r = data["replay"]
    if r.get("kind") == "drop":
        res = drop_case(tuple(r["args"]))
        print(res)
        return bool(res["fails"])
    if r.get("kind") == "stale":
        res = stale_case(tuple(r["args"]))
        print(res)
        return bool(res["fails"])
    p = r["program"]
    for st in p:
        print(progs.to_line(st))
    f = (oracle_stale if str(r.get("class", "")).startswith("stale-") else oracle)(p, 0)
    print("oracle:", f)
    return bool(f)


MANIFEST = {
    "category": "proof",
    "design_ref": "DESIGN.md §5 C07",
    "technique": "Lean 4 induction on the clear_graph recursion and the DFS (state rules of the engine model) + correspondence on "
                 "multi-step programs + weakref/gc oracle with the cyclic collector disabled",
    "text": "Proved on the engine model for all heaps: clear_graph only ever removes graph information "
            "(clearGraph_shrinks), leaves the tensor it is called on — and every input of its creator, whatever "
            "the order and sharing of the inputs — without creator and without recorded consumers "
            "(clearGraph_clears_root, clearGraph_clears_inputs; iterating along creator chains covers everything "
            "upstream), every completed backward ends in that state (backward_clears_graph), and a cleared tensor "
            "holds no strong reference into the graph other than to its base "
            "(cleared_tensor_holds_no_strong_edge); an in-place update discards the gradients of the base and of every "
            "view of the updated family, for any view forest (C13.mkDupGraph_discards_family_grads); a left-over view that a "
            "new view op disconnects from its base keeps reporting exactly the gradient it reported "
            "(disconnect_keeps_reported_grad). The model is "
            "compared with MyGrad on random single- and multi-epoch programs (a leaf's gradient and its views' must read "
            "None the moment the leaf enters a non-view op or an in-place update); a dropped auxiliary branch of ~40 "
            "op/layer families must be dead after backward with gc disabled; the "
            "implementation is observed with the cyclic collector disabled: weakrefs to all graph objects (ops, "
            "intermediates, placeholder copies) not strongly reachable from the handles the caller keeps must be "
            "dead, a DEBUG_SAVEALL collection must find no Tensor/Operation/ndarray, gradients persist exactly "
            "until the leaf is next used, and repeated forward/backward steps give bit-identical gradients.",
    "note": "Trusted: Lean kernel, standard axioms, correspondence harness; CPython's refcounting/finalizer "
            "timing is the runtime behaviour the model cannot exhibit (named, covered only by the monitor). The "
            "transitive-closure form of clearGraph_clears_upstream (all tensors reachable through creators, for "
            "any DAG) is obtained by iterating the two proved lemmas; the single closed-form statement is not "
            "proved.",
}

MANIFEST_ADDENDUM = 'Also proved: disconnect_keeps_reported_grad, mkDupGraph_discards_family_grads.'
