"""Shared machinery of the /verif checks: contexts, outcomes, known findings, evidence, replays.

Run with /venv/bin/python (mygrad is an editable install of /repo, so the current working tree of
/repo is what every check sees).
"""
from __future__ import annotations

import hashlib
import json
import os
import random
import sys
import time
import traceback
from dataclasses import dataclass, field
from pathlib import Path
from typing import Any, Callable, Dict, Iterable, List, Optional

VERIF = Path(__file__).resolve().parent.parent
LEAN = VERIF / "lean"
EVIDENCE = VERIF / "evidence"
REPLAYS = EVIDENCE / "replays"
CORPUS = VERIF / "corpus"
KNOWN = VERIF / "known_findings"  # directory: one JSON list per property (committed, never written at run time)

TRUSTED_BASE = [
    "Lean 4.33.0 kernel (leanchecker re-check in the thorough tier)",
    "axioms: subset of {propext, Classical.choice, Quot.sound}; no native_decide/bv_decide/sorry (audited every run)",
    "Mathlib v4.33.0 where a proof file imports a module of it",
    "the correspondence harness (generators, canonicaliser, driver parser) that ties the hand-written model to /repo",
    "NumPy kernels, CPython reference counting / weakref.finalize: modelled or replayed, not verified",
]


def stable_hash(obj: Any) -> str:
    return hashlib.sha256(json.dumps(obj, sort_keys=True, default=str).encode()).hexdigest()[:12]


@dataclass
class Violation:
    """The property predicate failed on the real implementation for a concrete input."""

    signature: str  # canonical, minimised: matched against known_findings.json
    what: str  # one-line human description
    replay: Dict[str, Any]  # self-contained input; re-executable by the property's `replay`


@dataclass
class CorrBreak:
    """Model and implementation disagree (broken correspondence); not by itself a violation."""

    name: str
    detail: Dict[str, Any]


@dataclass
class Outcome:
    evaluations: int = 0
    nontrivial: set = field(default_factory=set)  # hashes of distinct non-trivial cases
    rule: str = ""
    samples: List[Any] = field(default_factory=list)
    violations: List[Violation] = field(default_factory=list)
    corr_breaks: List[CorrBreak] = field(default_factory=list)
    traces_validated: int = 0  # model/implementation traces compared
    stats: Dict[str, Any] = field(default_factory=dict)
    extra: Dict[str, Any] = field(default_factory=dict)
    assumptions: List[str] = field(default_factory=list)

    def merge(self, other: "Outcome"):
        self.evaluations += other.evaluations
        self.nontrivial |= other.nontrivial
        for s in other.samples:
            if len(self.samples) < 6:
                self.samples.append(s)
        self.violations += other.violations
        self.corr_breaks += other.corr_breaks
        self.traces_validated += other.traces_validated
        for k, v in other.stats.items():
            if isinstance(v, (int, float)) and isinstance(self.stats.get(k, 0), (int, float)):
                self.stats[k] = self.stats.get(k, 0) + v
            elif isinstance(v, dict):
                d = self.stats.setdefault(k, {})
                for kk, vv in v.items():
                    d[kk] = d.get(kk, 0) + vv
            else:
                self.stats[k] = v
        self.extra.update(other.extra)
        for a in other.assumptions:
            if a not in self.assumptions:
                self.assumptions.append(a)


@dataclass
class Ctx:
    prop: str
    tier: str
    seed: int
    t0: float = field(default_factory=time.time)
    lean_broken: List[Dict[str, Any]] = field(default_factory=list)  # filled by main before run()

    def rng(self, *salt) -> random.Random:
        return random.Random(f"{self.seed}:{self.prop}:" + ":".join(map(str, salt)))

    def n(self, quick: int, thorough: int) -> int:
        return thorough if self.tier == "thorough" else quick

    @property
    def thorough(self) -> bool:
        return self.tier == "thorough"


# ------------------------------------------------------------------ known findings


def load_known() -> List[Dict[str, Any]]:
    out: List[Dict[str, Any]] = []
    if KNOWN.is_dir():
        for f in sorted(KNOWN.glob("*.json")):
            out += json.loads(f.read_text())
    return out


def split_known(prop: str, violations: List[Violation]):
    """-> (open known findings hit [(entry, violation)], new violations)"""
    known = [k for k in load_known() if k.get("property") == prop and k.get("status") == "open"]
    sigs = {k["signature"]: k for k in known}
    hit, new = {}, []
    for v in violations:
        if v.signature in sigs:
            hit.setdefault(v.signature, (sigs[v.signature], v))
        else:
            new.append(v)
    return list(hit.values()), new


# ------------------------------------------------------------------ replay / evidence files


def write_replay(prop: str, payload: Dict[str, Any]) -> Path:
    REPLAYS.mkdir(parents=True, exist_ok=True)
    h = stable_hash(payload)
    p = REPLAYS / f"{prop}-{h}.json"
    p.write_text(json.dumps(payload, indent=1, default=str))
    return p


def write_evidence(prop: str, level: str, ctx: Ctx, out: Outcome, lean: Dict[str, Any], n_viol: int,
                   known_hit: List[str]):
    EVIDENCE.mkdir(parents=True, exist_ok=True)
    cov: Dict[str, Any] = {
        "obligations": lean.get("obligations", 0),
        "discharged": lean.get("discharged", 0),
        "checker_cmd": lean.get("checker_cmd", ""),
        "trusted_base": TRUSTED_BASE + lean.get("extra_trusted", []),
        "theorems": lean.get("theorems", {}),
        "evaluations": out.evaluations,
        "distinct_nontrivial": len(out.nontrivial),
        "rule": out.rule,
        "samples": out.samples[:6] if out.samples else [],
        "programs": out.evaluations,
        "traces_validated_against_impl": out.traces_validated,
        "disagreements_checked": len(out.corr_breaks),
        "stats": out.stats,
        "known_findings_reported": known_hit,
        "lean_broken": lean.get("broken", []),
    }
    if lean.get("leanchecker") is not None:
        cov["leanchecker"] = lean["leanchecker"]
    cov.update(out.extra)
    ev = {
        "property_id": prop,
        "tier": ctx.tier,
        "seed": ctx.seed,
        "level": level,
        "coverage": cov,
        "assumptions": out.assumptions,
        "wall_s": round(time.time() - ctx.t0, 2),
        "violations": n_viol,
    }
    (EVIDENCE / f"{prop}.json").write_text(json.dumps(ev, indent=1, default=str))


# ------------------------------------------------------------------ parallel map


def pmap(fn: Callable, items: Iterable, procs: Optional[int] = None) -> List[Any]:
    """fork-based parallel map (workers inherit the imported mygrad); falls back to serial."""
    items = list(items)
    if not items:
        return []
    procs = procs or min(int(os.environ.get("VERIF_PROCS", "14")), len(items))
    if procs <= 1:
        return [fn(i) for i in items]
    import multiprocessing as mp

    ctx = mp.get_context("fork")
    with ctx.Pool(procs) as pool:
        return pool.map(fn, items, chunksize=max(1, len(items) // (procs * 4)))


def fmt_exc() -> str:
    return traceback.format_exc(limit=6)
