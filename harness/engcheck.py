"""Shared driver for the properties that are decided on *graph programs* (C01, C04, C05, C06, C07, C09,
C10, C12, C13, C14): generation, execution on real MyGrad, correspondence with the Lean engine model,
shrinking, and plumbing of per-property direct oracles.
"""
from __future__ import annotations

import json
import random
from typing import Any, Callable, Dict, List, Optional, Tuple

from . import progs
from .core import CorrBreak, Ctx, Outcome, Violation, pmap, stable_hash
from .leanbuild import run_driver as _run_driver


def run_driver(lines):
    return _run_driver(lines, driver="MG/DriverEng.lean")

# ------------------------------------------------------------------ validity / shrinking


def defined_before_use(prog) -> bool:
    defined = set()
    for st in prog:
        k = st[0]
        refs = []
        for x in st[1:]:
            if isinstance(x, list) and len(x) == 2 and x[0] == "t":
                refs.append(x[1])
        if k in ("set", "aug", "outb", "outu", "back", "clear", "null", "del"):
            refs.append(st[1])
        if any(r not in defined for r in refs):
            return False
        if k in ("leaf", "bin", "un", "sum", "view", "take"):
            defined.add(st[1])
        if k == "del":
            defined.discard(st[1])
    return True


def shrink(prog, fails: Callable[[list], bool], max_tests=150) -> list:
    """delta-debugging by statement removal (feature-monotone: only deletes)"""
    cur = list(prog)
    tests = 0
    changed = True
    while changed and tests < max_tests:
        changed = False
        for i in range(len(cur) - 1, -1, -1):
            cand = cur[:i] + cur[i + 1:]
            if not cand or not defined_before_use(cand):
                continue
            tests += 1
            try:
                if fails(cand):
                    cur = cand
                    changed = True
            except Exception:
                pass
            if tests >= max_tests:
                break
    return cur


def prog_signature(prog) -> str:
    """canonical feature list of a (minimised) program"""
    f = progs.features(prog)
    return ",".join(sorted(f))


# ------------------------------------------------------------------ correspondence


def compare_streams(real: List[str], model: List[str]) -> Optional[Tuple[int, str, str]]:
    """first differing line (index, real, model) or None; comparison stops after a RecursionError"""
    for k, (a, b) in enumerate(zip(real, model)):
        b = progs.canon_model_line(b)
        if a == "GUARD" or b == "UNMODELLED":
            return None  # value guard tripped / the model declines (outside the modelled fragment)
        if a == "RecursionError" and b == "RecursionError":
            return None
        if a != b:
            return (k, a, b)
    return None


def corr_fails(prog) -> bool:
    real, _ = progs.run_real(prog)
    model = run_driver(progs.to_lines(prog))
    return compare_streams(real, model) is not None


def _worker(args):
    """runs in a forked worker: generate, execute on the implementation, run the property's oracle"""
    seed, idx, gen_kw, oracle_name, prop = args
    gen_kw = dict(gen_kw)
    guard_off = gen_kw.pop("_guard_off", False)  # run the implementation (and the oracle) with memory guarding off
    rng = random.Random(f"{seed}:{prop}:{idx}")
    prog = progs.gen_program(rng, **gen_kw)
    import contextlib

    import mygrad as mg

    with (mg.mem_guard_off if guard_off else contextlib.nullcontext()):
        real, ex = progs.run_real(prog)
        fails = []
        if oracle_name is not None:
            import importlib

            mod = importlib.import_module(f"harness.props.{prop.lower()}")
            try:
                fails = getattr(mod, oracle_name)(prog, idx) or []
            except Exception as e:  # an oracle crash is an infrastructure problem, surfaced loudly
                fails = [("ORACLE-CRASH", f"{type(e).__name__}: {e}")]
        del ex
    return {"idx": idx, "prog": prog, "real": real, "fails": fails}


def run_programs(ctx: Ctx, n: int, gen_kw: Dict[str, Any], oracle_name: Optional[str], nontrivial: Callable[[list], bool],
                 label: str = "") -> Tuple[Outcome, List[Dict[str, Any]]]:
    """generate n programs, run them on the implementation (+oracle) in parallel and through the Lean driver;
    returns an Outcome with correspondence breaks filled in, and the raw per-program results."""
    out = Outcome()
    items = [(ctx.seed, f"{label}{i}", gen_kw, oracle_name, ctx.prop) for i in range(n)]
    results = pmap(_worker, items)
    lines: List[str] = []
    spans = []
    for r in results:
        ls = progs.to_lines(r["prog"])
        spans.append((len(lines), len(ls)))
        lines += ls
    model = run_driver(lines) if lines else []
    hist: Dict[str, int] = {}
    guard = 0
    n_bad = 0
    for r, (a, ln) in zip(results, spans):
        out.evaluations += 1
        if "GUARD" in r["real"]:
            guard += 1
        for k, v in progs.features(r["prog"]).items():
            hist[k] = hist.get(k, 0) + v
        if nontrivial(r["prog"]):
            out.nontrivial.add(stable_hash(r["prog"]))
        d = compare_streams(r["real"], model[a:a + ln])
        out.traces_validated += 1
        if d is not None:
            n_bad += 1
            if n_bad <= 3:
                small = shrink(r["prog"], corr_fails, max_tests=40)
                real, _ = progs.run_real(small)
                m2 = run_driver(progs.to_lines(small))
                d2 = compare_streams(real, m2) or d
                out.corr_breaks.append(CorrBreak("Engine model vs MyGrad (graph program)",
                                                 {"program": small, "line": progs.to_lines(small)[d2[0]] if d2[0] < len(progs.to_lines(small)) else "?",
                                                  "implementation": d2[1][:600], "model": d2[2][:600]}))
            else:
                out.corr_breaks.append(CorrBreak("Engine model vs MyGrad (graph program)", {"program": r["prog"]}))
    out.stats[label + "statement_kinds"] = hist
    out.stats[label + "guard_discarded"] = guard
    for r in results[:2]:
        out.samples.append({"program": [progs.to_line(s) for s in r["prog"]]})
    return out, results


# ------------------------------------------------------------------ exact-derivative oracle


def dual_oracle(prog, check_flags=False) -> List[Tuple[str, str]]:
    """Run `prog` (ending in one `back`) on real MyGrad and on the dual-number NumPy twin; compare the
    gradient of every owner tensor (base None) with the exact derivative of sum(L*seed).  Returns failures."""
    import numpy as np

    assert prog[-1][0] == "back"
    ex = progs.RealExec()
    du = progs.DualExec()
    for st in prog[:-1]:
        r = ex.step(st)
        if r != "ok":
            continue  # a failing statement leaves no trace (C13); the twin skips it
        if st[0] in ("set", "aug", "outb", "outu") and not check_flags:
            tgt = st[1]
            own = du.owner(tgt)
            if du.const.get(tgt) != du.const.get(own) or du.blocked.get(tgt, False):
                # an update through a view whose flag was forced against its base's (or through a chain that passes
                # such a view): the window's old contents are then those of a tensor the caller declared constant
                # (or the reverse) and the flag rule decides what they transmit — two defensible functional
                # programs; the constant rule is C10's, this oracle stays out
                return []
        try:
            du.step(st)
        except Exception as e:
            return [("ORACLE-CRASH", f"dual twin failed on {st}: {type(e).__name__}: {e}")]
    # forward values must agree
    for n, t in ex.v.items():
        dv = progs.d_vals(du.v[n])
        if t.shape != dv.shape or not np.array_equal(t.data, dv):
            return [("value", f"t{n}: implementation {t.data.tolist()} vs functional program {dv.tolist()}")]
        if np.any(np.abs(t.data) > progs.BOUND):
            return []
    st = prog[-1]
    L = st[1]
    if not check_flags and any(du.const.get(n) != t.constant for n, t in ex.v.items()):
        # the constant rule itself is C10's property (its known finding: a where-masked in-place ufunc through a
        # forced-non-constant view flips the flag of a constant base); a program on which some flag already differs
        # from the rule is outside the gradient oracles of the other properties
        return []
    if du.const[L] != ex.v[L].constant:
        # the constant rule itself is C10's property; elsewhere a program on which the flags already differ
        # (known C10 finding: forced non-constant views of constant bases) is outside this oracle
        return [("constant-flag", f"t{L}: implementation constant={ex.v[L].constant}, rule says {du.const[L]}")] if check_flags else []
    r = ex.step(st)
    if du.const[L]:
        exp = {n: None for n in du.v if du.base.get(n) is None}
    else:
        if r != "ok":
            if st[2] is not None and not progs._bcastable(tuple(st[2][1]), ex.v[L].shape):
                return []  # a non-broadcastable seed is rejected (C14)
            return [("backward-raised", f"backward on t{L} raised {r}")]
        exp = du.expected_grads(L, st[2])
    fails = []
    for n, e in exp.items():
        t = ex.v[n]
        if t.base is not None:
            continue
        g = t.grad
        if e is None:
            if g is not None and g.size:
                fails.append(("spurious-grad", f"t{n} received a gradient {np.asarray(g).tolist()} although L does not depend on it (or it is constant)"))
        else:
            if g is None:
                fails.append(("missing-grad", f"t{n}.grad is None, expected {e.tolist()}"))
            elif g.shape != e.shape or not np.array_equal(g, e):
                fails.append(("wrong-grad", f"t{n}.grad = {np.asarray(g).tolist()}, exact derivative = {e.tolist()}"))
    return fails


# ------------------------------------------------------------------ helpers shared by C10/C12/C13/C14


def run_all(prog):
    """execute on real MyGrad; returns (executor, list of per-statement outcomes)"""
    ex = progs.RealExec()
    res = [ex.step(st) for st in prog]
    return ex, res


def grads_of(ex):
    import numpy as np

    return {n: (None if t.grad is None else np.array(t.grad)) for n, t in ex.v.items()}


def same_grads(a, b, names=None):
    import numpy as np

    for n in (names if names is not None else a):
        ga, gb = a.get(n), b.get(n)
        if (ga is None) != (gb is None):
            return f"t{n}.grad is {'None' if ga is None else ga.tolist()} in one run and {'None' if gb is None else gb.tolist()} in the other"
        if ga is not None and (ga.shape != gb.shape or not np.array_equal(ga, gb)):
            return f"t{n}.grad = {ga.tolist()} vs {gb.tolist()}"
    return None


def report(out, results, prop, oracle, shrinkable=True, sigfn=None, per_class=12):
    """turn per-program oracle failures into (shrunk) violations.  One per failure class — or, when the property
    supplies `sigfn` (signatures that depend on the *shrunk* program), one per distinct signature among the first
    `per_class` failing programs of each class."""
    seen, n_cls, sigs = set(), {}, set()
    for r in results:
        for cls, msg in r["fails"]:
            if sigfn is None:
                if cls in seen:
                    continue
            else:
                # candidates are grouped by the signature of the *unshrunk* program (shrinking only removes
                # statements, so a program that already lacks a feature cannot belong to a family that needs it)
                pre = (cls, sigfn(prop, cls, r["prog"]))
                if n_cls.get(pre, 0) >= per_class // 2:
                    continue
                n_cls[pre] = n_cls.get(pre, 0) + 1
            seen.add(cls)

            def pred(p, cls=cls):
                return any(c == cls for c, _ in (oracle(p, 0) or []))

            small = shrink(r["prog"], pred) if (shrinkable and cls != "ORACLE-CRASH") else r["prog"]
            msgs = [m for c, m in (oracle(small, 0) or []) if c == cls] or [msg]
            if sigfn is not None:
                sig = sigfn(prop, cls, small)
            else:
                # a class ending in "!" names a complete failure family: its signature carries no program features
                sig = f"{prop}|{cls[:-1]}" if cls.endswith("!") else f"{prop}|{cls}|{prog_signature(small)}"
            if sig in sigs:
                continue
            sigs.add(sig)
            out.violations.append(Violation(sig, f"{cls}: {msgs[0]}",
                                            {"kind": "program", "program": small, "class": cls}))
    return seen
