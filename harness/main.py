"""./check Cxx --tier quick|thorough [--replay FILE]

Protocol (DESIGN.md §2.3):
 1. rebuild the Lean model + proofs of the property, audit the axioms of its theorems;
 2. run the correspondence (model vs /repo) and the direct oracle (property predicate on /repo);
 3. oracle failures not listed in known_findings.json -> VIOLATION with a concrete replay;
    broken proof/correspondence and no failing input -> VIOLATION ... no-failing-input-found.
Exit: 0 held, 1 violation, 2 infrastructure error/timeouts.
"""
from __future__ import annotations

import argparse
import importlib
import json
import os
import sys
import time
import traceback

from . import core, leanbuild
from .core import Ctx, Outcome, split_known, write_evidence, write_replay


def load_prop(pid: str):
    return importlib.import_module(f"harness.props.{pid.lower()}")


def main(argv=None) -> int:
    ap = argparse.ArgumentParser(prog="check")
    ap.add_argument("prop")
    ap.add_argument("--tier", default=os.environ.get("VERIF_TIER", "quick"), choices=["quick", "thorough"])
    ap.add_argument("--replay", default=None)
    ap.add_argument("--no-lean", action="store_true", help="(development only) skip the Lean build/audit")
    a = ap.parse_args(argv)
    pid = a.prop.upper()
    seed = int(os.environ.get("VERIF_SEED", "0"))
    mod = load_prop(pid)

    if a.replay:
        data = json.loads(open(a.replay).read())
        return int(bool(mod.replay(data)))

    ctx = Ctx(prop=pid, tier=a.tier, seed=seed)
    level = getattr(mod, "LEVEL", "proof")

    # 1. regenerate translator-tied files, build, audit
    lean = {"obligations": 0, "discharged": 0, "broken": [], "theorems": {}, "checker_cmd": "(skipped)"}
    if not a.no_lean:
        try:
            if hasattr(mod, "regen"):
                mod.regen(ctx)
            lean = leanbuild.check_theorems(pid, mod.THEOREMS, getattr(mod, "EXTRA_TARGETS", None),
                                            leanchecker=ctx.thorough and getattr(mod, "LEANCHECKER", True))
        except Exception:
            print(f"INFRA-ERROR lean build: {traceback.format_exc(limit=4)}", file=sys.stderr)
            return 2
    ctx.lean_broken = lean["broken"]

    # 2. correspondence + direct oracle
    try:
        out: Outcome = mod.run(ctx)
    except Exception:
        print(f"INFRA-ERROR harness: {traceback.format_exc(limit=8)}", file=sys.stderr)
        return 2

    # witnesses of listed findings are replayed on every run (so each KNOWN-FINDING line is re-established
    # against the current tree, and disappears by itself once the defect is repaired)
    if hasattr(mod, "check_witness"):
        for k in core.load_known():
            if k.get("property") == pid and k.get("status") == "open" and "witness" in k:
                try:
                    v = mod.check_witness(k["witness"])
                except Exception:
                    v = None
                if v is not None:
                    out.violations.append(v)

    known_hit, new = split_known(pid, out.violations)
    for entry, v in known_hit:
        print(f"KNOWN-FINDING: property={pid} {entry.get('what', v.what)}")

    rc = 0
    # distinct new violations by signature
    seen = set()
    new.sort(key=lambda v: len(json.dumps(v.replay, default=str)))  # smallest replay per signature first
    MAX_LINES = 40  # one change can fail hundreds of cells of a lattice: report the 40 smallest, count the rest
    for v in new:
        if v.signature in seen:
            continue
        seen.add(v.signature)
        rc = 1
        if len(seen) > MAX_LINES:
            continue
        p = write_replay(pid, {"property": pid, "seed": seed, "tier": a.tier, "kind": "failing-input",
                               "signature": v.signature, "what": v.what, "replay": v.replay})
        print(f"VIOLATION property={pid} replay={p}")
    if len(seen) > MAX_LINES:
        print(f"({len(seen) - MAX_LINES} further distinct violation signatures of {pid} not listed)")
    if rc == 0 and (lean["broken"] or out.corr_breaks):
        payload = {"property": pid, "seed": seed, "tier": a.tier, "kind": "no-failing-input-found",
                   "broken_obligations": lean["broken"],
                   "broken_correspondence": [{"name": c.name, "detail": c.detail} for c in out.corr_breaks[:5]],
                   "note": "the property is no longer shown to hold: a proof obligation or the model/implementation "
                           "correspondence broke and the search found no input on which the property itself fails"}
        p = write_replay(pid, payload)
        print(f"VIOLATION property={pid} replay={p} no-failing-input-found")
        rc = 1

    # development runs without the Lean step, and runs against a patched scratch copy of the sources
    # (tools/seedmatrix.py, tools/mutant.sh set VERIF_NO_EVIDENCE), never overwrite the evidence
    if not a.no_lean and not os.environ.get("VERIF_NO_EVIDENCE"):
        write_evidence(pid, level, ctx, out, lean, len(seen) + (1 if rc and not seen else 0),
                       [e.get("signature") for e, _ in known_hit])
    dt = time.time() - ctx.t0
    print(f"[{pid}] tier={a.tier} seed={seed} evaluations={out.evaluations} nontrivial={len(out.nontrivial)} "
          f"theorems={lean['discharged']}/{lean['obligations']} corr_breaks={len(out.corr_breaks)} "
          f"violations={len(seen)} known={len(known_hit)} wall={dt:.1f}s -> exit {rc}")
    return rc


if __name__ == "__main__":
    sys.exit(main())
