"""Regenerate every translator-tied Lean file (MG/Gen/*.lean) from the current /repo (used by setup.sh)."""
import importlib

from .core import Ctx

for pid in ("C02", "C11"):
    m = importlib.import_module(f"harness.props.{pid.lower()}")
    if hasattr(m, "regen"):
        m.regen(Ctx(prop=pid, tier="quick", seed=0))
        print("regenerated for", pid)
