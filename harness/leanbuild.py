"""Build the Lean project, audit the axioms of the property theorems, run the model driver."""
from __future__ import annotations

import fcntl
import os
import re
import subprocess
import time
from pathlib import Path
from typing import Dict, List, Optional, Tuple

from .core import LEAN

ALLOWED_AXIOMS = {"propext", "Classical.choice", "Quot.sound"}
FORBIDDEN = re.compile(
    r"\bsorry\b|\badmit\b|^\s*axiom\s|native_decide|bv_decide|implemented_by|\bunsafe\s|maxHeartbeats\s+0\b",
    re.M,
)


class _Lock:
    def __enter__(self):
        (LEAN / ".lake").mkdir(exist_ok=True)
        self.f = open(LEAN / ".lake" / "verif.lock", "w")
        fcntl.flock(self.f, fcntl.LOCK_EX)
        return self

    def __exit__(self, *a):
        fcntl.flock(self.f, fcntl.LOCK_UN)
        self.f.close()


def _strip_comments(src: str) -> str:
    # block comments (possibly nested one level) and line comments
    out, depth, i = [], 0, 0
    while i < len(src):
        if src.startswith("/-", i):
            depth += 1
            i += 2
        elif src.startswith("-/", i) and depth:
            depth -= 1
            i += 2
        elif depth:
            if src[i] == "\n":
                out.append("\n")
            i += 1
        elif src.startswith("--", i):
            j = src.find("\n", i)
            i = len(src) if j < 0 else j
        else:
            out.append(src[i])
            i += 1
    return "".join(out)


def grep_forbidden() -> List[str]:
    hits = []
    for p in sorted((LEAN / "MG").rglob("*.lean")):
        txt = _strip_comments(p.read_text())
        # string literals may legitimately mention words
        txt = re.sub(r'"(?:[^"\\]|\\.)*"', '""', txt)
        for m in FORBIDDEN.finditer(txt):
            line = txt.count("\n", 0, m.start()) + 1
            hits.append(f"{p.relative_to(LEAN)}:{line}: {m.group(0).strip()}")
    return hits


def lake_build(targets: List[str], timeout: int = 3000) -> Tuple[bool, str]:
    r = subprocess.run(["lake", "build", *targets], cwd=LEAN, capture_output=True, text=True, timeout=timeout)
    return r.returncode == 0, (r.stdout + r.stderr)


def module_path(mod: str) -> Path:
    return LEAN / (mod.replace(".", "/") + ".lean")


def check_theorems(prop: str, theorems: Dict[str, List[str]], extra_targets: Optional[List[str]] = None,
                   leanchecker: bool = False) -> Dict:
    """Build every module in `theorems` (module -> theorem names) and audit each theorem's axioms.

    Returns {obligations, discharged, broken:[{theorem|module, reason, log}], theorems:{name:axioms}, checker_cmd}
    """
    t0 = time.time()
    res = {"obligations": 0, "discharged": 0, "broken": [], "theorems": {}, "checker_cmd": ""}
    mods = list(theorems)
    targets = mods + (extra_targets if extra_targets is not None else ["MG.Driver"])
    with _Lock():
        ok, log = lake_build(targets)
        built = {}
        if ok:
            built = {m: True for m in mods}
        else:
            # find out which modules built: try them one by one (cached results make this cheap)
            for m in mods:
                okm, logm = lake_build([m])
                built[m] = okm
                if not okm:
                    res["broken"].append({"module": m, "reason": "does not compile", "log": _errs(logm)})
            drv = extra_targets if extra_targets is not None else ["MG.Driver"]
            okd, logd = lake_build(drv)
            if not okd:
                res["broken"].append({"module": ",".join(drv), "reason": "does not compile", "log": _errs(logd)})
        names = []
        for m, ths in theorems.items():
            res["obligations"] += len(ths)
            if built.get(m):
                names += [(m, t) for t in ths]
            else:
                for t in ths:
                    res["theorems"][t] = "MODULE-BROKEN"
        if names:
            audit = LEAN / ".lake" / f"Audit_{prop}.lean"
            imports = sorted({m for m, _ in names})
            audit.write_text(
                "".join(f"import {m}\n" for m in imports) + "".join(f"#print axioms {t}\n" for _, t in names)
            )
            r = subprocess.run(["lake", "env", "lean", str(audit)], cwd=LEAN, capture_output=True, text=True,
                               timeout=1800)
            out = r.stdout + r.stderr
            for m, t in names:
                mm = re.search(r"'" + re.escape(t) + r"' depends on axioms: \[([^\]]*)\]", out, re.S)
                if mm:
                    axs = [a.strip() for a in mm.group(1).replace("\n", " ").split(",") if a.strip()]
                elif re.search(r"'" + re.escape(t) + r"' does not depend on any axioms", out):
                    axs = []
                else:
                    res["theorems"][t] = "MISSING"
                    res["broken"].append({"theorem": t, "reason": "theorem not found", "log": _errs(out)})
                    continue
                res["theorems"][t] = axs
                bad = [a for a in axs if a not in ALLOWED_AXIOMS]
                if bad:
                    res["broken"].append({"theorem": t, "reason": f"depends on non-standard axioms {bad}", "log": ""})
                else:
                    res["discharged"] += 1
        forb = grep_forbidden()
        if forb:
            res["broken"].append({"module": "*", "reason": "forbidden token in Lean sources", "log": "\n".join(forb)})
        if leanchecker and not res["broken"]:
            r = subprocess.run(["lake", "env", "leanchecker", *mods], cwd=LEAN, capture_output=True, text=True,
                               timeout=3000)
            res["leanchecker"] = {"modules": mods, "exit": r.returncode, "tail": (r.stdout + r.stderr)[-300:]}
            if r.returncode != 0:
                res["broken"].append({"module": ",".join(mods), "reason": "leanchecker rejected", "log": (r.stdout + r.stderr)[-2000:]})
    res["checker_cmd"] = (
        f"cd /verif/lean && lake build {' '.join(mods)} && lake env lean .lake/Audit_{prop}.lean  (#print axioms of "
        f"{res['obligations']} property theorems; allowed ⊆ {sorted(ALLOWED_AXIOMS)}); grep for sorry/axiom/native_decide"
        + ("; lake env leanchecker " + " ".join(mods) if leanchecker else "")
    )
    res["build_s"] = round(time.time() - t0, 1)
    return res


def _errs(log: str) -> str:
    lines = [l for l in log.splitlines() if "error" in l.lower() or l.startswith("  ")]
    return "\n".join(lines[:40])[:4000]


def run_driver(lines: List[str], timeout: int = 1200, driver: str = "MG/Driver.lean") -> List[str]:
    """Pipe statement lines through a Lean model driver; returns one observation line per input line.
    `driver` selects the entry file: MG/Driver.lean dispatches on every tag; MG/DriverEng.lean / MG/DriverCtx.lean
    import a single model (so that a check does not depend on models it does not use)."""
    inp = "\n".join(lines) + "\n"
    cmd = ["lake", "env", "lean", "--run", driver]
    r = subprocess.run(cmd, cwd=LEAN, input=inp, capture_output=True, text=True, timeout=timeout)
    if r.returncode != 0:
        raise RuntimeError("Lean driver failed: " + (r.stderr or r.stdout)[-2000:])
    out = r.stdout.splitlines()
    if len(out) != len(lines):
        raise RuntimeError(f"driver produced {len(out)} lines for {len(lines)} inputs: {r.stderr[-500:]}")
    return out
