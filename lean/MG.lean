-- Root of the `MG` library: models (Core), generated files (Gen) and proofs (Proofs).
import MG.Core.Ctx
import MG.Core.Dtype
import MG.Core.Nnet
import MG.Core.Lock
import MG.Core.Linear
