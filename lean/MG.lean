-- Root of the `MG` library: models (Core), generated files (Gen) and proofs (Proofs).
import MG.Core.Ctx
