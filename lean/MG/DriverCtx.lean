import MG.IO.CtxIO
/-! Driver for the context-manager model alone (tag `ctx`). -/
open MG

def stepCtx (d : Ctx.State) (line : String) : Ctx.State × String :=
  match (line.trimAscii.toString.splitOn " ").filter (· ≠ "") with
  | "ctx" :: rest => Ctx.handle d rest
  | _ => (d, "bad-op")

partial def loopCtx (h : IO.FS.Stream) (out : IO.FS.Stream) (d : Ctx.State) : IO Unit := do
  let line ← h.getLine
  if line.isEmpty then return ()
  let (d', o) := stepCtx d line
  out.putStrLn o
  loopCtx h out d'

def main : IO Unit := do
  loopCtx (← IO.getStdin) (← IO.getStdout) Ctx.init
