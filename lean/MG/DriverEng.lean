import MG.IO.EngIO
/-! Driver for the engine model alone (tag `eng`): `lake env lean --run MG/DriverEng.lean`. -/
open MG

def stepEng (d : Eng.DS) (line : String) : Eng.DS × String :=
  match (line.trimAscii.toString.splitOn " ").filter (· ≠ "") with
  | "eng" :: rest => Eng.handle d rest
  | _ => (d, "bad-op")

partial def loopEng (h : IO.FS.Stream) (out : IO.FS.Stream) (d : Eng.DS) : IO Unit := do
  let line ← h.getLine
  if line.isEmpty then return ()
  let (d', o) := stepEng d line
  out.putStrLn o
  loopEng h out d'

def main : IO Unit := do
  loopEng (← IO.getStdin) (← IO.getStdout) {}
