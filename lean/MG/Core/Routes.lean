/-!
# Dispatch routes (C11)

Types of the table `MG/Gen/Tables.lean`, which `harness/props/c11.py` records from /repo on every run with a spy
around `Tensor._op` / `Tensor._in_place_op` (src/mygrad/tensor_base.py:1022-1212, 1588-1845), and the executable
checkers the C11 theorems are proved with.  Import-free.

A *route* is what one public spelling of a mathematical operation reaches: the sequence of outermost
`_op` / `_in_place_op` calls, each with its `Operation` class, the operands it received (as a permutation of the
spelling's own operands), the normalised options (arguments of `Operation.__call__` that differ from their
defaults) and whether in-place semantics were used.  Names are indices into the generated name tables.
-/

namespace MG.Routes

/-- how the operation was spelled -/
inductive Kind where
  | mgFunction | npFunction | npUfunc | ufuncOutTensor | ufuncOutNdarray | ufuncWhere | ufuncDtype
  | method | operator | reflectedOperator | augmentedOperator
  deriving DecidableEq, Repr, Inhabited

/-- an operand of a recorded call -/
inductive Arg where
  | arg (i : Nat)        -- the i-th operand of the spelling (identity-tracked)
  | lit (milli : Int)    -- a Python number, in thousandths
  | result (k : Nat)     -- the tensor returned by the k-th earlier call of the same route
  | other (id : Nat)     -- anything else (index into `otherNames`)
  deriving DecidableEq, Repr, Inhabited

/-- target class, operands, normalised options -/
structure CallSig where
  target : Nat
  operands : List Arg
  options : List Nat
  deriving DecidableEq, Repr, Inhabited

structure Call where
  sig : CallSig
  inPlace : Bool
  deriving DecidableEq, Repr, Inhabited

structure Route where
  op : Nat        -- mathematical operation incl. its option variant (index into `opNames`)
  probe : Nat     -- operand classes (index into `probeNames`)
  form : Nat      -- index into `formNames` (plain, in-place, out=, where=, dtype= and their combinations)
  kind : Kind
  spelling : Nat  -- index into `spellingNames`
  calls : List Call
  deriving DecidableEq, Repr, Inhabited

/-- same mathematical operation on the same operand classes in the same form -/
def Route.key (r : Route) : Nat := (r.op * 128 + r.probe) * 16 + r.form
/-- same mathematical operation on the same operand classes (any form) -/
def Route.opKey (r : Route) : Nat := r.op * 128 + r.probe

def Route.bounded (r : Route) : Bool := decide (r.probe < 128) && decide (r.form < 16)

def Route.sigs (r : Route) : List CallSig := r.calls.map (·.sig)
def Route.flags (r : Route) : List Bool := r.calls.map (·.inPlace)
/-- targets and operand permutations only -/
def Route.shape (r : Route) : List (Nat × List Arg) := r.calls.map fun c => (c.sig.target, c.sig.operands)

/-- rewrite a call sequence to its canonical representative under a list of proved equivalences `(s, canonical)` -/
def normWith {α : Type} [DecidableEq α] (eqv : List (α × α)) (s : α) : α :=
  match eqv.find? (fun p => decide (p.1 = s)) with
  | some p => p.2
  | none => s

/-- every member agrees with the first one on key `k` and on `f` -/
def starOK {β : Type} [DecidableEq β] (k : Route → Nat) (f : Route → β) : List Route → Bool
  | [] => false
  | r0 :: rs => rs.all fun r => decide (k r = k r0) && decide (f r = f r0)

def gkey (k : Route → Nat) : List Route → Nat
  | [] => 0
  | r0 :: _ => k r0

def strictInc : List Nat → Bool
  | a :: b :: t => decide (a < b) && strictInc (b :: t)
  | _ => true

/-- the whole check of a grouped table -/
def tableOK {β : Type} [DecidableEq β] (k : Route → Nat) (f : Route → β) (gs : List (List Route)) : Bool :=
  gs.all (starOK k f) && strictInc (gs.map (gkey k))

end MG.Routes
