/-!
# Save / load model (C18)

Model of `mygrad._io.save` / `mygrad._io.load` (src/mygrad/_io.py:11-125) together with the parts of
`Tensor` they touch:

* the `.grad` property getter (src/mygrad/tensor_base.py:861-953) — for a view it may fill the
  `_view_grad` cache, which is the only state `save` can write; a view of a constant base owns its gradient,
  a constant view of a non-constant base has none;
* `tensor(arr)` / `Tensor.__init__` (tensor_base.py:167-270, 749-859): dtype and shape are those of
  the array, `constant` defaults to `not is_float`;
* `Tensor.backward(grad)` on a tensor without a creator (tensor_base.py:1232-1340): a constant
  tensor only clears its graph and returns (no gradient is stored); otherwise the seed is
  `asarray(grad, dtype=self.dtype)`, broadcast to `self.shape` when the shapes differ
  (`ValueError` when that is impossible or when the broadcast is mutual), stored in `_grad`.

`np.savez` / `np.load` are trusted to return the arrays they were given (values, shape, dtype).

Values are exact integers: the harness only draws data that every dtype of the grid represents
exactly (|v| ≤ 100, non-negative for unsigned/bool), so `asarray(·, dtype=…)` between float dtypes
changes the dtype tag and nothing else.

Import-free, total and executable (run by `MG/Driver.lean` against the implementation).
-/

namespace MG.SaveLoad

inductive DType where
  | bool | i8 | i16 | i32 | i64 | u8 | u16 | u32 | u64 | f16 | f32 | f64
  deriving DecidableEq, Repr, Inhabited

/-- `issubclass(dtype.type, np.floating)` -/
def DType.isFloat : DType → Bool
  | .f16 | .f32 | .f64 => true
  | _ => false

/-- an `ndarray`: row-major values, shape, dtype -/
structure Arr where
  vals : List Int
  shape : List Nat
  dtype : DType
  deriving DecidableEq, Repr, Inhabited

/-- what a view knows about its base (`self._base`, `self._creator.variables`) -/
structure ViewLink where
  /-- identity stamp of the array `self._base._grad` (`none` when it is `None`) -/
  baseGrad : Option Nat
  /-- `self._replay_op(view_parent.grad).data` — the view of the parent's gradient (`none` when the
      parent's `.grad` is `None`) -/
  replayed : Option Arr
  /-- `self._base._constant` -/
  baseConstant : Bool
  deriving DecidableEq, Repr, Inhabited

structure Tensor where
  data : Arr                       -- `.data`
  constant : Bool                  -- `._constant`
  grad_ : Option Arr               -- `._grad`
  base : Option ViewLink           -- `._base` (`none` ⇔ `_base is None`)
  /-- `._view_grad` together with the identity stamp of `._view_grad.base` -/
  viewGrad : Option (Arr × Nat)
  creator : Option Nat             -- `._creator` (identity stamp of the Operation instance)
  ops : List Nat                   -- `._ops` (consumers)
  writeable : Bool                 -- `.data.flags.writeable`
  deriving DecidableEq, Repr, Inhabited

/-- The `.grad` property getter (tensor_base.py:930-953): returns the possibly updated tensor (the
    `_view_grad` cache) and the value read. -/
def Tensor.readGrad (t : Tensor) : Tensor × Option Arr :=
  match t.base with
  | none => (t, t.grad_)
  | some b =>
    if b.baseConstant then (t, t.grad_)   -- a non-constant view of a constant base owns its gradient
    else if t.constant then (t, none)     -- a constant view never has a gradient
    else
    let slow : Tensor × Option Arr :=
      match b.baseGrad, t.creator with
      | some s, some _ => ({ t with viewGrad := b.replayed.map (·, s) }, b.replayed)
      | _, _ => (t, none)
    match t.viewGrad, b.baseGrad with
    | some (g, s), some s' => if s = s' then (t, some g) else slow
    | _, _ => slow

/-- the value `.grad` shows -/
def Tensor.gradProp (t : Tensor) : Option Arr := t.readGrad.2

/-- the `.npz` archive: key `data` and, iff the gradient is not `None`, key `grad` -/
structure Archive where
  data : Arr
  grad : Option Arr
  deriving DecidableEq, Repr, Inhabited

/-- `mygrad.save` (_io.py:58-66): reads `tensor.grad` (a property with a cache side effect) and writes
    `np.savez(file, data=tensor.data[, grad=tensor.grad])`.  Returns the tensor afterwards and the archive. -/
def save (t : Tensor) : Tensor × Archive :=
  let (t', g) := t.readGrad
  (t', { data := t.data, grad := g })

/-- `tensor(arr)` with defaults: constant = not float, no gradient, no graph -/
def mkTensor (a : Arr) : Tensor :=
  { data := a, constant := !a.dtype.isFloat, grad_ := none, base := none, viewGrad := none,
    creator := none, ops := [], writeable := true }

inductive Err where
  | valueError
  deriving DecidableEq, Repr, Inhabited

def prod (l : List Nat) : Nat := l.foldr (· * ·) 1

/-- multi-index of flat position `k` in a row-major array of shape `shape` -/
def unravel : List Nat → Nat → List Nat
  | [], _ => []
  | d :: ds, k => (k / prod ds) % d :: unravel ds k

def ravel : List Nat → List Nat → Nat
  | _ :: ds, i :: is => i * prod ds + ravel ds is
  | _, _ => 0

/-- `gs` broadcasts *to* `ts` (right-aligned; every source axis equals the target axis or is 1).
    A mutual broadcast (result shape ≠ `ts`) is rejected, as `backward` does. -/
def broadcastsTo (gs ts : List Nat) : Bool :=
  gs.length ≤ ts.length &&
    (List.zip gs (ts.drop (ts.length - gs.length))).all fun (g, t) => g == t || g == 1

/-- `np.multiply(np.full_like(self.data, 1.0), grad)` when it has shape `ts` -/
def broadcastTo (vals : List Int) (gs ts : List Nat) : Option (List Int) :=
  if broadcastsTo gs ts then
    some ((List.range (prod ts)).map fun k =>
      let idx := (unravel ts k).drop (ts.length - gs.length)
      let gi := List.zipWith (fun d i => if d = 1 then 0 else i) gs idx
      vals.getD (ravel gs gi) 0)
  else none

/-- `Tensor.clear_graph` on a tensor without a base (tensor_base.py:1482-1498) -/
def clearGraph (t : Tensor) : Tensor := { t with ops := [], creator := none }

/-- `Tensor.backward(grad)` for a creator-less, base-less tensor (tensor_base.py:1294-1340) -/
def backwardSeed (t : Tensor) (g : Arr) : Except Err Tensor :=
  if t.constant then .ok (clearGraph t)
  else
    -- `asarray(grad, dtype=self.dtype)`
    let g' : Arr := { g with dtype := t.data.dtype }
    if g'.shape = t.data.shape then .ok (clearGraph { t with grad_ := some g' })
    else
      match broadcastTo g'.vals g'.shape t.data.shape with
      | some v => .ok (clearGraph { t with grad_ := some ⟨v, t.data.shape, t.data.dtype⟩ })
      | none => .error .valueError

/-- `mygrad.load` (_io.py:117-125) -/
def load (a : Archive) : Except Err Tensor :=
  let t := mkTensor a.data
  match a.grad with
  | none => .ok t
  | some g => backwardSeed t g

end MG.SaveLoad
