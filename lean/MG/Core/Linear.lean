/-!
# Linear index arithmetic shared by the structured stratum of C02 (import-free, executable)

Flat (C-order) vectors are `List α` over any carrier with `+`, `*`, `0` (`Int` in the driver, any
commutative semiring in the theorems of `MG/Proofs/C02Struct.lean`).  A non-element-wise MyGrad
operation is, for a fixed configuration, one of

* a **gather** `out[j] = x[φ j]` (transpose, reshape, getitem, concatenate, repeat, broadcast_to …) —
  its VJP is `scatterAdd φ` (what `np.add.at` / slicing / `reshape` / `transpose(argsort axes)` compute);
* a **linear map** `out = A x` (sum, cumsum, matmul/einsum/conv with the other operand fixed …) —
  its VJP is `Aᵀ g`;
* followed by the shared tail of `Operation.backward` (`/repo/src/mygrad/operation_base.py:210-214`):
  multiplication by the `where` mask and `reduce_broadcast` (`/repo/src/mygrad/_utils/__init__.py:131-168`).

The harness recovers `φ` / `A` from the *real* forward pass and compares the *real* backward pass with
`scatterAdd` / `applyMatT` below (exactly, on integer data).
-/
namespace MG.Lin

variable {α : Type} [Add α] [Mul α] [Zero α]

/-- `⟨a, b⟩`, truncating to the shorter list -/
def dot : List α → List α → α
  | a :: as, b :: bs => a * b + dot as bs
  | _, _ => 0

def zeros (n : Nat) : List α := List.replicate n 0

def vadd (a b : List α) : List α := List.zipWith (· + ·) a b

def smul (c : α) (a : List α) : List α := a.map (c * ·)

def vsum : List α → α
  | [] => 0
  | a :: l => a + vsum l

/-! ## gather / scatter -/

/-- `out[j] = x[φ j]` -/
def gather (φ : List Nat) (x : List α) : List α := φ.map (fun i => x.getD i 0)

/-- `acc[i] += v` (no-op when `i` is out of range; the driver rejects that case) -/
def addAt : List α → Nat → α → List α
  | [], _, _ => []
  | a :: as, 0, v => (a + v) :: as
  | a :: as, i + 1, v => a :: addAt as i v

/-- `np.add.at(acc, φ, g)`: duplicates accumulate -/
def scatterAddInto (acc : List α) : List Nat → List α → List α
  | i :: φ, v :: g => scatterAddInto (addAt acc i v) φ g
  | _, _ => acc

/-- zeros of length `n`, then `out[φ j] += g[j]` for every `j` -/
def scatterAdd (φ : List Nat) (n : Nat) (g : List α) : List α := scatterAddInto (zeros n) φ g

/-! ## dense matrices (list of rows) -/

def applyMat (A : List (List α)) (x : List α) : List α := A.map (fun row => dot row x)

def applyMatTInto (acc : List α) : List (List α) → List α → List α
  | row :: A, gi :: g => applyMatTInto (vadd acc (smul gi row)) A g
  | _, _ => acc

/-- `Aᵀ g = Σ_i g_i • row_i` (rows have length `n`) -/
def applyMatT (A : List (List α)) (n : Nat) (g : List α) : List α := applyMatTInto (zeros n) A g

/-! ## masks (`where=`, `Where`, `ApplyMask`) -/

def maskMul : List Bool → List α → List α
  | b :: m, v :: y => (if b then v else 0) :: maskMul m y
  | _, _ => []

/-- `np.where(m, y, c)` -/
def select : List Bool → List α → List α → List α
  | b :: m, v :: y, w :: c => (if b then v else w) :: select m y c
  | _, _, _ => []

def notMask (m : List Bool) : List Bool := m.map (!·)

/-! ## set-item (`/repo/src/mygrad/_tensor_core_ops/indexing.py:108-210`)

`a[idx] = b` on flat positions, executed left to right: the last write to a position wins. -/

def setitem (a : List α) : List Nat → List α → List α
  | i :: is, v :: vs => setitem (a.set i v) is vs
  | _, _ => a

/-- VJP w.r.t. the old contents: `grad = copy(grad); grad[index] = 0` -/
def zeroAt (g : List α) : List Nat → List α
  | i :: is => zeroAt (g.set i 0) is
  | [] => g

/-- VJP w.r.t. the value when repeated positions are recognised: `grad[index]` masked to the last
write of every position (`np.unique(np.flip(sub_sel), return_index=True)` in the source) -/
def winCoef (g : List α) : List Nat → List α
  | i :: is => (if is.contains i then 0 else g.getD i 0) :: winCoef g is
  | [] => []

/-- What `SetItem.backward_var(grad, 1)` computes.  `recognised` is the outcome of the guard
`_is_int_array_index(self.index)` for an index that does contain an integer array: when the guard
misses it (`false`) the de-duplication is skipped and the value receives `grad[index]`.  Until commit
00e4546 of /repo the guard was `np.issubdtype(dtype, np.int_)`, i.e. `false` for every integer dtype
other than the platform `int64` (finding F1); since then it is `np.integer`, i.e. always `true`. -/
def setitemBwdValue (recognised : Bool) (g : List α) (idx : List Nat) : List α :=
  if recognised then winCoef g idx else gather idx g

/-! ## cumulative sum (`CumSum`, `_reverse_cumsum`) -/

def cumsum : List α → List α
  | [] => []
  | a :: l => a :: (cumsum l).map (a + ·)

/-- `np.flip(np.cumsum(np.flip(g)))` -/
def rcumsum (g : List α) : List α := (cumsum g.reverse).reverse

/-- suffix sums `out[i] = Σ_{j ≥ i} g[j]` -/
def suffixSums : List α → List α
  | [] => []
  | a :: l => (a + vsum l) :: suffixSums l

/-! ## permutations of axes (`Transpose.backward_var`: `grad.transpose(np.argsort(self.axes))`) -/

/-- `tuple(axis % ndim for axis in axes)` -/
def normAxes (ndim : Nat) (axes : List Int) : List Nat := axes.map (fun a => (a % (ndim : Int)).toNat)

/-- `np.argsort(p)` for a duplicate-free `p`: position of `i` in `p` -/
def argsort (p : List Nat) : List Nat := (List.range p.length).map (fun i => p.idxOf i)

/-! ## broadcasting and `reduce_broadcast` -/

def size (s : List Nat) : Nat := s.foldr (· * ·) 1

/-- flat C-order index map of `np.broadcast_to(x.reshape(vs), gs)` for shapes of equal rank:
entry `k` is the flat position in shape `vs` that position `k` of shape `gs` reads -/
def bidxSame : List Nat → List Nat → List Nat
  | v :: vs, g :: gs =>
    if v = g then (List.range g).flatMap (fun o => (bidxSame vs gs).map (· + o * size vs))
    else (List.range g).flatMap (fun _ => bidxSame vs gs)
  | _, _ => [0]

/-- index map for shapes of any rank `vs.length ≤ gs.length` (leading axes are new) -/
def bidx (vs gs : List Nat) : List Nat :=
  let k := gs.length - vs.length
  (List.range (size (gs.take k))).flatMap (fun _ => bidxSame vs (gs.drop k))

/-- `k` consecutive chunks of length `m` -/
def chunks (m : Nat) : Nat → List α → List (List α)
  | 0, _ => []
  | k + 1, l => l.take m :: chunks m k (l.drop m)

/-- sum over the leading axis of a `(k, m)`-shaped flat array -/
def sumChunks (m k : Nat) (l : List α) : List α := (chunks m k l).foldl vadd (zeros m)

/-- `grad.sum(axis=keepdims, keepdims=True)` over the axes on which the shapes differ (equal rank) -/
def rsumSame : List Nat → List Nat → List α → List α
  | v :: vs, g :: gs, y =>
    if v = g then (chunks (size gs) g y).flatMap (rsumSame vs gs)
    else rsumSame vs gs (sumChunks (size gs) g y)
  | _, _, y => y

/-- `reduce_broadcast(grad, var_shape)`; `none` is the `ValueError` branch (gradient of lower rank) -/
def reduceBroadcast (vs gs : List Nat) (y : List α) : Option (List α) :=
  if gs = vs then some y
  else if gs.length < vs.length then none
  else
    let k := gs.length - vs.length
    let rest := gs.drop k
    some (rsumSame vs rest (if k = 0 then y else sumChunks (size rest) (size (gs.take k)) y))

/-- the two shapes are broadcast-compatible (`vs` broadcasts to `gs`) -/
def compatSame : List Nat → List Nat → Bool
  | v :: vs, g :: gs => (v = g || v = 1) && compatSame vs gs
  | [], [] => true
  | _, _ => false

def compat (vs gs : List Nat) : Bool :=
  vs.length ≤ gs.length && compatSame vs (gs.drop (gs.length - vs.length))

end MG.Lin
