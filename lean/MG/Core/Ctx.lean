/-!
# M6 — the three re-entrant context managers over two module globals

Model of `mygrad._utils.ContextTracker` (`__enter__`, `__exit__`, `__call__`) and its three
instances `no_autodiff` (controls `TRACK_GRAPH`), `mem_guard_on`, `mem_guard_off` (both control
`MEM_GUARD`), plus `turn_memory_guarding_on/off`.

Import-free, total and executable: it is run by `MG/Driver.lean` against the implementation.
-/

namespace MG.Ctx

/-- the three manager objects -/
inductive Mgr where
  | noAutodiff | guardOn | guardOff
  deriving DecidableEq, Repr, Inhabited

/-- per-manager bookkeeping: `_depth` and `_depth_tracker` (a dict `depth ↦ state`) -/
structure MState where
  depth : Nat
  tracker : List (Nat × Bool)
  deriving DecidableEq, Repr, Inhabited

structure State where
  track : Bool           -- `graph_tracking.TRACK_GRAPH`
  guard : Bool           -- `lock_management.MEM_GUARD`
  na  : MState           -- `no_autodiff`
  gon : MState           -- `mem_guard_on`
  goff : MState          -- `mem_guard_off`
  deriving DecidableEq, Repr, Inhabited

def init : State :=
  { track := true, guard := true, na := ⟨0, []⟩, gon := ⟨0, []⟩, goff := ⟨0, []⟩ }

/-- `_enter_set_value` -/
def Mgr.enterVal : Mgr → Bool
  | .noAutodiff => false
  | .guardOn => true
  | .guardOff => false

/-- the `state` property getter -/
def getG (s : State) : Mgr → Bool
  | .noAutodiff => s.track
  | _ => s.guard

/-- the `state` property setter -/
def setG (s : State) (m : Mgr) (v : Bool) : State :=
  match m with
  | .noAutodiff => { s with track := v }
  | _ => { s with guard := v }

def getM (s : State) : Mgr → MState
  | .noAutodiff => s.na
  | .guardOn => s.gon
  | .guardOff => s.goff

def setM (s : State) (m : Mgr) (x : MState) : State :=
  match m with
  | .noAutodiff => { s with na := x }
  | .guardOn => { s with gon := x }
  | .guardOff => { s with goff := x }

/-- dict erase -/
def erase (k : Nat) : List (Nat × Bool) → List (Nat × Bool)
  | [] => []
  | (k', v) :: l => if k' = k then erase k l else (k', v) :: erase k l

/-- dict lookup -/
def lookup (k : Nat) : List (Nat × Bool) → Option Bool
  | [] => none
  | (k', v) :: l => if k' = k then some v else lookup k l

/-- `__enter__`: `tracker[depth] = state; depth += 1; state = enter_set_value` -/
def enter (s : State) (m : Mgr) : State :=
  let ms := getM s m
  let ms' : MState := ⟨ms.depth + 1, (ms.depth, getG s m) :: erase ms.depth ms.tracker⟩
  setG (setM s m ms') m m.enterVal

/-- `__exit__`: `depth -= 1; state = tracker.pop(depth)`.  `none` models the `KeyError`
(or negative depth) an unmatched exit produces; the real code raises there. -/
def exit (s : State) (m : Mgr) : Option State :=
  let ms := getM s m
  match ms.depth with
  | 0 => none
  | d + 1 =>
    match lookup d ms.tracker with
    | none => none
    | some v => some (setG (setM s m ⟨d, erase d ms.tracker⟩) m v)

/-- `turn_memory_guarding_on()` / `turn_memory_guarding_off()` -/
def turn (s : State) (v : Bool) : State := { s with guard := v }

/-- Well-nested programs: a block is a list of items; `scope m b` is `with m: b` or a call of a
function decorated with `m` whose body is `b` (the decorator is literally `with self:`);
`raise` throws an exception that nobody catches inside the word. -/
inductive Item where
  | scope (m : Mgr) (body : List Item)
  | turn (v : Bool)
  | raise
  | nop                 -- any statement that does not touch the switches
  deriving Repr, Inhabited

mutual
/-- run one item; the `Bool` says whether an exception is propagating -/
def runItem (s : State) : Item → Option (State × Bool)
  | .scope m body =>
    match runBlock (enter s m) body with
    | none => none
    | some (s', exc) =>
      -- `with` calls `__exit__` whether or not the body raised
      match exit s' m with
      | none => none
      | some s'' => some (s'', exc)
  | .turn v => some (turn s v, false)
  | .raise => some (s, true)
  | .nop => some (s, false)
/-- run a block, stopping at the first exception -/
def runBlock (s : State) : List Item → Option (State × Bool)
  | [] => some (s, false)
  | i :: is =>
    match runItem s i with
    | none => none
    | some (s', true) => some (s', true)
    | some (s', false) => runBlock s' is
end

mutual
/-- no `turn` anywhere inside -/
def Item.turnFree : Item → Bool
  | .scope _ body => blockTurnFree body
  | .turn _ => false
  | _ => true
def blockTurnFree : List Item → Bool
  | [] => true
  | i :: is => i.turnFree && blockTurnFree is
end

end MG.Ctx
