import MG.Core.NDIndex
/-!
# M2 + M3 — a small NumPy heap and MyGrad's graph engine over it

Mirrors `Tensor._op`, `Tensor.backward`, `Operation.backward`,
`collect_all_tensors_and_clear_grads`, `Tensor.clear_graph`, `Tensor.null_grad` and the `.grad`
property of `/repo/src/mygrad/tensor_base.py`, `operation_base.py`, `_utils/__init__.py`, for the
integer-closed fragment of the API (values are exact `Int`s; the implementation runs the same
programs on small integers held in float64).

Python object identity is modelled by ids: a tensor id *is* the Python `Tensor` object; buffers
are NumPy memory blocks; an `Arr` is an ndarray object (buffer + strided window).
-/

namespace MG.Eng
open MG.ND

/-- logical array value: shape and C-order elements -/
abbrev Val := Shape × List Int

inductive Err where
  | valueError | indexError | typeError | invalidBackprop | assertion | recursion | other
  | unmodelled   -- the model declines: behaviour outside the modelled fragment (the harness stops comparing)
  deriving DecidableEq, Repr, Inhabited

def Err.name : Err → String
  | .valueError => "ValueError" | .indexError => "IndexError" | .typeError => "TypeError"
  | .invalidBackprop => "InvalidBackprop" | .assertion => "AssertionError"
  | .recursion => "RecursionError" | .other => "Other" | .unmodelled => "UNMODELLED"

/-- an ndarray object: a window into a buffer -/
structure Arr where
  buf : Nat
  d : Desc
  deriving DecidableEq, Repr, Inhabited

/-- view-producing operations together with their replay arguments -/
inductive ViewFn where
  | getitem (ix : List Ix)
  | reshape (target : List Int)
  | transpose (axes : List Nat)
  | tprop
  | expand (ax : Nat)
  | squeeze (ax : Nat)
  | broadcastTo (sh : Shape)
  deriving DecidableEq, Repr, Inhabited

/-- keys of `x[key] = v` -/
inductive SetKey where
  | basic (ix : List Ix)
  | arr (idx : List Int)            -- one 1-D integer array on axis 0 (repeats allowed)
  | mask (m : List Bool)            -- one boolean array of x's shape
  deriving DecidableEq, Repr, Inhabited

inductive Kind where
  | add | sub | mul | neg | pos | square
  | sum (axis : Option Int) (keepdims : Bool)   -- axis may be negative, as passed by the caller
  | view (f : ViewFn)
  | takeArr (idx : List Int)        -- `x[int_array]` (GetItem that copies)
  | setitem (key : SetKey)
  | unview (chain : List ViewFn) (layout : List Int)
  | applyMask (mask : Shape × List Bool)
  deriving DecidableEq, Repr, Inhabited

structure OpRec where
  kind : Kind
  vars : List Nat
  /-- the `where=` mask of a ufunc (`Operation.where`); `none` = `True` -/
  whereMask : Option (Shape × List Bool) := none
  /-- `replay_force_constant` -/
  forceConst : Option Bool := none
  deriving Repr, Inhabited

structure Tens where
  data : Arr
  const : Bool
  grad : Option Val := none         -- `_grad`
  gradObj : Nat := 0                -- identity of the ndarray object held in `_grad`
  viewGrad : Option (Val × Nat) := none  -- `_view_grad` and the identity of the array it is a view of
  creator : Option Nat := none      -- `_creator`
  ops : List Nat := []              -- `_ops` (weak set of consumers; emptiness is what matters)
  base : Option Nat := none         -- `_base`
  vchildren : List Nat := []        -- `_view_children` (weak)
  deriving Repr, Inhabited

structure Heap where
  tens : List (Nat × Tens) := []
  ops : List (Nat × OpRec) := []
  bufs : List (Nat × List Int) := []
  next : Nat := 0
  /-- buffers of arrays that are natively read-only (`arr.flags.writeable = False` set by the caller) -/
  ro : List Nat := []
  deriving Repr, Inhabited

/-! ## assoc helpers -/

def lookup {α} (k : Nat) : List (Nat × α) → Option α
  | [] => none
  | (k', v) :: l => if k' = k then some v else lookup k l

def insert {α} (k : Nat) (v : α) : List (Nat × α) → List (Nat × α)
  | [] => [(k, v)]
  | (k', v') :: l => if k' = k then (k, v) :: l else (k', v') :: insert k v l

def Heap.t? (h : Heap) (i : Nat) : Option Tens := lookup i h.tens
def Heap.t (h : Heap) (i : Nat) : Tens := (lookup i h.tens).getD default
def Heap.op (h : Heap) (i : Nat) : OpRec := (lookup i h.ops).getD default
def Heap.setT (h : Heap) (i : Nat) (t : Tens) : Heap := { h with tens := insert i t h.tens }
def Heap.modT (h : Heap) (i : Nat) (f : Tens → Tens) : Heap := h.setT i (f (h.t i))
def Heap.setOp (h : Heap) (i : Nat) (o : OpRec) : Heap := { h with ops := insert i o h.ops }
def Heap.fresh (h : Heap) : Heap × Nat := ({ h with next := h.next + 1 }, h.next)

def Heap.buf (h : Heap) (b : Nat) : List Int := (lookup b h.bufs).getD []

def Heap.read (h : Heap) (a : Arr) : List Int :=
  let b := h.buf a.buf
  a.d.positions.map fun p => b.getD p 0

def Heap.val (h : Heap) (a : Arr) : Val := (a.d.shape, h.read a)

/-- write values (in logical order) through a window; later writes win -/
def Heap.write (h : Heap) (a : Arr) (vals : List Int) : Heap :=
  let b := h.buf a.buf
  let b' := (List.zip a.d.positions vals).foldl (fun b (p, v) => b.set p v) b
  { h with bufs := insert a.buf b' h.bufs }

def Heap.newArr (h : Heap) (v : Val) : Heap × Arr :=
  let (h, b) := h.fresh
  ({ h with bufs := insert b v.2 h.bufs }, ⟨b, Desc.contig 0 v.1⟩)

/-- a fresh owning array holding `v` with the given (dense) strides -/
def Heap.newArrStrided (h : Heap) (strides : List Int) (v : Val) : Heap × Arr :=
  let (h, b) := h.fresh
  let a : Arr := ⟨b, ⟨0, v.1, strides⟩⟩
  let h := { h with bufs := insert b (List.replicate (size v.1) 0) h.bufs }
  (h.write a v.2, a)

/-- a fresh F-ordered (column-major) array, e.g. `np.asfortranarray(x)` -/
def Heap.newArrF (h : Heap) (v : Val) : Heap × Arr :=
  h.newArrStrided ((fstrides v.1).map Int.ofNat) v

/-- `arr.copy()` / `np.copy(arr, order='K')`: a fresh array with the values and memory *layout* of `a` -/
def Heap.copyArrK (h : Heap) (a : Arr) : Heap × Arr :=
  if a.d.isCContig then h.newArr (h.val a)
  else h.newArrStrided (korderStrides a.d.shape a.d.strides) (h.val a)

/-! ## element-wise kernels with broadcasting -/

def zipB (f : Int → Int → Int) (a b : Val) : Except Err Val :=
  match broadcastShapes a.1 b.1 with
  | none => .error .valueError
  | some sh =>
    let ia := broadcastIndex a.1 sh
    let ib := broadcastIndex b.1 sh
    .ok (sh, (List.zip ia ib).map fun (i, j) => f (a.2.getD i 0) (b.2.getD j 0))

def broadcastVal (a : Val) (sh : Shape) : Except Err Val :=
  if broadcastableTo a.1 sh then .ok (sh, (broadcastIndex a.1 sh).map fun i => a.2.getD i 0)
  else .error .valueError

def broadcastMask (m : Shape × List Bool) (sh : Shape) : Except Err (List Bool) :=
  if broadcastableTo m.1 sh then .ok ((broadcastIndex m.1 sh).map fun i => m.2.getD i false)
  else .error .valueError

def zerosV (sh : Shape) : Val := (sh, List.replicate (size sh) 0)

/-- `zeros(n)` then add `g[j]` at `φ[j]` (duplicates accumulate: `np.add.at` / distinct `+=`) -/
def scatterAdd (φ : List Nat) (n : Nat) (g : List Int) : List Int :=
  (List.zip φ g).foldl (fun acc (p, v) => acc.set p (acc.getD p 0 + v)) (List.replicate n 0)

def gather (φ : List Nat) (x : List Int) : List Int := φ.map fun p => x.getD p 0

/-! ## view functions on descriptors -/

def ixErr : IxErr → Err
  | .indexError => .indexError
  | .valueError => .valueError

/-- apply a view op to a window.  Returns the resulting window and whether NumPy returns a *view*
(`true`) or has to copy (`false`: a `reshape` of a non-mergeable layout, or an all-integer index that
yields a NumPy scalar).  For a copying `reshape` the returned window is only a shape carrier. -/
def ViewFn.apply (f : ViewFn) (d : Desc) : Except Err (Desc × Bool) :=
  match f with
  | .getitem ix => match d.index ix with
    | .ok d' =>
      -- an all-integer index that consumes every axis yields a NumPy *scalar* (a copy), not a view
      .ok (d', !(ix.length = d.shape.length ∧ ix.all (fun | .int _ => true | _ => false)))
    | .error e => .error (ixErr e)
  | .reshape target =>
    match resolveShape (size d.shape) target with
    | none => .error .valueError
    | some sh =>
      if size sh = 0 then .ok (Desc.contig d.off sh, true)
      else match d.reshapeNoCopy sh with
        | some d' => .ok (d', true)
        | none => .ok (Desc.contig 0 sh, false)
  | .transpose axes => match d.transpose axes with
    | some d' => .ok (d', true)
    | none => .error .valueError
  | .tprop => .ok (d.T, true)
  | .expand ax => match d.expandDims ax with
    | some d' => .ok (d', true)
    | none => .error .valueError      -- numpy: AxisError ⊂ ValueError
  | .squeeze ax => match d.squeeze ax with
    | some d' => .ok (d', true)
    | none => .error .valueError
  | .broadcastTo sh => match d.broadcastTo sh with
    | some d' => .ok (d', true)
    | none => .error .valueError

/-- the logical index map of a view op on an array of shape `sh`: result shape, and for every flat
index of the result the flat index of the operand element found there -/
def ViewFn.indexMap (f : ViewFn) (sh : Shape) : Except Err (Shape × List Nat) :=
  match f.apply (Desc.contig 0 sh) with
  | .error e => .error e
  | .ok (d, _) => .ok (d.shape, d.positions)

/-! ## SetItem forward -/

/-- positions (flat, in x's logical order) selected by a key, and the selection's shape -/
def SetKey.select (k : SetKey) (sh : Shape) : Except Err (Shape × List Nat) :=
  match k with
  | .basic ix => (ViewFn.getitem ix).indexMap sh
  | .arr idx =>
    match sh with
    | [] => .error .indexError
    | n :: rest =>
      let inner := size rest
      let norm : Option (List Nat) := idx.mapM fun (i : Int) =>
        let i' : Int := if i < 0 then i + (n : Int) else i
        if i' < 0 ∨ i' ≥ (n : Int) then none else some i'.toNat
      match norm with
      | none => .error .indexError
      | some is => .ok (is.length :: rest, is.flatMap fun i => (List.range inner).map fun j => i * inner + j)
  | .mask m =>
    if m.length ≠ size sh then .error .indexError
    else
      let ps := (List.range (size sh)).filter fun i => m.getD i false
      .ok ([ps.length], ps)

/-! ## forward evaluation of non-view kinds -/

/-- NumPy's `normalize_axis_index` -/
def normAxis (ndim : Nat) (ax : Int) : Option Nat :=
  let a := if ax < 0 then ax + (ndim : Int) else ax
  if a < 0 ∨ a ≥ (ndim : Int) then none else some a.toNat

def evalKind (k : Kind) (args : List Val) : Except Err Val :=
  match k, args with
  | .add, [a, b] => zipB (· + ·) a b
  | .sub, [a, b] => zipB (· - ·) a b
  | .mul, [a, b] => zipB (· * ·) a b
  | .neg, [a] => .ok (a.1, a.2.map (- ·))
  | .pos, [a] => .ok a
  | .square, [a] => .ok (a.1, a.2.map fun x => x * x)
  | .sum none _kd, [a] =>
    .ok (if _kd then a.1.map (fun _ => 1) else [], [a.2.foldl (· + ·) 0])
  | .sum (some ax) kd, [a] =>
    match normAxis a.1.length ax with
    | some ax => .ok (sumAxis a.1 ax a.2 kd)
    | none => .error .valueError
  | .takeArr idx, [a] =>
    match (SetKey.arr idx).select a.1 with
    | .ok (sh, ps) => .ok (sh, gather ps a.2)
    | .error e => .error e
  | _, _ => .error .other

/-! ## VJPs (`backward_var`) -/

def invPerm (p : List Nat) : List Nat :=
  (List.range p.length).map fun i => (p.idxOf i)

/-- `backward_var(grad, index)` of each modelled operation, before the shared tail
(`where`-mask, `reduce_broadcast`) of `Operation.backward` -/
def vjp (h : Heap) (o : OpRec) (index : Nat) (g : Val) : Except Err Val :=
  let var (i : Nat) : Tens := h.t (o.vars.getD i 0)
  let v0 := h.val (var 0).data
  let v1 := h.val (var 1).data
  match o.kind with
  | .add => .ok g
  | .sub => if index = 0 then .ok g else .ok (g.1, g.2.map (- ·))
  | .mul => zipB (· * ·) g (if index = 0 then v1 else v0)
  | .neg => .ok (g.1, g.2.map (- ·))
  | .pos => .ok g
  | .square => zipB (fun g x => g * 2 * x) g v0
  | .sum none _ => .ok (v0.1, List.replicate (size v0.1) (g.2.getD 0 0))
  | .sum (some ax) kd =>
    -- broadcast the (keepdims) gradient back over the summed axis
    match normAxis v0.1.length ax with
    | none => .error .valueError
    | some ax =>
      let gsh := if kd then g.1 else insertAt g.1 ax 1
      broadcastVal (gsh, g.2) v0.1
  | .view f =>
    match f with
    | .broadcastTo _ => .ok g
    | .tprop => match (ViewFn.tprop).indexMap g.1 with
      | .ok (sh, ps) => .ok (sh, gather ps g.2)
      | .error e => .error e
    | .transpose axes =>
      if v0.1.length > 1 then
        match (ViewFn.transpose (invPerm axes)).indexMap g.1 with
        | .ok (sh, ps) => .ok (sh, gather ps g.2)
        | .error e => .error e
      else .ok g
    | .getitem ix =>
      match (ViewFn.getitem ix).indexMap v0.1 with
      | .ok (_, ps) => .ok (v0.1, scatterAdd ps (size v0.1) g.2)
      | .error e => .error e
    | _ => .ok (v0.1, g.2)            -- `_PreservesOrder`: np.reshape(grad, a.shape)
  | .takeArr idx =>
    match (SetKey.arr idx).select v0.1 with
    | .ok (_, ps) => .ok (v0.1, scatterAdd ps (size v0.1) g.2)
    | .error e => .error e
  | .setitem key =>
    match key.select g.1 with
    | .error e => .error e
    | .ok (selSh, ps) =>
      if index = 0 then
        -- grad = copy(grad); grad[key] = 0
        .ok (g.1, ps.foldl (fun acc p => acc.set p 0) g.2)
      else
        -- grad[key], with redundantly set positions masked to their last write
        let sel := gather ps g.2
        let keep := (List.range ps.length).map fun j =>
          !((ps.drop (j + 1)).contains (ps.getD j 0))
        let sel' := (List.zip sel keep).map fun (x, k) => if k then x else 0
        -- "projecting down": fewer dims than b
        let bsh := v1.1
        if selSh.length < bsh.length then
          if size selSh = size bsh then .ok (bsh, sel')
          else .ok (List.replicate (bsh.length - selSh.length) 1 ++ selSh, sel')
        else .ok (selSh, sel')
  | .unview chain layout =>
    -- The gradient is copied into an array laid out like the base's data (`layout` = its strides) and the
    -- chain is replayed on that copy; `ps` = the logical indices of the base that the view occupies.
    let rec go (fs : List ViewFn) (d : Desc) : Except Err Desc :=
      match fs with
      | [] => .ok d
      | f :: r => match f.apply d with
        | .ok (d', true) => go r d'
        | .ok (_, false) => .error .assertion
        | .error e => .error e
    let d0 : Desc := ⟨0, g.1, layout⟩
    match go chain d0 with
    | .error e => .error e
    | .ok d =>
      let mem := d0.positions
      let ps := d.positions.map fun p => mem.idxOf p
      if index = 0 then .ok (g.1, ps.foldl (fun acc p => acc.set p 0) g.2)
      else .ok (d.shape, gather ps g.2)
  | .applyMask m =>
    if index = 0 then .ok g
    else match broadcastMask m g.1 with
      | .ok mk => .ok (g.1, (List.zip g.2 mk).map fun (x, b) => if b then 0 else x)
      | .error e => .error e

/-! ## `Tensor._op` -/

inductive Operand where
  | t (id : Nat)
  | lit (v : Val)                    -- ndarray / Python scalar: wrapped as a fresh constant tensor
  deriving Repr, Inhabited

/-- wrap non-tensor operands (`cls(var, constant=True, copy=False)`) -/
def wrapOperands (h : Heap) : List Operand → Heap × List Nat
  | [] => (h, [])
  | .t i :: r => let (h, is) := wrapOperands h r; (h, i :: is)
  | .lit v :: r =>
    let (h, a) := h.newArr v
    let (h, i) := h.fresh
    let h := h.setT i { data := a, const := true }
    let (h, is) := wrapOperands h r
    (h, i :: is)

/-- the public `.base` property is just `_base` -/
def Heap.baseOf (h : Heap) (i : Nat) : Option Nat := (h.t i).base

/-- the `constant` flag of an op's result: the flag passed by the caller always wins; otherwise the
result is constant exactly when every input is -/
def resultConst (constant : Option Bool) (h : Heap) (vars : List Nat) : Bool :=
  match constant with
  | some c => c
  | none => !(vars.any fun v => !(h.t v).const)

/-- the forward pass of `Tensor._op`: the output array and, for a view, the parent variable -/
def forwardOp (h : Heap) (kind : Kind) (vars : List Nat) : Except Err (Heap × Arr × Option Nat) :=
  match kind with
  | .view f =>
    let p := vars.getD 0 0
    let pa := (h.t p).data
    match f.apply pa.d with
    | .error e => .error e
    | .ok (d', true) => .ok (h, ⟨pa.buf, d'⟩, some p)
    | .ok (d', false) =>
      -- NumPy copied: a scalar picked by an all-integer index, or a reshape of an unmergeable layout
      let vals := match f with
        | .getitem _ => h.read ⟨pa.buf, d'⟩
        | _ => h.read pa
      let (h, a) := h.newArr (d'.shape, vals)
      .ok (h, a, none)
  | .applyMask _ =>
    -- `ApplyMask.__call__` hands back the very array of its first argument (not flagged a view op)
    .ok (h, (h.t (vars.getD 0 0)).data, none)
  | k =>
    match evalKind k (vars.map fun i => h.val (h.t i).data) with
    | .error e => .error e
    | .ok v => let (h, a) := h.newArr v; .ok (h, a, none)

/-- the `.grad` property.  For a view it replays the creator's view op on the parent's `.grad`
and caches the result in `_view_grad`; the cache is valid while it is a view of the *current*
`_grad` array of the base (`self._view_grad.base is self._base._grad`).  Reading the property
therefore changes the heap. -/
def gradPropObj (fuel : Nat) (h : Heap) (t : Nat) : Heap × Option (Val × Nat) :=
  match fuel with
  | 0 => (h, none)
  | fuel + 1 =>
    let tt := h.t t
    match tt.base with
    | none => (h, tt.grad.map fun g => (g, tt.gradObj))
    | some b =>
      let tb := h.t b
      -- a non-constant view of a constant base owns its gradient; a constant view has none
      if tb.const then (h, tt.grad.map fun g => (g, tt.gradObj))
      else if tt.const then (h, none)
      else
      let cached : Option (Val × Nat) := match tt.viewGrad with
        | some (v, o) => if tb.grad.isSome ∧ o = tb.gradObj then some (v, o) else none
        | none => none
      match cached with
      | some v => (h, some v)
      | none =>
        if tb.grad.isNone then (h, none)
        else match tt.creator with
          | none => (h, none)
          | some f =>
            let o := h.op f
            -- the parent's gradient, together with the identity of the array it is (a view of)
            let (h, pg) := gradPropObj fuel h (o.vars.getD 0 0)
            let r : Option (Val × Nat) := match pg, o.kind with
              | some (pg, src), .view vf =>
                match vf.indexMap pg.1 with
                | .ok (sh, ps) => some ((sh, gather ps pg.2), src)
                | .error _ => none
              | _, _ => none
            (h.modT t ({ · with viewGrad := r }), r)

/-- the public `.grad` property -/
def gradProp (fuel : Nat) (h : Heap) (t : Nat) : Heap × Option Val :=
  let (h, r) := gradPropObj fuel h t
  (h, r.map (·.1))

def Heap.fuel (h : Heap) : Nat := h.next + 2

/-- create the result tensor object and, for a view, register it among its parent's view children -/
def attachResult (h : Heap) (x : Tens) (parent : Option Nat) : Heap × Nat :=
  let (h, o) := h.fresh
  let h := h.setT o x
  let h := match parent with
    | some p => if x.base.isSome then h.modT p fun t => { t with vchildren := t.vchildren ++ [o] } else h
    | none => h
  (h, o)

/-- view detection (base assignment; literal operands cannot share memory here) followed by the
stale-base fix-up and gradient nulling of the tensor inputs -/
def prepInputs (h : Heap) (userTensors : List Nat) (parent : Option Nat) : Heap × Option Nat :=
  let (h, base) : Heap × Option Nat :=
    match parent with
    | none => (h, none)
    | some p =>
      let pt := h.t p
      -- a view being disconnected from its base keeps reporting the gradient it reports now (a copy of it)
      let h := if pt.base.isSome ∧ pt.creator.isNone then
          let (h, g) := gradPropObj h.fuel h p
          -- (`np.copy`: the kept gradient is a new ndarray object.  Its identity is the tensor's own id: every id
          -- comes from the one counter, so no gradient object stored by `storeGrads` — whose ids are fresh — can have it,
          -- and a tensor is disconnected at most once)
          h.modT p fun t => { t with base := none, grad := g.map (·.1), gradObj := p, viewGrad := none }
        else h
      let pt := h.t p
      (h, some (pt.base.getD p))
  let h := userTensors.foldl (fun h v =>
    let tv := h.t v
    let h := if tv.base.isSome ∧ tv.creator.isNone then h.modT v ({ · with base := none }) else h
    if base.isNone then h.modT v ({ · with grad := none, viewGrad := none }) else h) h
  (h, base)

/-- the record kept for an op: its kind and arguments, its variables, its `where=` mask and — for a
view op — the `constant=` argument to replay it with -/
def mkOpRec (kind : Kind) (vars : List Nat) (whereMask : Option (Shape × List Bool)) (fc : Option Bool) : OpRec :=
  { kind := kind, vars := vars, whereMask := whereMask, forceConst := fc }

/-- everything `Tensor._op` does after the forward pass succeeded: view detection and base
assignment, stale-base fix-up and gradient nulling of the inputs, recording of the op and of the
consumer relation, creation of the result tensor (with the inferred `constant` flag `c`) -/
def recordOp (h : Heap) (kind : Kind) (vars userTensors : List Nat) (c : Bool)
    (constant : Option Bool) (whereMask : Option (Shape × List Bool)) (outArr : Arr)
    (parent : Option Nat) : Heap × Nat :=
  let (h, base) := prepInputs h userTensors parent
  let (h, f) := h.fresh
  let h := h.setOp f (mkOpRec kind vars whereMask (if base.isSome then constant else none))
  let h := vars.foldl (fun h v => h.modT v fun t => { t with ops := f :: t.ops }) h
  attachResult h { data := outArr, const := c, creator := some f, base := base } parent

/-- `Tensor._op(Op, *inputs, constant=…)` for a non-`out=` call with graph tracking on.
Returns the new heap and the id of the result tensor. -/
def opStep (h : Heap) (kind : Kind) (inputs : List Operand) (constant : Option Bool := none)
    (whereMask : Option (Shape × List Bool) := none) : Except Err (Heap × Nat) :=
  let (hw, vars) := wrapOperands h inputs
  let userTensors := inputs.filterMap fun | .t i => some i | _ => none
  match forwardOp hw kind vars with
  | .error e => .error e
  | .ok (h, outArr, parent) =>
    -- constant inference (float data: `constant=None` means non-constant unless every input is constant)
    .ok (recordOp h kind vars userTensors (resultConst constant hw vars) constant whereMask outArr parent)

/-! ## `collect_all_tensors_and_clear_grads` -/

/-- the inputs the DFS descends into from `t`: none for a constant or creator-less tensor -/
def Heap.inp (h : Heap) (t : Nat) : List Nat :=
  let tt := h.t t
  if tt.const then []
  else match tt.creator with
    | none => []
    | some f => (h.op f).vars

/-- The recursive DFS, with fuel.  `topo` is both the deque (`appendleft` = cons) and the `seen` set
(the code adds a tensor to both at the same moment); `touched` lists every tensor the function was
called on — each of those has its gradient nulled, *before* the constant / seen tests.
`none` = fuel exhausted, which only a cyclic graph can cause (Python's RecursionError). -/
def collect (fuel : Nat) (h : Heap) (t : Nat) (touched : List Nat) (topo : List Nat) :
    Option (List Nat × List Nat) :=
  match fuel with
  | 0 => none
  | fuel + 1 =>
    let touched := t :: touched
    if (h.t t).const then some (touched, topo)
    else if topo.contains t then some (touched, topo)
    else
      let r : Option (List Nat × List Nat) :=
        (h.inp t).foldlM (fun (acc : List Nat × List Nat) v => collect fuel h v acc.1 acc.2)
          (touched, topo)
      r.map fun (touched, topo) => (touched, t :: topo)

/-! ## `Operation.backward` -/

/-- gradients accumulated so far during one backward pass: tensor id ↦ `_grad` -/
abbrev GMap := List (Nat × Val)

/-- `a += b` on arrays of one shape (padding makes the definition total) -/
def addVal (a b : Val) : Val :=
  (a.1, (List.range (max a.2.length b.2.length)).map fun i => a.2.getD i 0 + b.2.getD i 0)

/-- copy-or-accumulate: `var._grad = g` the first time, `var._grad += g` afterwards -/
def accum (gr : GMap) (v : Nat) (bg : Val) : GMap :=
  match lookup v gr with
  | none => insert v bg gr
  | some old => insert v (addVal old bg) gr

/-- `backed_grad * self.where` -/
def applyWhere (o : OpRec) (bg : Val) : Except Err Val :=
  match o.whereMask with
  | none => .ok bg
  | some m =>
    match broadcastShapes bg.1 m.1 with
    | none => .error .valueError
    | some sh =>
      match broadcastVal bg sh, broadcastMask m sh with
      | .ok b, .ok mk => .ok (sh, (List.zip b.2 mk).map fun (x, k) => if k then x else 0)
      | _, _ => .error .valueError

/-- `grad_post_process_fn` (= `reduce_broadcast`) followed by
`assert backed_grad.shape == var.shape` (and it is an ndarray: as many elements as its shape says) -/
def reduceTo (vshape : Shape) (bg : Val) : Except Err Val :=
  match reduceBroadcast bg.1 bg.2 vshape with
  | none => .error .valueError
  | some r => if r.1 = vshape ∧ r.2.length = size vshape then .ok r else .error .assertion

/-- the shared tail of `Operation.backward`: where-mask, `reduce_broadcast`, shape assertion -/
def postVjp (o : OpRec) (vshape : Shape) (bg : Val) : Except Err Val :=
  match applyWhere o bg with
  | .error e => .error e
  | .ok bg => reduceTo vshape bg

/-- the gradient `op f` sends to its variable number `index`, given the gradient `g` of its output.
All reads go to `h`, the heap as it was when `backward` started: `backward` never writes data. -/
def contribution (h : Heap) (o : OpRec) (index : Nat) (g : Val) : Except Err Val :=
  match vjp h o index g with
  | .error e => .error e
  | .ok bg => postVjp o (h.t (o.vars.getD index 0)).data.d.shape bg

/-- one step of `Operation.backward`'s loop: the contribution to variable number `index` -/
def opBackwardVar (h : Heap) (o : OpRec) (g : Val) (gr : GMap) (index : Nat) : Except Err GMap :=
  let v := o.vars.getD index 0
  let tv := h.t v
  if tv.const then .ok gr
  else if tv.ops.isEmpty then .error .invalidBackprop
  else
    match contribution h o index g with
    | .error e => .error e
    | .ok bg => .ok (accum gr v bg)

/-- fold with the state at the point of failure -/
def foldErr {α σ} (xs : List α) (s : σ) (f : σ → α → Except Err σ) : σ × Option Err :=
  match xs with
  | [] => (s, none)
  | x :: r =>
    match f s x with
    | .ok s' => foldErr r s' f
    | .error e => (s, some e)

/-- `Operation.backward(grad)`: back-propagate `g` to every non-constant input -/
def opBackward (h : Heap) (f : Nat) (g : Val) (gr : GMap) : GMap × Option Err :=
  let o := h.op f
  foldErr (List.range o.vars.length) gr fun gr index => opBackwardVar h o g gr index

/-! ## `clear_graph`, `.grad` -/

/-- `Tensor.clear_graph` (recursive; `_creator = None` marks a tensor as visited) -/
def clearGraph (fuel : Nat) (h : Heap) (t : Nat) : Heap :=
  match fuel with
  | 0 => h
  | fuel + 1 =>
    -- "pull" on the gradient of a view before the graph information is dropped
    let h := if (h.t t).base.isSome then (gradProp h.fuel h t).1 else h
    let tt := h.t t
    let h := h.modT t fun x => { x with vchildren := [], ops := [] }
    match tt.creator with
    | none => h
    | some f =>
      let h := h.modT t ({ · with creator := none })
      (h.op f).vars.foldl (fun h v => clearGraph fuel h v) h


/-! ## `Tensor.backward` -/

inductive Seed where
  | none
  | val (v : Val)
  deriving Repr, Inhabited

/-- the back-propagation loop over the topologically sorted tensors (`t._backward()` for each) -/
def backLoop (h : Heap) (topo : List Nat) (gr : GMap) : GMap × Option Err :=
  match topo with
  | [] => (gr, none)
  | t :: r =>
    match lookup t gr, (h.t t).creator with
    | none, _ => (gr, some .assertion)
    | some gt, some f =>
      match opBackward h f gt gr with
      | (gr, none) => backLoop h r gr
      | (gr, some e) => (gr, some e)
    | some _, none => backLoop h r gr

/-- store the accumulated gradients: every entry becomes a fresh ndarray object in `_grad` -/
def storeGrads (h : Heap) (gr : GMap) : Heap :=
  gr.foldl (fun h (p : Nat × Val) =>
    let (h, o) := h.fresh
    h.modT p.1 ({ · with grad := some p.2, gradObj := o })) h

/-- the seed gradient of `L.backward(grad)` -/
def seedVal (sh : Shape) (seed : Seed) : Except Err Val :=
  match seed with
  | .none => .ok (sh, List.replicate (size sh) 1)
  | .val v =>
    if v.2.length ≠ size v.1 then .error .valueError           -- not an array
    else if v.1 = sh then .ok v
    else match broadcastVal v sh with
      | .ok b => .ok b
      | .error _ => .error .valueError

/-- the gradients one backward pass computes, as a pure function of the heap at the moment
`backward` is called: the topological order, the seed, and the accumulated gradient map (together
with the error that interrupted the loop, if any) -/
def backwardGrads (h : Heap) (L : Nat) (topo : List Nat) (g : Val) : GMap × Option Err :=
  if (h.t L).creator.isNone then ([(L, g)], none) else backLoop h topo [(L, g)]

/-- a former view whose graph was cleared while its base lingers starts over as a tensor of its own
when `backward` is called on it (`Tensor.backward`: "tensor's graph has been cleared, but its base lingers") -/
def startOver (h : Heap) (L : Nat) : Heap :=
  if (h.t L).base.isSome ∧ (h.t L).creator.isNone then h.modT L ({ · with base := none }) else h

/-- `L.backward(grad)` with tracking on.  An error carries the heap as the failed call leaves it. -/
def backward (h : Heap) (L : Nat) (seed : Seed) : Except (Err × Heap) Heap :=
  let tL := h.t L
  if tL.const then .ok (clearGraph h.fuel h L)
  else
    let h := startOver h L
    match collect h.fuel h L [] [] with
    | none => .error (.recursion, h)
    | some (touched, topo) =>
      let h := touched.foldl (fun h t => h.modT t ({ · with grad := none, viewGrad := none })) h
      match seedVal tL.data.d.shape seed with
      | .error e => .error (e, h)
      | .ok g =>
        let (gr, err) := backwardGrads h L topo g
        let h := storeGrads h gr
        match err with
        | some e => .error (e, h)
        | none => .ok (clearGraph h.fuel h L)

def nullGrad (h : Heap) (t : Nat) : Heap := h.modT t ({ · with grad := none, viewGrad := none })

end MG.Eng
